"""C06 — HD key derivation, extended keys and addresses follow BIP32 / Base58Check.

Deductive part (symbolic execution of the real code; HMAC-SHA512, the hashes and secp256k1 are uninterpreted functions
with the facts listed in TRUSTED; every obligation is discharged by SMT):
  * CKDpriv / CKDpub (`PrivateKey.child`, `PublicKey.child`): the HMAC message is `0x00 || ser256(k) || ser32(i)` for
    i >= 2**31 and `serP(K) || ser32(i)` below, keyed with the parent chain code; the child key is
    `(parse256(I_L) + k) mod n` resp. `K + I_L*G`, the chain code `I_R`; depth / index / parent plumbing; the index
    ranges (public derivation refuses hardened indices); BIP32's invalid cases (I_L >= n, key 0 / point at infinity)
    raise instead of returning a key; for every 32-byte key and chain code, every index, every depth.
    [ckd_priv, ckd_pub]
  * N(CKDpriv(k, i)) == CKDpub(N(k), i) for every non-hardened i, including fingerprints. [ckd_neuter_commutes]
  * master key generation `from_seed` for every seed of 16..64 bytes. [master_key]
  * the 78-byte serialisation `extended_key` of private and public keys with and without parent, fingerprints
    [xkey_layout]; its decoder `_from_extended_key`: every field offset, version dispatch, rejection of a wrong
    length / unknown version / non-zero padding byte / invalid key material [xkey_decode, xkey_decode_length]; the
    encode -> decode round trip [xkey_roundtrip].
  * Base58Check framing: `encode_check` hands payload || SHA256d(payload)[:4] to the numeral encoder, `decode_check`
    returns the payload exactly when the last four bytes are that checksum and raises Base58Error otherwise, for
    *every* byte string the numeral decoder can deliver. [encode_check, decode_check]
  * deductive MODULO THE CONTRACT OF THE BASE58 NUMERAL CONVERSION (see TRUSTED; the contract itself is only checked
    by the bounded stand-ins base58.*): `hash160_to_address`, `hash160_to_script_address`, `address_to_hash160`,
    `public_key_to_address` [address]; acceptance of an address string exactly with the right checksum and its
    classification by prefix (`decode_check`, `is_pubkey_address`, `is_script_address`) [address_check];
    `extended_key_string` [xkey_string]; `from_extended_key_string` [xkey_string_decode].
  * gap-limited address chains: `ensure_address_gap` / `_generate_keys` create exactly `gap - existing_gap` keys, the
    children (chain, index) of the account public key at consecutive indices after the highest known one, store and
    announce them in that order, and nothing when the gap is there: gap 1, 2, 3, 6 with 0..gap known addresses of
    arbitrary used counts and indices [address_gap[...]]; `get_private_key` / `get_public_key` follow
    (own account, chain, index) with two accounts used alternately [chain_keys_two_accounts] (key objects are
    path-recording stand-ins in these two families).

Bounded stand-ins (run-time contract checks of the real functions with CPython, never counted as proved): the Base58
numeral loops and refusal of foreign characters, Base58Check end to end with a neighbourhood of corrupted strings, the
mnemonic numeral loops, PBKDF2 seed stretching, the published BIP32 test vectors 1-3, agreement with an independent
pure-Python BIP32 (own secp256k1 arithmetic) along paths up to depth 6, regeneration of the same receiving / change
address sequences from the same mnemonic through the real `Account.from_dict`, and the gap clause at gaps 20 and 6.
"""
import hashlib
import hmac
import z3

from pyvc.api import *
from pyvc.speclib import forall, exists, implies, char_at, take, drop, matches
from pyvc.values import *
from pyvc.ops import exc, mk_int, iterm, unlift, as_int_term
from pyvc.segs import VSegs, segs_of, to_vbytes, total_len

from coincurve import PrivateKey as cPrivateKey, PublicKey as cPublicKey

from lbry.wallet.bip32 import PrivateKey, PublicKey, _from_extended_key, from_extended_key_string
from lbry.wallet.ledger import Ledger, TestNetLedger
from lbry.wallet.account import HierarchicalDeterministic, Account
from lbry.wallet.mnemonic import Mnemonic
from lbry.crypto.base58 import Base58, Base58Error

# secp256k1 group order (SEC 2, section 2.4.1)
N = 0xFFFFFFFFFFFFFFFFFFFFFFFFFFFFFFFEBAAEDCE6AF48A03BBFD25E8CD0364141
HARDENED = 2 ** 31
# BIP32 serialisation versions
XPUB_MAIN, XPRV_MAIN = bytes.fromhex('0488b21e'), bytes.fromhex('0488ade4')
XPUB_TEST, XPRV_TEST = bytes.fromhex('043587cf'), bytes.fromhex('04358394')

# ================================================================================================
# Trusted library models (engine level).  Natively the real hmac / coincurve run; symbolically they
# are uninterpreted functions with exactly the algebraic facts listed in TRUSTED.
# ================================================================================================

_S = z3.StringSort()
_I = z3.IntSort()
_B = z3.BoolSort()
HM_L = z3.Function('hmac_sha512_left', _S, _S, _S)       # bytes 0..31 of HMAC-SHA512(key, msg)
HM_R = z3.Function('hmac_sha512_right', _S, _S, _S)      # bytes 32..63
EC_SER = z3.Function('secp256k1_serP_of_scalar', _I, _S)  # serP(k*G), compressed, 33 bytes
EC_TWK = z3.Function('secp256k1_serP_tweak_add', _S, _I, _S)   # serP(P + t*G) from serP(P)
EC_VALID = z3.Function('secp256k1_valid_compressed', _S, _B)
EC_ADDOK = z3.Function('secp256k1_tweak_not_infinity', _S, _I, _B)
BE = z3.Function('int_from_be', _S, _I)                  # the engine's symbols for int.from_bytes / int.to_bytes
TOBE = z3.Function('int_to_be', _I, _I, _S)
B58E = z3.Function('base58_numeral', _S, _S)             # bytes -> Base58 text
B58D = z3.Function('base58_value', _S, _S)               # Base58 text -> bytes


def _flat(v):
    """bytes-like V -> z3 String term"""
    if isinstance(v, VSegs):
        v = to_vbytes(v)
    if not isinstance(v, VBytes):
        raise Unsupported(f"bytes expected, got {v}")
    return v.term()


def _has_len(st, v, n):
    """the bytes value v is known to be n bytes long on this path"""
    segs = segs_of(v)
    if segs is None:
        return False
    ln = total_len(segs)
    if isinstance(ln, int):
        return ln == n
    return st.entails(z3.simplify(ln) == n)


def _assume_bytes(st, t, n):
    st.assume(z3.Length(t) == n)
    st.assume(z3.InRe(t, byte_re()))


class _HmacResult:
    """what hmac.new(...) returns, as far as the repository uses it"""

    def __init__(self, d):
        self.d = d

    def digest(self):
        return self.d


@model_for(hmac.new)
def _m_hmac_new(interp, st, args, kwargs):
    key, msg = args[0], args[1]
    dm = args[2] if len(args) > 2 else kwargs.get('digestmod')
    if not (isinstance(dm, VConst) and dm.obj is hashlib.sha512):
        raise Unsupported("hmac.new: only HMAC-SHA512 is modelled")
    if key.concrete and msg.concrete:
        d = VBytes(hmac.new(unlift(key), unlift(msg), hashlib.sha512).digest())
    else:
        k, m = _flat(key), _flat(msg)
        left, right = HM_L(k, m), HM_R(k, m)
        _assume_bytes(st, left, 32)
        _assume_bytes(st, right, 32)
        d = VSegs([('sym', left, 32), ('sym', right, 32)])
    interp.builtins_used.add("hmac.new(sha512) [uninterpreted]")
    yield st, st.alloc(HObj(_HmacResult, dict(d=d)))


# hashlib: same uninterpreted digest functions as the engine's own model (pyvc.stdmodels), but the digest length is also
# put on the path condition, so that the cheap branch pruning knows the length of slices such as hash160(x)[:4]

class _HashObj:
    """hashlib hash object as far as the code under contract uses it"""

    def __init__(self, alg, fed):
        self.alg = alg
        self.fed = fed

    def update(self, data):
        self.fed = self.fed + data

    def digest(self):
        return _digest_of(self.alg, self.fed)


def _digest_of(alg, data):
    return hashlib.new(alg, data).digest()


@model_for(_digest_of)
def _m_digest_of(interp, st, args, kwargs):
    from pyvc.stdmodels import hash_uf, HASH_SIZES
    alg, data = unlift(args[0]), args[1]
    interp.builtins_used.add(f"hashlib.{alg}")
    if data.concrete:
        yield st, VBytes(hashlib.new(alg, bytes(unlift(data))).digest())
        return
    t = hash_uf(alg)(_flat(data))
    _assume_bytes(st, t, HASH_SIZES[alg])
    yield st, VSegs([('sym', t, HASH_SIZES[alg])])


def _new_hash_obj(st, alg, data):
    if data is None or data is VNone:
        data = VBytes(b'')
    if segs_of(data) is None:
        raise Unsupported("hashing a non-bytes value")
    return st.alloc(HObj(_HashObj, dict(alg=VStr(alg), fed=data)))


@model_for(hashlib.sha256)
def _m_sha256(interp, st, args, kwargs):
    yield st, _new_hash_obj(st, 'sha256', args[0] if args else None)


@model_for(hashlib.new)
def _m_hashlib_new(interp, st, args, kwargs):
    yield st, _new_hash_obj(st, unlift(args[0]).lower(), args[1] if len(args) > 1 else kwargs.get('data'))


def _new_pub(st, ser_value):
    return st.alloc(HObj(cPublicKey, dict(ser=ser_value)))


def _assume_point(st, t):
    _assume_bytes(st, t, 33)
    c0 = z3.StrToCode(z3.SubString(t, 0, 1))
    st.assume(z3.Or(c0 == 2, c0 == 3))
    st.assume(EC_VALID(t))


def _pub_of_scalar(st, k):
    t = EC_SER(iterm(k))
    _assume_point(st, t)
    return _new_pub(st, VSegs([('sym', t, 33)]))


def _new_priv(st, k):
    """k: z3 Int term (or int) with 0 < k < N on this path"""
    k = iterm(k)
    sec = TOBE(k, z3.IntVal(32))
    if z3.is_app(k) and k.decl().eq(BE) and st.entails(z3.simplify(z3.Length(k.arg(0))) == 32):
        # trusted law  int.to_bytes(int.from_bytes(s), len(s)) == s  applied syntactically (s is a 32-byte string)
        sec = k.arg(0)
    return st.alloc(HObj(cPrivateKey, dict(secret=VSegs([('sym', sec, 32)]), public_key=_pub_of_scalar(st, k), k=mk_int(k))))


@model_for(cPrivateKey.from_int.__func__)
def _m_priv_from_int(interp, st, args, kwargs):
    num = args[1]
    if not isinstance(num, VInt):
        raise Unsupported("PrivateKey.from_int of non-int")
    interp.builtins_used.add("coincurve.PrivateKey [uninterpreted group]")
    if num.concrete:
        if 0 < num.v < N:
            yield st, _new_priv(st, num.v)
        else:
            yield st, exc(ValueError, "Secret scalar must be greater than 0 and less than N.")
        return
    ok = z3.And(num.v > 0, num.v < N)
    for s1, r in interp.alts(st, [(ok, 'ok'), (z3.Not(ok), 'bad')]):
        if r == 'ok':
            yield s1, _new_priv(s1, num.v)
        else:
            yield s1, exc(ValueError, "Secret scalar must be greater than 0 and less than N.")


@model_for(cPrivateKey.to_int)
def _m_priv_to_int(interp, st, args, kwargs):
    yield st, st.heap[args[0].addr].fields['k']


def _scalar_of(st, v):
    if not _has_len(st, v, 32):
        raise Unsupported("tweak scalar must be 32 bytes")
    if v.concrete:
        return z3.IntVal(int.from_bytes(unlift(v), 'big'))
    t = BE(_flat(v))
    st.assume(t >= 0)
    st.assume(t < 2 ** 256)
    return t


def _add_mod_n(k, t):
    s = iterm(k) + t
    return z3.If(s >= N, s - N, s)


@model_for(cPrivateKey.add)
def _m_priv_add(interp, st, args, kwargs):
    self_ = st.heap[args[0].addr]
    k = self_.fields['k'].term()
    t = _scalar_of(st, args[1])
    ok = z3.And(t < N, _add_mod_n(k, t) != 0)
    for s1, r in interp.alts(st, [(ok, 'ok'), (z3.Not(ok), 'bad')]):
        if r == 'ok':
            k2 = z3.Int(fresh_name('child_scalar'))
            s1.assume(k2 == _add_mod_n(k, t))
            s1.assume(z3.And(k2 > 0, k2 < N))
            yield s1, _new_priv(s1, k2)
        else:
            yield s1, exc(ValueError, "The tweak was out of range, or the resulting private key is invalid.")


@model_for(cPublicKey)
def _m_pub_parse(interp, st, args, kwargs):
    data = args[0]
    if segs_of(data) is None:
        raise Unsupported("coincurve.PublicKey(data): bytes expected")
    interp.builtins_used.add("coincurve.PublicKey [uninterpreted group]")
    if data.concrete:
        try:
            cPublicKey(unlift(data))
        except ValueError as e:
            yield st, exc(ValueError, str(e))
            return
        yield st, _new_pub(st, data)
        return
    t = _flat(data)
    c0 = z3.StrToCode(z3.SubString(t, 0, 1))
    ok = z3.And(EC_VALID(t), z3.Or(c0 == 2, c0 == 3))
    if _has_len(st, data, 33):
        alts = [(ok, 'ok'), (z3.Not(ok), 'bad')]
    else:
        # only the 33-byte compressed form is modelled: any other length may be refused or accepted (unknown key)
        len33 = z3.Length(t) == 33
        alts = [(z3.And(len33, ok), 'ok'), (z3.And(len33, z3.Not(ok)), 'bad'), (z3.Not(len33), 'bad'), (z3.Not(len33), 'unknown')]
    for s1, r in interp.alts(st, alts):
        if r == 'ok':
            yield s1, _new_pub(s1, data)
        elif r == 'unknown':
            u = z3.String(fresh_name('parsed_point'))
            _assume_point(s1, u)
            yield s1, _new_pub(s1, VSegs([('sym', u, 33)]))
        else:
            yield s1, exc(ValueError, "The public key could not be parsed or is invalid.")


@model_for(cPublicKey.format)
def _m_pub_format(interp, st, args, kwargs):
    comp = args[1] if len(args) > 1 else kwargs.get('compressed', VBool(True))
    if not (comp.concrete and unlift(comp)):
        raise Unsupported("uncompressed public key format")
    yield st, st.heap[args[0].addr].fields['ser']


@model_for(cPublicKey.add)
def _m_pub_add(interp, st, args, kwargs):
    ser = _flat(st.heap[args[0].addr].fields['ser'])
    t = _scalar_of(st, args[1])
    ok = z3.And(t < N, EC_ADDOK(ser, t))
    # group homomorphism, instantiated where the point is known as k*G:  k*G + t*G = ((k + t) mod n)*G
    if z3.is_app(ser) and ser.decl().eq(EC_SER):
        k = ser.arg(0)
        st.assume(z3.Implies(t < N, EC_ADDOK(ser, t) == (_add_mod_n(k, t) != 0)))
        st.assume(z3.Implies(ok, EC_TWK(ser, t) == EC_SER(_add_mod_n(k, t))))
    for s1, r in interp.alts(st, [(ok, 'ok'), (z3.Not(ok), 'bad')]):
        if r == 'ok':
            res = EC_TWK(ser, t)
            _assume_point(s1, res)
            yield s1, _new_pub(s1, VSegs([('sym', res, 33)]))
        else:
            yield s1, exc(ValueError, "The tweak was out of range, or the resulting public key is invalid.")


@model_for(range)
def _m_range(interp, st, args, kwargs):
    """range(lo, hi) with symbolic end points whose distance is a constant (start + k): the list lo, lo+1, .., hi-1.
    (work-around for engine gap C06_2; everything else goes to the engine's own model)"""
    from pyvc.builtins_model2 import t_range
    from pyvc.ops import is_numeric, as_int_term
    if len(args) == 2 and not kwargs and all(is_numeric(a) for a in args) and not all(a.concrete for a in args):
        lo, hi = iterm(as_int_term(args[0])), iterm(as_int_term(args[1]))
        d = z3.simplify(hi - lo)
        if z3.is_int_value(d) and d.as_long() <= 64:
            yield st, st.alloc(HList(items=[mk_int(lo + j) for j in range(max(0, d.as_long()))]))
            return
    yield from t_range(interp, st, args, kwargs)


# ---- the Base58 numeral conversion, treated modularly in the deductive proofs (contract checked bounded below)

B58_ALPHABET = '123456789ABCDEFGHJKLMNPQRSTUVWXYZabcdefghijkmnopqrstuvwxyz'


def spec_b58encode(b):
    """Base58 numeral of a byte string (Bitcoin wiki 'Base58Check encoding', steps 4-6): big-endian number in base 58,
    one leading '1' per leading zero byte"""
    b = bytes(b)
    n = int.from_bytes(b, 'big')
    out = ''
    while n > 0:
        n, r = divmod(n, 58)
        out = B58_ALPHABET[r] + out
    pad = 0
    while pad < len(b) and b[pad] == 0:
        pad += 1
    return '1' * pad + out


def spec_b58decode(s):
    """inverse of spec_b58encode; None for strings outside the alphabet"""
    n = 0
    for ch in s:
        d = B58_ALPHABET.find(ch)
        if d < 0:
            return None
        n = n * 58 + d
    pad = 0
    while pad < len(s) and s[pad] == '1':
        pad += 1
    body = n.to_bytes((n.bit_length() + 7) // 8, 'big')
    return b'\x00' * pad + body


_B58_ENCODE = Base58.__dict__['encode'].__func__
_B58_DECODE = Base58.__dict__['decode'].__func__


def _m_b58_encode_value(interp, st, be):
    interp.builtins_used.add("Base58 numeral [modular contract, checked bounded]")
    if be.concrete:
        return None
    return VStr(B58E(_flat(be)))


@model_for(_B58_ENCODE)
def _m_b58_encode(interp, st, args, kwargs):
    r = _m_b58_encode_value(interp, st, args[1])
    yield st, (r if r is not None else VStr(_B58_ENCODE(Base58, unlift(args[1]))))        # concrete input: the real function runs


@model_for(spec_b58encode)
def _m_spec_b58encode(interp, st, args, kwargs):
    r = _m_b58_encode_value(interp, st, args[0])
    yield st, (r if r is not None else VStr(spec_b58encode(unlift(args[0]))))


def _starts_with_nonzero_literal(b, depth=0):
    """the byte-string term is (an if-then-else of) a concatenation that begins with a literal whose first byte is not zero"""
    if depth > 8 or not z3.is_app(b):
        return False
    if b.decl().kind() == z3.Z3_OP_SEQ_CONCAT:
        return _starts_with_nonzero_literal(b.arg(0), depth + 1)
    if b.decl().kind() == z3.Z3_OP_ITE:
        return _starts_with_nonzero_literal(b.arg(1), depth + 1) and _starts_with_nonzero_literal(b.arg(2), depth + 1)
    if not z3.is_string_value(b):
        return False
    lit = unescape_smt(b.as_string())
    return len(lit) > 0 and lit[0] != '\x00'


@model_for(_B58_DECODE)
def _m_b58_decode(interp, st, args, kwargs):
    txt = args[1]
    interp.builtins_used.add("Base58 numeral [modular contract, checked bounded]")
    if not isinstance(txt, VStr):
        raise Unsupported("Base58.decode of a non-str")
    if txt.concrete:
        try:
            yield st, VBytes(_B58_DECODE(Base58, txt.v))                                   # concrete input: the real function runs
        except Base58Error as e:
            yield st, exc(Base58Error, str(e))
        return
    t = txt.term()
    alts = []
    if z3.is_app(t) and t.decl().eq(B58E):
        b = t.arg(0)
        if _starts_with_nonzero_literal(b):
            yield st, VBytes(b)
            return
        nonzero = z3.Not(z3.InRe(b, z3.Star(z3.Re(mk_str('\x00')))))
        alts.append((nonzero, VBytes(b)))
        other = z3.Not(nonzero)
    else:
        other = True
    # anything else: some byte string, or refusal
    r = B58D(t)
    alts.append((other, ('some', r)))
    alts.append((other, exc(Base58Error, "invalid base 58 string")))
    for s1, a in interp.alts(st, alts):
        if isinstance(a, tuple):
            s1.assume(z3.InRe(a[1], byte_re()))
            yield s1, VBytes(a[1])
        else:
            yield s1, a


# ================================================================================================
# BIP32 oracle (written from the BIP32 text; HMAC-SHA512 and the curve come from hmac / coincurve here,
# and from an independent pure-Python implementation in the bounded reference check further down)
# ================================================================================================

def ser32(i):
    return i.to_bytes(4, 'big')


def ser256(k):
    return k.to_bytes(32, 'big')


def parse256(b):
    return int.from_bytes(b, 'big')


def bip32_I(chain, data):
    return hmac.new(chain, data, hashlib.sha512).digest()


def point_ser(k):
    """serP(point(k))"""
    return cPrivateKey.from_int(k).public_key.format(True)


def point_add_ser(pub, il):
    """serP(point(parse256(il)) + K) for K given as serP(K)"""
    return cPublicKey(pub).add(il).format(True)


def valid_scalar(kb):
    return 0 < parse256(kb) < N


def valid_point(pub):
    if pub[0] != 2 and pub[0] != 3:
        return False
    try:
        cPublicKey(pub)
    except ValueError:
        return False
    return True


def spec_sha256d(b):
    return hashlib.sha256(hashlib.sha256(b).digest()).digest()


def spec_hash160(b):
    return hashlib.new('ripemd160', hashlib.sha256(b).digest()).digest()


def ckd_data(key, i):
    if i >= HARDENED:
        return b'\x00' + key + ser32(i)
    return point_ser(parse256(key)) + ser32(i)


def spec_ckd_priv(key, chain, i):
    """BIP32 CKDpriv((k, c), i) -> (k_i as 32 bytes, c_i), or None where BIP32 declares the child invalid"""
    I = bip32_I(chain, ckd_data(key, i))
    il = parse256(I[:32])
    if il >= N or (il + parse256(key)) % N == 0:
        return None
    return ser256((il + parse256(key)) % N), I[32:]


def spec_ckd_pub(pub, chain, i):
    """BIP32 CKDpub((K, c), i) for i < 2**31 -> (serP(K_i), c_i) or None where invalid"""
    I = bip32_I(chain, pub + ser32(i))
    if parse256(I[:32]) >= N:
        return None
    try:
        child = point_add_ser(pub, I[:32])
    except ValueError:
        return None
    return child, I[32:]


KEY = TBytes(length=32)
CHAIN = TBytes(length=32)
PUB = TBytes(length=33)
U32 = TInt(0, 2 ** 32 - 1)

SAMPLE_KEYS = [b'\x00' * 31 + b'\x01', b'\x00\x00' + b'\x7f' * 30, b'\x00' + bytes(range(1, 32)), bytes(range(1, 33)),
               (N - 1).to_bytes(32, 'big'), hashlib.sha256(b'c06').digest()]
SAMPLE_INDICES = [0, 1, 2 ** 31 - 1, 2 ** 31, 2 ** 31 + 1, 2 ** 32 - 1]
SAMPLE_CHAIN = bytes(range(32, 64))


# ------------------------------------------------------------------------------------------------ CKD

def _ckd_priv_invalid(key, chain, i, depth):
    if not valid_scalar(key) or not 0 <= i < 2 ** 32 or depth >= 255:
        return True
    return spec_ckd_priv(key, chain, i) is None


@proof("C06", "ckd_priv")
class CkdPriv:
    """CKDpriv: PrivateKey.child(i) is BIP32's child key for every parent key, chain code and index: hardened data
    0x00||ser256(k)||ser32(i) from 2**31 on, serP(point(k))||ser32(i) below; k_i = (parse256(I_L)+k) mod n; c_i = I_R;
    depth+1, index and parent link; ValueError exactly for an index outside 0..2**32-1, depth overflow, an invalid
    parent scalar or BIP32's invalid-child cases"""
    inputs = dict(key=KEY, chain=CHAIN, i=TInt(), depth=TInt(0, 255), pn=U32)
    note = "8 keys (leading zero bytes, n-1, 0, n) x 8 indices around 0, 2**31, 2**32 x depth 0/1/254/255"

    def run(key, chain, i, depth, pn):
        parent = PrivateKey(Ledger, key, chain, pn, depth)
        child = parent.child(i)
        return (child.private_key_bytes, child.chain_code, child.n, child.depth, child.parent is parent,
                child.secret_exponent(), child.public_key.pubkey_bytes)

    def ensures_key_and_chain_code(key, chain, i, result):
        expected = spec_ckd_priv(key, chain, i)
        return expected is not None and result[0] == expected[0] and result[1] == expected[1] \
            and result[5] == parse256(expected[0])

    def ensures_public_key_is_point_of_child(result):
        return result[6] == point_ser(result[5])

    def ensures_plumbing(i, depth, result):
        return result[2] == i and result[3] == depth + 1 and result[4]

    def ensures_returns_only_valid_children(key, chain, i, depth):
        return not _ckd_priv_invalid(key, chain, i, depth)

    raises = {ValueError: _ckd_priv_invalid}

    def samples():
        for key in SAMPLE_KEYS + [b'\x00' * 32, N.to_bytes(32, 'big')]:
            for i in SAMPLE_INDICES + [2 ** 32, -1]:
                for depth in (0, 1, 254, 255):
                    yield dict(key=key, chain=SAMPLE_CHAIN, i=i, depth=depth, pn=7)


def _ckd_pub_invalid(pub, chain, i, depth):
    if not valid_point(pub) or not 0 <= i < HARDENED or depth >= 255:
        return True
    return spec_ckd_pub(pub, chain, i) is None


@proof("C06", "ckd_pub")
class CkdPub:
    """CKDpub: PublicKey.child(i) for i < 2**31: data serP(K)||ser32(i), K_i = point(parse256(I_L)) + K, c_i = I_R,
    plumbing; hardened or negative indices are refused"""
    inputs = dict(pub=PUB, chain=CHAIN, i=TInt(), depth=TInt(0, 255), pn=U32)
    note = "public keys of the 6 sample scalars, 2 invalid encodings x 8 indices x depth 0/1/254/255"

    def run(pub, chain, i, depth, pn):
        parent = PublicKey(Ledger, pub, chain, pn, depth)
        child = parent.child(i)
        return child.pubkey_bytes, child.chain_code, child.n, child.depth, child.parent is parent

    def ensures_key_and_chain_code(pub, chain, i, result):
        expected = spec_ckd_pub(pub, chain, i)
        return expected is not None and result[0] == expected[0] and result[1] == expected[1]

    def ensures_plumbing(i, depth, result):
        return result[2] == i and result[3] == depth + 1 and result[4]

    def ensures_returns_only_valid_non_hardened_children(pub, chain, i, depth):
        return not _ckd_pub_invalid(pub, chain, i, depth)

    raises = {ValueError: _ckd_pub_invalid}

    def samples():
        pubs = [point_ser(parse256(k)) for k in SAMPLE_KEYS]
        for pub in pubs + [b'\x04' + pubs[0][1:], b'\x02' + b'\xff' * 32]:
            for i in SAMPLE_INDICES + [2 ** 32, -1]:
                for depth in (0, 1, 254, 255):
                    yield dict(pub=pub, chain=SAMPLE_CHAIN, i=i, depth=depth, pn=7)


def _pub_view(k):
    return k.pubkey_bytes, k.chain_code, k.n, k.depth, k.parent_fingerprint(), k.fingerprint()


def _neuter_invalid(key, chain, i):
    return not valid_scalar(key) or spec_ckd_priv(key, chain, i) is None


@proof("C06", "ckd_neuter_commutes")
class NeuterCommutes:
    """N(CKDpriv(k, i)) == CKDpub(N(k), i) for every non-hardened i: deriving from the public key alone gives the public
    key (and chain code, index, depth, fingerprints) of the privately derived child, and succeeds whenever the private
    derivation succeeds"""
    inputs = dict(key=KEY, chain=CHAIN, i=TInt(0, 2 ** 31 - 1), depth=TInt(0, 254), pn=U32)
    note = "6 keys x indices 0, 1, 1000, 2**31-1 x depth 0/3/254"

    def run(key, chain, i, depth, pn):
        parent = PrivateKey(Ledger, key, chain, pn, depth)
        via_private = parent.child(i).public_key
        via_public = parent.public_key.child(i)
        return _pub_view(via_private), _pub_view(via_public)

    def ensures_same_public_child(result):
        return result[0] == result[1]

    def ensures_returns_only_valid_children(key, chain, i):
        return not _neuter_invalid(key, chain, i)

    raises = {ValueError: _neuter_invalid}

    def samples():
        for key in SAMPLE_KEYS:
            for i in (0, 1, 1000, 2 ** 31 - 1):
                for depth in (0, 3, 254):
                    yield dict(key=key, chain=SAMPLE_CHAIN, i=i, depth=depth, pn=2 ** 32 - 1)


def _master_invalid(seed):
    return not valid_scalar(bip32_I(b'Bitcoin seed', seed)[:32])


@proof("C06", "master_key")
class MasterKey:
    """master key generation: I = HMAC-SHA512(key='Bitcoin seed', seed), k = I_L, c = I_R, depth 0, index 0, no parent
    (zero parent fingerprint); invalid I_L (0 or >= n) raises"""
    inputs = dict(seed=TBytes(minlen=16, maxlen=64))
    note = "seeds of 16, 17, 32, 33, 63, 64 bytes"

    def run(seed):
        m = PrivateKey.from_seed(Ledger, seed)
        return m.private_key_bytes, m.chain_code, m.n, m.depth, m.parent is None, m.parent_fingerprint()

    def ensures_master(seed, result):
        I = bip32_I(b'Bitcoin seed', seed)
        return result[0] == I[:32] and result[1] == I[32:] and result[2] == 0 and result[3] == 0 and result[4] \
            and result[5] == b'\x00\x00\x00\x00'

    def ensures_returns_only_valid_master(seed):
        return not _master_invalid(seed)

    raises = {ValueError: _master_invalid}

    def samples():
        for n in (16, 17, 32, 33, 63, 64):
            yield dict(seed=bytes((i * 11 + n) % 256 for i in range(n)))
            yield dict(seed=bytes(n))


# ------------------------------------------------------------------------------------------------ extended keys

def spec_xkey(version, depth, parent_pub, i, chain, keydata):
    """BIP32 'Serialization format': 4 version | 1 depth | 4 parent fingerprint | 4 child number | 32 chain code | 33 key"""
    fp = spec_hash160(parent_pub)[:4] if parent_pub is not None else b'\x00\x00\x00\x00'
    return version + bytes([depth]) + fp + ser32(i) + chain + keydata


def _layout_invalid(pkey, key):
    return not (valid_scalar(pkey) and valid_scalar(key))


@proof("C06", "xkey_layout")
class XkeyLayout:
    """the 78-byte serialisation of private and public extended keys (child with a parent, and a parentless key):
    version, depth, fingerprint = first 4 bytes of HASH160(serP(K_parent)) or zero, ser32(index), chain code,
    0x00||ser256(k) resp. serP(K)"""
    inputs = dict(pkey=KEY, pchain=CHAIN, key=KEY, chain=CHAIN, i=U32, depth=TInt(0, 254), pn=U32)
    note = "sample scalars as parent/child, index extremes, depth 0/254"

    def ensures_returns_only_valid_keys(pkey, key):
        return not _layout_invalid(pkey, key)

    raises = {ValueError: _layout_invalid}

    def run(pkey, pchain, key, chain, i, depth, pn):
        parent = PrivateKey(Ledger, pkey, pchain, pn, depth)
        child = PrivateKey(Ledger, key, chain, i, depth + 1, parent)
        orphan = PrivateKey(TestNetLedger, key, chain, i, depth)
        return (child.extended_key(), child.public_key.extended_key(), orphan.extended_key(), orphan.public_key.extended_key(),
                parent.fingerprint(), parent.identifier())

    def ensures_private_with_parent(pkey, key, chain, i, depth, result):
        return result[0] == spec_xkey(XPRV_MAIN, depth + 1, point_ser(parse256(pkey)), i, chain, b'\x00' + key) \
            and len(result[0]) == 78

    def ensures_public_with_parent(pkey, key, chain, i, depth, result):
        return result[1] == spec_xkey(XPUB_MAIN, depth + 1, point_ser(parse256(pkey)), i, chain, point_ser(parse256(key))) \
            and len(result[1]) == 78

    def ensures_parentless(key, chain, i, depth, result):
        return result[2] == spec_xkey(XPRV_TEST, depth, None, i, chain, b'\x00' + key) \
            and result[3] == spec_xkey(XPUB_TEST, depth, None, i, chain, point_ser(parse256(key)))

    def ensures_fingerprint(pkey, result):
        return result[5] == spec_hash160(point_ser(parse256(pkey))) and result[4] == result[5][:4]

    def samples():
        for pkey in SAMPLE_KEYS[:3]:
            for key in SAMPLE_KEYS:
                for i in (0, 1, 2 ** 31 - 1, 2 ** 31, 2 ** 32 - 1):
                    for depth in (0, 254):
                        yield dict(pkey=pkey, pchain=SAMPLE_CHAIN, key=key, chain=bytes(range(64, 96)), i=i, depth=depth, pn=3)


def _key_view(k):
    if isinstance(k, PrivateKey):
        return 'private', k.private_key_bytes, k.chain_code, k.n, k.depth, k.parent is None, k.ledger
    return 'public', k.pubkey_bytes, k.chain_code, k.n, k.depth, k.parent is None, k.ledger


def _xkey_refused(version, keydata):
    if version == XPRV_MAIN:
        return keydata[0] != 0 or not valid_scalar(keydata[1:])
    if version == XPUB_MAIN:
        return not valid_point(keydata)
    return True


@proof("C06", "xkey_decode")
class XkeyDecode:
    """_from_extended_key on every 78-byte string version|depth|fingerprint|index|chain|keydata: the version selects
    private/public, every field is read from its BIP32 offset, a private key needs the 0x00 padding byte; unknown
    versions, bad padding, invalid key material are refused with ValueError"""
    inputs = dict(version=TBytes(length=4), depth=TInt(0, 255), pfp=TBytes(length=4), i=U32, chain=CHAIN, keydata=PUB)
    note = "both versions + 2 foreign ones x valid/invalid key material x depth/index extremes"

    def run(version, depth, pfp, i, chain, keydata):
        raw = version + bytes([depth]) + pfp + ser32(i) + chain + keydata
        return _key_view(_from_extended_key(Ledger, raw))

    def ensures_fields(version, depth, i, chain, keydata, result):
        kind = 'private' if version == XPRV_MAIN else 'public'
        material = keydata[1:] if version == XPRV_MAIN else keydata
        return (version == XPRV_MAIN or version == XPUB_MAIN) and result[0] == kind and result[1] == material \
            and result[2] == chain and result[3] == i and result[4] == depth and result[5] and result[6] is Ledger

    def ensures_accepts_only_well_formed_keys(version, keydata):
        return not _xkey_refused(version, keydata)

    raises = {ValueError: _xkey_refused}

    def samples():
        good_priv = [b'\x00' + k for k in SAMPLE_KEYS]
        good_pub = [point_ser(parse256(k)) for k in SAMPLE_KEYS]
        bad = [b'\x01' + SAMPLE_KEYS[0], b'\x00' + bytes(32), b'\x00' + N.to_bytes(32, 'big'), b'\x04' + good_pub[0][1:],
               b'\x02' + b'\xff' * 32]
        for version in (XPRV_MAIN, XPUB_MAIN, XPRV_TEST, b'\x00\x00\x00\x00'):
            for keydata in good_priv + good_pub + bad:
                for depth, i in ((0, 0), (255, 2 ** 32 - 1), (1, 2 ** 31)):
                    yield dict(version=version, depth=depth, pfp=b'\xde\xad\xbe\xef', i=i, chain=SAMPLE_CHAIN, keydata=keydata)


@proof("C06", "xkey_decode_length")
class XkeyDecodeLength:
    """_from_extended_key refuses every byte string that is not 78 bytes long, and anything that is not bytes"""
    inputs = dict(raw=TOneOf(TBytes(maxlen=200), TStr(), TNone()))
    note = "lengths 0, 77, 79, 82 and a str"

    def requires(raw):
        return not isinstance(raw, bytes) or len(raw) != 78

    def run(raw):
        return _key_view(_from_extended_key(Ledger, raw))

    def ensures_never_returns(result):
        return False

    raises = {ValueError: True, TypeError: True}

    def samples():
        for raw in (b'', XPRV_MAIN + bytes(73), XPRV_MAIN + bytes(75), XPUB_MAIN + bytes(78), 'xprv', None):
            yield dict(raw=raw)


def _roundtrip_invalid(pkey, key, with_parent):
    return not valid_scalar(key) or (with_parent and not valid_scalar(pkey))


@proof("C06", "xkey_roundtrip")
class XkeyRoundTrip:
    """encode -> decode round trip of extended keys: _from_extended_key(key.extended_key()) has the same kind, key
    material, chain code, index and depth, for private and public keys with or without parent; a parentless key
    re-encodes to the identical 78 bytes"""
    inputs = dict(pkey=KEY, key=KEY, chain=CHAIN, i=U32, depth=TInt(0, 254), with_parent=TBool())
    note = "sample scalars, index extremes, with and without parent"

    def ensures_returns_only_valid_keys(pkey, key, with_parent):
        return not _roundtrip_invalid(pkey, key, with_parent)

    raises = {ValueError: _roundtrip_invalid}

    def run(pkey, key, chain, i, depth, with_parent):
        parent = None if not with_parent else PrivateKey(Ledger, pkey, chain, 0, depth)
        k = PrivateKey(Ledger, key, chain, i, depth + 1, parent)
        raw_priv, raw_pub = k.extended_key(), k.public_key.extended_key()
        back_priv, back_pub = _from_extended_key(Ledger, raw_priv), _from_extended_key(Ledger, raw_pub)
        return (_key_view(k), _key_view(back_priv), _key_view(k.public_key), _key_view(back_pub),
                raw_priv, back_priv.extended_key(), raw_pub, back_pub.extended_key())

    def ensures_same_key_material(result):
        return result[0][:5] == result[1][:5] and result[2][:5] == result[3][:5]

    def ensures_parentless_reencodes_identically(with_parent, result):
        return with_parent or (result[4] == result[5] and result[6] == result[7])

    def samples():
        for key in SAMPLE_KEYS:
            for i in (0, 2 ** 31, 2 ** 32 - 1):
                for wp in (False, True):
                    yield dict(pkey=SAMPLE_KEYS[3], key=key, chain=SAMPLE_CHAIN, i=i, depth=0, with_parent=wp)


# ------------------------------------------------------------------------------------------------ Base58Check framing

_DECODE_CHECK = Base58.__dict__['decode_check'].__func__
_ENCODE_CHECK = Base58.__dict__['encode_check'].__func__


class _Numeral:
    """stands for the Base58 numeral conversion in the framing proofs: decode returns an arbitrary byte string fixed by
    the harness, encode records what it is given"""

    def __init__(self, raw):
        self.raw = raw
        self.asked = []
        self.given = []

    def decode(self, txt):
        self.asked.append(txt)
        return self.raw

    def encode(self, be_bytes):
        self.given.append(be_bytes)
        return 'numeral'


@proof("C06", "decode_check")
class DecodeCheck:
    """Base58Check verification for every byte string the numeral decoder can deliver: the payload is everything but
    the last four bytes and is returned only if those four bytes are the first four bytes of SHA256(SHA256(payload));
    every other string is rejected with Base58Error"""
    inputs = dict(raw=TBytes(maxlen=120), txt=TStr())
    note = "valid frames of payload length 0, 1, 21, 78; last/first checksum byte flipped; frames shorter than 4 bytes"

    def run(raw, txt):
        codec = _Numeral(raw)
        return _DECODE_CHECK(codec, txt), codec.asked

    def ensures_payload_with_valid_checksum(raw, txt, result):
        return len(raw) >= 4 and result[0] == raw[:len(raw) - 4] and raw[len(raw) - 4:] == spec_sha256d(result[0])[:4] \
            and result[1] == [txt]

    def _bad_checksum(raw):
        return len(raw) < 4 or raw[len(raw) - 4:] != spec_sha256d(raw[:len(raw) - 4])[:4]

    raises = {Base58Error: _bad_checksum}

    def samples():
        for n in (0, 1, 21, 78):
            payload = bytes((i * 5 + n) % 256 for i in range(n))
            good = payload + spec_sha256d(payload)[:4]
            yield dict(raw=good, txt='t')
            yield dict(raw=good[:-1] + bytes([good[-1] ^ 1]), txt='t')
            yield dict(raw=good[:-4] + bytes([good[-4] ^ 0x80]) + good[-3:], txt='t')
            yield dict(raw=payload + spec_sha256d(payload)[28:], txt='t')
            if n:
                yield dict(raw=bytes([good[0] ^ 1]) + good[1:], txt='t')
                yield dict(raw=payload + spec_sha256d(good)[:4], txt='t')
        for raw in (b'', b'\x00', b'\x5d\xf6\xe0'):
            yield dict(raw=raw, txt='t')


@proof("C06", "encode_check")
class EncodeCheck:
    """Base58Check framing: the numeral encoder is given payload || first four bytes of SHA256(SHA256(payload))"""
    inputs = dict(payload=TBytes(maxlen=120))
    note = "payload lengths 0, 1, 21, 78"

    def run(payload):
        codec = _Numeral(b'')
        return _ENCODE_CHECK(codec, payload), codec.given

    def ensures_frame(payload, result):
        return result[0] == 'numeral' and len(result[1]) == 1 and result[1][0] == payload + spec_sha256d(payload)[:4]

    def samples():
        for n in (0, 1, 21, 78):
            yield dict(payload=bytes((i * 5 + n) % 256 for i in range(n)))


# ------------------------------------------------------------------------------------------------ addresses, key strings
# (deductive modulo the Base58 numeral contract)

@proof("C06", "address")
class Address:
    """address = Base58(prefix || hash160 || checksum[:4]) with the ledger's P2PKH prefix (0x55 main net, 0x6f test net),
    script addresses use the script prefix (0x7a); address_to_hash160 recovers the hash; public_key_to_address hashes
    the public key with HASH160"""
    inputs = dict(h160=TBytes(length=20), pub=PUB)
    note = "hashes 00..00, ff..ff, leading zero bytes, random"

    def run(h160, pub):
        a = Ledger.hash160_to_address(h160)
        return (a, Ledger.address_to_hash160(a), TestNetLedger.hash160_to_address(h160), Ledger.public_key_to_address(pub),
                Ledger.hash160_to_script_address(h160))

    def ensures_is_base58check_of_prefixed_hash(h160, result):
        body = b'\x55' + h160
        tbody = b'\x6f' + h160
        return result[0] == spec_b58encode(body + spec_sha256d(body)[:4]) \
            and result[2] == spec_b58encode(tbody + spec_sha256d(tbody)[:4])

    def ensures_roundtrip(h160, result):
        return result[1] == h160

    def ensures_public_key_address(pub, result):
        body = b'\x55' + spec_hash160(pub)
        return result[3] == spec_b58encode(body + spec_sha256d(body)[:4])

    def ensures_script_address_uses_script_prefix(h160, result):
        body = b'\x7a' + h160
        return result[4] == spec_b58encode(body + spec_sha256d(body)[:4])

    def samples():
        for h in (bytes(20), b'\xff' * 20, b'\x00\x00' + bytes(range(18)), hashlib.sha256(b'a').digest()[:20],
                  hashlib.sha256(b'b').digest()[:20]):
            yield dict(h160=h, pub=point_ser(parse256(SAMPLE_KEYS[3])))


@proof("C06", "address_check")
class AddressCheck:
    """an address string = Base58(prefix || hash160 || any four bytes): decode_check returns prefix || hash160 exactly when
    the four bytes are the checksum and raises Base58Error for every other value; a valid address is classified by its
    prefix byte (is_pubkey_address / is_script_address)"""
    inputs = dict(h160=TBytes(length=20), script=TBool(), check=TBytes(length=4))
    note = "valid checksum, each checksum byte flipped, zero checksum x both prefixes"

    def run(h160, script, check):
        body = (b'\x7a' if script else b'\x55') + h160
        address = spec_b58encode(body + check)
        return Base58.decode_check(address), Ledger.is_pubkey_address(address), Ledger.is_script_address(address)

    def ensures_accepted_only_with_right_checksum(h160, script, check, result):
        body = (b'\x7a' if script else b'\x55') + h160
        return check == spec_sha256d(body)[:4] and result[0] == body

    def ensures_classified_by_prefix(script, result):
        return result[1] == (not script) and result[2] == script

    def _wrong_checksum(h160, script, check):
        return check != spec_sha256d((b'\x7a' if script else b'\x55') + h160)[:4]

    raises = {Base58Error: _wrong_checksum}

    def samples():
        for h in (bytes(20), b'\xff' * 20, hashlib.sha256(b'a').digest()[:20]):
            for script in (False, True):
                good = spec_sha256d((b'\x7a' if script else b'\x55') + h)[:4]
                yield dict(h160=h, script=script, check=good)
                for k in range(4):
                    yield dict(h160=h, script=script, check=good[:k] + bytes([good[k] ^ 0x10]) + good[k + 1:])
                yield dict(h160=h, script=script, check=bytes(4))


def _xkey_string_invalid(key):
    return not valid_scalar(key)


@proof("C06", "xkey_string")
class XkeyString:
    """extended_key_string() of a private and of a public key is the Base58Check string of the 78-byte serialisation"""
    inputs = dict(key=KEY, chain=CHAIN, i=U32, depth=TInt(0, 255))
    note = "sample scalars, index extremes, depth 0/255"

    def run(key, chain, i, depth):
        k = PrivateKey(Ledger, key, chain, i, depth)
        return k.extended_key_string(), k.public_key.extended_key_string()

    def ensures_string_is_base58check_of_serialisation(key, chain, i, depth, result):
        raw_priv = spec_xkey(XPRV_MAIN, depth, None, i, chain, b'\x00' + key)
        raw_pub = spec_xkey(XPUB_MAIN, depth, None, i, chain, point_ser(parse256(key)))
        return result[0] == spec_b58encode(raw_priv + spec_sha256d(raw_priv)[:4]) \
            and result[1] == spec_b58encode(raw_pub + spec_sha256d(raw_pub)[:4])

    def ensures_returns_only_valid_keys(key):
        return not _xkey_string_invalid(key)

    raises = {ValueError: _xkey_string_invalid}

    def samples():
        for key in SAMPLE_KEYS + [bytes(32)]:
            for i in (0, 2 ** 31, 2 ** 32 - 1):
                for depth in (0, 255):
                    yield dict(key=key, chain=SAMPLE_CHAIN, i=i, depth=depth)


def _xkey_string_refused(private, keydata):
    if private:
        return keydata[0] != 0 or not valid_scalar(keydata[1:])
    return not valid_point(keydata)


@proof("C06", "xkey_string_decode")
class XkeyStringDecode:
    """from_extended_key_string on Base58(version|depth|fingerprint|index|chain|keydata || any four bytes): Base58Error
    unless the four bytes are the checksum, then the same fields as _from_extended_key (kind by version, key material,
    chain code, index, depth)"""
    inputs = dict(private=TBool(), depth=TInt(0, 255), pfp=TBytes(length=4), i=U32, chain=CHAIN, keydata=PUB, check=TBytes(length=4))
    note = "private/public x valid/invalid key material x right/wrong checksum"
    timeout = 5         # the slicing obligations are decided by cvc5 in well under a second; do not wait 16 s for the two z3

    def run(private, depth, pfp, i, chain, keydata, check):
        raw = (XPRV_MAIN if private else XPUB_MAIN) + bytes([depth]) + pfp + ser32(i) + chain + keydata
        return _key_view(from_extended_key_string(Ledger, spec_b58encode(raw + check)))

    def ensures_fields(private, depth, pfp, i, chain, keydata, check, result):
        raw = (XPRV_MAIN if private else XPUB_MAIN) + bytes([depth]) + pfp + ser32(i) + chain + keydata
        return check == spec_sha256d(raw)[:4] and result[0] == ('private' if private else 'public') \
            and result[1] == (keydata[1:] if private else keydata) and result[2] == chain and result[3] == i and result[4] == depth

    def _wrong_checksum(private, depth, pfp, i, chain, keydata, check):
        raw = (XPRV_MAIN if private else XPUB_MAIN) + bytes([depth]) + pfp + ser32(i) + chain + keydata
        return check != spec_sha256d(raw)[:4]

    def ensures_accepts_only_well_formed_keys(private, keydata):
        return not _xkey_string_refused(private, keydata)

    raises = {Base58Error: _wrong_checksum, ValueError: _xkey_string_refused}

    def samples():
        for private in (True, False):
            goods = [b'\x00' + k for k in SAMPLE_KEYS[:3]] if private else [point_ser(parse256(k)) for k in SAMPLE_KEYS[:3]]
            for keydata in goods + [b'\x01' + SAMPLE_KEYS[0], b'\x02' + b'\xff' * 32]:
                for depth, i in ((0, 0), (255, 2 ** 32 - 1)):
                    raw = (XPRV_MAIN if private else XPUB_MAIN) + bytes([depth]) + b'abcd' + ser32(i) + SAMPLE_CHAIN + keydata
                    good = spec_sha256d(raw)[:4]
                    for check in (good, bytes([good[0] ^ 1]) + good[1:], good[:3] + bytes([good[3] ^ 0x80])):
                        yield dict(private=private, depth=depth, pfp=b'abcd', i=i, chain=SAMPLE_CHAIN, keydata=keydata, check=check)


# ------------------------------------------------------------------------------------------------ address chains

class _Key:
    """stands for an extended public key in the gap proof; its identity is its derivation path"""

    def __init__(self, path):
        self.path = path
        self.n = path[len(path) - 1] if len(path) else 0
        self.address = ('address of', path)

    def child(self, i):
        return _Key(self.path + (i,))


class _Db:
    """call-site contract of the wallet database as seen by the address managers"""

    def __init__(self, rows):
        self.rows = rows
        self.queries = []
        self.added = []

    async def get_addresses(self, read_only=False, **constraints):
        self.queries.append(constraints)
        return self.rows

    async def add_keys(self, account, chain, keys):
        self.added.append((account, chain, keys))


class _FakeLedger:
    def __init__(self, db):
        self.db = db
        self.announced = []

    async def announce_addresses(self, manager, addresses):
        self.announced.append((manager, addresses))


class _FakeAccount:
    def __init__(self, ledger, private_key, public_key):
        self.ledger = ledger
        self.private_key = private_key
        self.public_key = public_key


def _same(a, b):
    """element-wise equality of two sequences of scalars / tuples"""
    if len(a) != len(b):
        return False
    ok = True
    for x, y in zip(a, b):
        ok = ok and x == y
    return ok


def make_gap_proof(gap, nrows):
    types = dict(chain=TInt(0, 1))
    for r in range(nrows):
        types[f"used{r}"] = TInt(0)
        types[f"n{r}"] = TInt(0, 2 ** 31 - 2)

    def rows_of(kw):
        return [(kw[f"used{r}"], kw[f"n{r}"]) for r in range(nrows)]

    def requires(**kw):
        # database contract: rows come ordered by n descending
        ok = True
        rows = rows_of(kw)
        for r in range(1, nrows):
            ok = ok and rows[r - 1][1] > rows[r][1]
        return ok

    async def run(**kw):
        chain = kw['chain']
        db = _Db([{'used_times': u, 'pubkey': _Key((chain, n)), 'address': 'x'} for (u, n) in rows_of(kw)])
        ledger = _FakeLedger(db)
        account = _FakeAccount(ledger, None, _Key(()))
        manager = HierarchicalDeterministic(account, chain, gap, 1)
        returned = await manager.ensure_address_gap()
        stored = []
        for (a, c, keys) in db.added:
            stored.append((a is account, c, len(keys)))
            for k in keys:
                stored.append(k.path)
        announced = []
        for (m, addrs) in ledger.announced:
            announced.append(m is manager)
            for a in addrs:
                announced.append(a)
        query = [(q['limit'], q['order_by'], q['chain'], len(q['accounts']), q['accounts'][0] is account) for q in db.queries]
        return list(returned), stored, announced, query, manager.address_generator_lock.locked()

    def expected(kw):
        rows = rows_of(kw)
        existing = 0
        counting = True
        for (u, n) in rows:
            if counting and u == 0:
                existing += 1
            else:
                counting = False
        start = rows[0][1] + 1 if nrows else 0
        return [(kw['chain'], start + j) for j in range(gap - existing)]

    def ensures_generates_missing_keys_at_consecutive_indices(result, **kw):
        paths = expected(kw)
        if not paths:
            return len(result[0]) == 0 and len(result[1]) == 0 and len(result[2]) == 0
        return _same(result[0], [('address of', p) for p in paths]) \
            and _same(result[1], [(True, kw['chain'], len(paths))] + paths) \
            and _same(result[2], [True] + [('address of', p) for p in paths])

    def ensures_asks_for_the_last_gap_addresses(result, **kw):
        return _same(result[3], [(gap, 'n desc', kw['chain'], 1, True)]) and not result[4]

    import inspect
    params = [inspect.Parameter(n, inspect.Parameter.POSITIONAL_OR_KEYWORD) for n in types]
    run.__signature__ = inspect.Signature(params)
    requires.__signature__ = inspect.Signature(params)
    for f in (ensures_generates_missing_keys_at_consecutive_indices, ensures_asks_for_the_last_gap_addresses):
        f.__signature__ = inspect.Signature([inspect.Parameter('result', inspect.Parameter.POSITIONAL_OR_KEYWORD)] + params)

    def samples():
        import itertools
        for chain in (0, 1):
            for used in itertools.product((0, 1, 3), repeat=nrows):
                for top in (nrows - 1, nrows + 5, 2 ** 31 - 2):
                    if top - nrows + 1 < 0:
                        continue
                    d = dict(chain=chain)
                    for r in range(nrows):
                        d[f"used{r}"] = used[r]
                        d[f"n{r}"] = top - r
                    yield d

    body = dict(inputs=types, requires=staticmethod(requires), run=staticmethod(run), samples=staticmethod(samples),
                ensures_generates_missing_keys_at_consecutive_indices=staticmethod(ensures_generates_missing_keys_at_consecutive_indices),
                ensures_asks_for_the_last_gap_addresses=staticmethod(ensures_asks_for_the_last_gap_addresses),
                note=f"gap {gap}, {nrows} known addresses, used counts 0/1/3 in every position, top index small/large",
                __doc__=f"ensure_address_gap with gap {gap} and {nrows} known addresses (any used counts, any descending indices): "
                        f"exactly gap - (number of trailing unused addresses) new keys, children (chain, index) of the account "
                        f"public key at consecutive indices after the highest known one, stored and announced in that order; "
                        f"nothing when the gap is already there")
    proof("C06", f"address_gap[gap={gap},known={nrows}]")(type('GapProof', (), body))


for _gap, _nrows in ((1, 0), (1, 1), (2, 0), (2, 1), (2, 2), (3, 0), (3, 2), (3, 3), (6, 0), (6, 5), (6, 6)):
    make_gap_proof(_gap, _nrows)


@proof("C06", "chain_keys_two_accounts")
class ChainKeysTwoAccounts:
    """get_private_key / get_public_key of a chain follow the path (own account, chain, index) whatever another
    account, or the same account, derived before: two accounts used alternately (key objects are path-recording
    stand-ins here; the real keys go through the same calls in the bounded check `account.same_mnemonic_same_addresses`)"""
    inputs = dict(chain=TInt(0, 1), i=TInt(0, 2 ** 31 - 1), j=TInt(0, 2 ** 31 - 1))
    note = "chain 0/1 x indices 0, 1, 19, 2**31-1"

    def run(chain, i, j):
        ledger = _FakeLedger(_Db([]))
        acc_a = _FakeAccount(ledger, _Key(('a-private',)), _Key(('a-public',)))
        acc_b = _FakeAccount(ledger, _Key(('b-private',)), _Key(('b-public',)))
        man_a = HierarchicalDeterministic(acc_a, chain, 20, 1)
        man_b = HierarchicalDeterministic(acc_b, chain, 20, 1)
        a1 = man_a.get_private_key(i)
        b1 = man_b.get_private_key(i)
        a2 = man_a.get_private_key(j)
        b2 = man_b.get_private_key(j)
        pa = man_a.get_public_key(i)
        pb = man_b.get_public_key(i)
        pa2 = man_a.get_public_key(j)
        return a1.path, b1.path, a2.path, b2.path, pa.path, pb.path, pa2.path, man_a.public_key.path, man_b.public_key.path

    def ensures_private_keys_follow_own_account(chain, i, j, result):
        return result[0] == ('a-private', chain, i) and result[1] == ('b-private', chain, i) \
            and result[2] == ('a-private', chain, j) and result[3] == ('b-private', chain, j)

    def ensures_public_keys_follow_own_account(chain, i, j, result):
        return result[4] == ('a-public', chain, i) and result[5] == ('b-public', chain, i) and result[6] == ('a-public', chain, j) \
            and result[7] == ('a-public', chain) and result[8] == ('b-public', chain)

    def samples():
        for chain in (0, 1):
            for i, j in ((0, 1), (1, 0), (19, 19), (2 ** 31 - 1, 5)):
                yield dict(chain=chain, i=i, j=j)


# ================================================================================================
# Bounded stand-ins (run-time contract checks of the real functions with CPython; no deductive part)
# ================================================================================================

def _b58_samples():
    import random
    rnd = random.Random(6)
    out = [b'\x01', b'\xff', b'\x00\x01', b'\x00\x00\x01', b'\x39', b'\x3a', b'\x00\x3a', b'\x0d\x24', b'\x0d\x23', b'\x01\x00', b'\x00\x01\x00',
           b'\x00' * 10 + b'\x01', b'\xff' * 40, bytes(range(256))]
    for n in (1, 2, 3, 4, 5, 8, 20, 21, 25, 32, 33, 64, 78, 82, 100):
        for lead in (0, 1, 3):
            body = bytes(rnd.randrange(1, 256) for _ in range(n))
            out.append(b'\x00' * lead + body)
            out.append(b'\x00' * lead + body[:-1] + b'\x00')
    return out


# ---- the Base58 numeral DECODER against its spec function, for strings of every length (loop invariants, no bound)

from lbry.crypto import util as _crypto_util
_INT_TO_BYTES = _crypto_util.int_to_bytes
I2B = z3.Function('int_to_bytes', z3.IntSort(), _S)      # minimal big-endian byte string of a non-negative integer


def spec_int_to_bytes(n):
    """minimal big-endian byte string of n >= 0 (empty for 0)"""
    return n.to_bytes((n.bit_length() + 7) // 8, 'big')


def _m_i2b(interp, st, args, kwargs):
    interp.builtins_used.add("int_to_bytes [modular contract: minimal big-endian bytes; checked bounded in base58.numeral]")
    v = args[0]
    if isinstance(v, VInt) and v.concrete:
        yield st, VBytes(spec_int_to_bytes(v.v))
        return
    yield st, VBytes(I2B(as_int_term(v)))


B58_DIGIT = {B58_ALPHABET[i]: i for i in range(58)}       # digit values of the Bitcoin alphabet (spec side)


@rec_spec(result=TInt())
def b58_value(s, k):
    """Horner value of the first k characters of s read as base-58 digits (Bitcoin alphabet); a character outside the
    alphabet counts as -1 here and is excluded by all_b58 wherever the value is used"""
    if k <= 0:
        return 0
    return b58_value(s, k - 1) * 58 + B58_DIGIT.get(char_at(s, k - 1), -1)


def all_b58(s, k):
    return forall(0, k, lambda j: B58_DIGIT.get(char_at(s, j), -1) >= 0)


def leading_ones(s, k):
    return forall(0, k, lambda j: char_at(s, j) == '1')


@invariant(_B58_DECODE, loop=1)
def _b58_decode_inv1(_i, txt, value):
    return value == b58_value(txt, _i) and all_b58(txt, _i)


@invariant(_B58_DECODE, loop=2)
def _b58_decode_inv2(_i, txt, count):
    return count == _i and leading_ones(txt, _i)


@proof("C06", "base58.decode.all-lengths")
class Base58DecodeLoops:
    """The REAL Base58.decode body (not its modular contract) for a string of ANY length: it returns
    one zero byte per leading '1' followed by the minimal big-endian bytes of the Horner value of the digits, and raises
    Base58Error exactly when the string is empty or has a character outside the alphabet. Loop invariants:
    value == b58_value(txt, i); count == i and txt[:i] is all '1'. int_to_bytes enters by its contract."""
    inputs = dict(txt=TStr())
    models = {_B58_DECODE: None, _INT_TO_BYTES: _m_i2b, spec_int_to_bytes: _m_i2b}
    note = "Base58 strings of length 1..60 with 0..3 leading '1', digit boundaries, and 15 strings outside the alphabet"

    def requires(txt):
        # a string of '1' only has value 0, where int_to_bytes(0) is one zero byte rather than none (remark R6 in DESIGN.md)
        return len(txt) == 0 or not leading_ones(txt, len(txt))

    def run(txt):
        return Base58.decode(txt)

    def ensures_is_spec(txt, result):
        return exists(0, len(txt) + 1, lambda c: leading_ones(txt, c) and char_at(txt, c) != '1'
                      and result == b'\x00' * c + spec_int_to_bytes(b58_value(txt, len(txt))))

    def ensures_only_for_numerals(txt):
        return len(txt) > 0 and all_b58(txt, len(txt))

    def _refused(txt):
        return len(txt) == 0 or not all_b58(txt, len(txt))
    raises = {Base58Error: _refused}

    def samples():
        for b in _b58_samples():
            yield dict(txt=spec_b58encode(b))
        for txt in ('', '0', 'O', 'I', 'l', '1O', 'abc0', 'l1', ' 2', '2 ', '2\n', '-2', '+', 'é', '１', '2', 'z', '1z', '12', '21'):
            yield dict(txt=txt)


# ---- the Base58 numeral ENCODER against its spec function, for byte strings of every length

_BYTES_TO_INT = _crypto_util.bytes_to_int
B2I = z3.Function('bytes_to_int', _S, z3.IntSort())      # big-endian value of a byte string


def spec_bytes_to_int(b):
    return int.from_bytes(bytes(b), 'big')


def _m_b2i(interp, st, args, kwargs):
    interp.builtins_used.add("bytes_to_int [modular contract: big-endian value >= 0; checked bounded in base58.numeral]")
    v = args[0]
    if v.concrete:
        yield st, VInt(spec_bytes_to_int(unlift(v)))
        return
    t = B2I(_flat(v))
    if interp.spec_depth == 0:
        st.assume(t >= 0)
    yield st, VInt(t)


@rec_spec(result=TStr())
def b58_le(n):
    """base-58 digits of n, least significant first (empty for 0)"""
    if n <= 0:
        return ''
    return char_at(B58_ALPHABET, n % 58) + b58_le(n // 58)


@invariant(_B58_ENCODE, loop=1)
def _b58_encode_inv1(value, txt, old_value):
    return value >= 0 and b58_le(old_value) == txt + b58_le(value)


@invariant(_B58_ENCODE, loop=2)
def _b58_encode_inv2(_i, be_bytes, txt, old_txt):
    return (len(txt) == len(old_txt) + _i and txt.startswith(old_txt) and matches(drop(txt, len(old_txt)), '1*')
            and matches(take(be_bytes, _i), '\\x00*'))


@proof("C06", "base58.encode.all-lengths")
class Base58EncodeLoops:
    """The REAL Base58.encode body (not its modular contract) for a byte string of ANY length: read backwards
    the result is the base-58 digits of the big-endian value, least significant first, followed by exactly one '1' per
    leading zero byte. Loop invariants: digits(value0) == txt + digits(value); txt == txt0 + '1' * i and b[:i] all zero.
    bytes_to_int enters by its contract; s[::-1] is string reversal (engine axioms: involution, length)."""
    inputs = dict(b=TBytes())
    models = {_B58_ENCODE: None, _BYTES_TO_INT: _m_b2i, spec_bytes_to_int: _m_b2i}
    note = "104 byte strings (lengths 1..256, leading zero bytes before bytes below and above 0x80) and all-zero strings"

    def requires(b):
        # bytes_to_int(b'') raises ValueError (int(b'', 16)); every call site passes payload + 4 checksum bytes
        return len(b) >= 1

    def run(b):
        return Base58.encode(b)

    def ensures_is_spec(b, result):
        return exists(0, len(b) + 1, lambda c: matches(take(b, c), '\\x00*') and char_at(b, c) != b'\\x00'
                      and len(result) == len(b58_le(spec_bytes_to_int(b))) + c
                      and result[::-1].startswith(b58_le(spec_bytes_to_int(b)))
                      and matches(drop(result[::-1], len(result) - c), '1*'))

    def samples():
        for b in _b58_samples():
            yield dict(b=b)
        for b in (b'\x00', b'\x00\x00', b'\x00\x80', b'\x00\x00\xff\x01\x02', b'\x00\x7f', b'\x80', b'\x00\x00\x00\x80\x00'):
            yield dict(b=b)


@proof("C06", "crypto.util.big-endian")
class CryptoUtilBigEndian:
    """BOUNDED stand-in for the two contracts the all-lengths Base58 proofs use modularly: bytes_to_int(b) is the big-endian
    value of a non-empty byte string, int_to_bytes(n) is the minimal big-endian byte string of n > 0 (and one zero byte for
    0, remark R6), and they are inverse on byte strings without a leading zero byte"""
    bounded_only = True
    inputs = dict(b=TBytes())
    note = "112 byte strings (the Base58 sample set and zero-led strings) and the values 0..300, 2**k - 1, 2**k, 2**k + 1 for k <= 520"

    def requires(b):
        return len(b) >= 1

    def run(b):
        n = _BYTES_TO_INT(b)
        return n, _INT_TO_BYTES(n), _BYTES_TO_INT(bytearray(b))

    def ensures_value_is_big_endian(b, result):
        return result[0] == int.from_bytes(b, 'big') and result[2] == result[0]

    def ensures_bytes_are_minimal_big_endian(b, result):
        return result[1] == (spec_int_to_bytes(result[0]) if result[0] > 0 else b'\x00')

    def ensures_inverse_without_leading_zero(b, result):
        return b[0] == 0 or result[1] == b

    def samples():
        for b in _b58_samples():
            yield dict(b=b)
        for b in (b'\x00', b'\x00\x00', b'\x00\x80', b'\x00\x00\xff\x01\x02', b'\x00\x7f', b'\x80', b'\x00\x00\x00\x80\x00'):
            yield dict(b=b)
        for n in list(range(1, 301)) + [2 ** k + d for k in range(1, 521, 7) for d in (-1, 0, 1)]:
            yield dict(b=spec_int_to_bytes(n))


@proof("C06", "base58.numeral")
class Base58Numeral:
    """BOUNDED stand-in for the contract of the Base58 numeral conversion used modularly above (the loops have symbolic
    trip counts and a non-linear invariant): Base58.encode(b) is the Base58 numeral of b with one '1' per leading zero
    byte, and Base58.decode inverts it when b contains a non-zero byte"""
    bounded_only = True
    inputs = dict(b=TBytes())
    note = "104 byte strings: lengths 1..256, 0/1/3 leading zero bytes, trailing zero byte, digit boundaries 57/58/3363/3364"

    def requires(b):
        return any(x != 0 for x in b)

    def run(b):
        txt = Base58.encode(b)
        return txt, Base58.decode(txt), Base58.encode(bytearray(b)), Base58.decode(txt.encode())

    def ensures_is_the_numeral(b, result):
        return result[0] == spec_b58encode(b) and result[2] == result[0] and all(c in B58_ALPHABET for c in result[0])

    def ensures_decode_inverts(b, result):
        return result[1] == b and result[3] == b and spec_b58decode(result[0]) == b

    def samples():
        for b in _b58_samples():
            yield dict(b=b)


@proof("C06", "base58.refuses")
class Base58Refuses:
    """BOUNDED: strings that are not Base58 numerals (characters outside the alphabet, the empty string) are refused"""
    bounded_only = True
    inputs = dict(txt=TStr())
    note = "empty string and 14 strings with 0, O, I, l, blanks, signs, non-ASCII characters at the start / middle / end"

    def run(txt):
        return Base58.decode(txt)

    def ensures_never_returns(result):
        return False

    raises = {Base58Error: True}

    def samples():
        for txt in ('', '0', 'O', 'I', 'l', '1O', 'abc0', 'l1', ' 2', '2 ', '2\n', '-2', '+', 'é', '１'):
            yield dict(txt=txt)


def _corruptions(s):
    """single character substitutions and adjacent transpositions of a Base58 string (a bounded neighbourhood)"""
    out = []
    for pos in sorted(set([0, 1, len(s) // 2, len(s) - 2, len(s) - 1])):
        if 0 <= pos < len(s):
            for repl in ('1', '2', 'z', B58_ALPHABET[(B58_ALPHABET.index(s[pos]) + 1) % 58]):
                if repl != s[pos]:
                    out.append(s[:pos] + repl + s[pos + 1:])
            if pos + 1 < len(s) and s[pos] != s[pos + 1]:
                out.append(s[:pos] + s[pos + 1] + s[pos] + s[pos + 2:])
    out.append(s[:-1])
    out.append(s + '1')
    out.append('1' + s)
    return out


@proof("C06", "base58check.roundtrip")
class Base58CheckRoundTrip:
    """BOUNDED end-to-end Base58Check (framing proved above, numeral bounded): decode_check(encode_check(p)) == p for
    payloads of every kind used by the wallet, the string is the Base58 numeral of p || checksum, and every string in a
    neighbourhood of single-character edits is rejected"""
    bounded_only = True
    inputs = dict(payload=TBytes())
    note = "payloads of length 0, 1, 21 (addresses), 34, 78 (extended keys), 100 with 0..3 leading zero bytes; 20-25 edits each"

    def run(payload):
        s = Base58.encode_check(payload)
        rejected = 0
        edits = _corruptions(s)
        for t in edits:
            try:
                Base58.decode_check(t)
            except Base58Error:
                rejected += 1
        return s, Base58.decode_check(s), rejected, len(edits)

    def ensures_roundtrip(payload, result):
        return result[1] == payload and result[0] == spec_b58encode(payload + spec_sha256d(payload)[:4])

    def ensures_edits_rejected(result):
        return result[2] == result[3]

    def samples():
        import random
        rnd = random.Random(58)
        for n in (0, 1, 21, 34, 78, 100):
            for lead in (0, 1, 3):
                if lead <= n:
                    yield dict(payload=b'\x00' * lead + bytes(rnd.randrange(256) for _ in range(n - lead)))
        yield dict(payload=b'\x55' + bytes(20))
        yield dict(payload=b'\x00' * 21)


WORDS = Mnemonic().words


@proof("C06", "mnemonic.roundtrip")
class MnemonicRoundTrip:
    """BOUNDED (loop over the base-2048 digits, symbolic trip count): mnemonic_decode(mnemonic_encode(i)) == i for
    i > 0, the encoding is the base-len(words) digits of i, least significant first, one word per digit; the word list
    is duplicate-free and whitespace-free (checked on the real list each run)"""
    bounded_only = True
    inputs = dict(i=TInt(1))
    note = "i = 1..4100, around 2048**k for k = 1..13, 2**128..2**136 seeds, 2000 seeded random numbers up to 2**264"

    def run(i):
        m = Mnemonic()
        text = m.mnemonic_encode(i)
        return text, m.mnemonic_decode(text), m.mnemonic_decode('  ' + text.replace(' ', '\n ') + ' ')

    def ensures_decodes_back(i, result):
        return result[1] == i and result[2] == i

    def ensures_words_are_the_digits(i, result):
        digits = []
        n = i
        while n > 0:
            digits.append(n % 2048)
            n //= 2048
        return result[0].split(' ') == [WORDS[d] for d in digits]

    def ensures_word_list_is_a_numeral_alphabet(result):
        return len(WORDS) == 2048 and len(set(WORDS)) == 2048 and all(w and w == w.strip() and len(w.split()) == 1 for w in WORDS)

    def samples():
        import random
        rnd = random.Random(2048)
        for i in range(1, 4101):
            yield dict(i=i)
        for k in range(1, 14):
            for d in (-1, 0, 1):
                yield dict(i=2048 ** k + d)
                yield dict(i=2047 * 2048 ** k + d)
        for bits in (128, 131, 132, 133, 136):
            yield dict(i=2 ** bits - 1)
            yield dict(i=2 ** bits)
        for _ in range(2000):
            yield dict(i=rnd.randrange(1, 2 ** rnd.choice((11, 22, 64, 132, 264))))


@proof("C06", "mnemonic.seed_stretching")
class SeedStretching:
    """BOUNDED: mnemonic_to_seed is PBKDF2-HMAC-SHA512 (2048 rounds, 64 bytes) of the normalised phrase with the normalised
    passphrase as salt (compared with hashlib's implementation), hence a function of the phrase: equal phrases give equal seeds"""
    bounded_only = True
    inputs = dict(phrase=TStr(), passphrase=TStr())
    note = "6 phrases (12/13 words, extra blanks, upper case) x 3 passphrases"

    def run(phrase, passphrase):
        return Mnemonic.mnemonic_to_seed(phrase, passphrase), Mnemonic.mnemonic_to_seed(phrase, passphrase)

    def ensures_is_pbkdf2(phrase, passphrase, result):
        plain = ' '.join(phrase.lower().split())
        return result[0] == hashlib.pbkdf2_hmac('sha512', plain.encode(), passphrase.encode(), 2048, 64) and len(result[0]) == 64

    def ensures_deterministic(result):
        return result[0] == result[1]

    def samples():
        m = Mnemonic()
        phrases = [m.mnemonic_encode(2 ** 131 + 12345), m.mnemonic_encode(2 ** 140 + 99), 'carbon smart garage balance margin twelve chest '
                   'sword toast envelope bottom stomach absent']
        phrases += ['  ' + phrases[0].replace(' ', '   ') + ' ', phrases[1].upper(), phrases[2].replace(' ', '\n')]
        for ph in phrases:
            for pw in ('lbryum', '', 'correct horse'):
                yield dict(phrase=ph, passphrase=pw)


# ---- independent reference implementation of BIP32 (own secp256k1 arithmetic; SEC 2 parameters)

_FP = 2 ** 256 - 2 ** 32 - 977
_G = (0x79BE667EF9DCBBAC55A06295CE870B07029BFCDB2DCE28D959F2815B16F81798,
      0x483ADA7726A3C4655DA4FBFC0E1108A8FD17B448A68554199C47D08FFB10D4B8)


def _ec_add(a, b):
    if a is None:
        return b
    if b is None:
        return a
    if a[0] == b[0]:
        if (a[1] + b[1]) % _FP == 0:
            return None
        lam = 3 * a[0] * a[0] * pow(2 * a[1], -1, _FP) % _FP
    else:
        lam = (b[1] - a[1]) * pow(b[0] - a[0], -1, _FP) % _FP
    x = (lam * lam - a[0] - b[0]) % _FP
    return x, (lam * (a[0] - x) - a[1]) % _FP


def _ec_mul(k, pt):
    acc = None
    while k:
        if k & 1:
            acc = _ec_add(acc, pt)
        pt = _ec_add(pt, pt)
        k >>= 1
    return acc


def _ser_point(pt):
    return bytes([2 + (pt[1] & 1)]) + pt[0].to_bytes(32, 'big')


def _parse_point(ser):
    x = int.from_bytes(ser[1:], 'big')
    y = pow((x * x * x + 7) % _FP, (_FP + 1) // 4, _FP)
    if y & 1 != ser[0] & 1:
        y = _FP - y
    return x, y


def ref_derive(seed, path):
    """BIP32 from the specification text: -> list over the path prefixes of dicts (k, c, K, depth, index, fingerprints, strings)"""
    I = hmac.new(b'Bitcoin seed', seed, hashlib.sha512).digest()
    k, c = int.from_bytes(I[:32], 'big'), I[32:]
    depth, index, parent_fp = 0, 0, b'\x00' * 4
    out = []
    todo = list(path)
    while True:
        K = _ser_point(_ec_mul(k, _G))
        fp = spec_hash160(K)[:4]
        meta = bytes([depth]) + parent_fp + index.to_bytes(4, 'big') + c
        raw_prv = XPRV_MAIN + meta + b'\x00' + k.to_bytes(32, 'big')
        raw_pub = XPUB_MAIN + meta + K
        out.append(dict(k=k.to_bytes(32, 'big'), c=c, K=K, depth=depth, index=index, fingerprint=fp, parent_fingerprint=parent_fp,
                        xprv=spec_b58encode(raw_prv + spec_sha256d(raw_prv)[:4]), xpub=spec_b58encode(raw_pub + spec_sha256d(raw_pub)[:4])))
        if not todo:
            return out
        i = todo.pop(0)
        data = (b'\x00' + k.to_bytes(32, 'big') if i >= HARDENED else K) + i.to_bytes(4, 'big')
        I = hmac.new(c, data, hashlib.sha512).digest()
        k, c = (int.from_bytes(I[:32], 'big') + k) % N, I[32:]
        depth, index, parent_fp = depth + 1, i, fp


def ref_ckd_pub(K, c, i):
    I = hmac.new(c, K + i.to_bytes(4, 'big'), hashlib.sha512).digest()
    return _ser_point(_ec_add(_ec_mul(int.from_bytes(I[:32], 'big'), _G), _parse_point(K))), I[32:]


H_ = HARDENED
BIP32_TEST_VECTORS = [   # from the BIP32 text (test vectors 1, 2, 3); every string's checksum was verified when this file was written
    ('000102030405060708090a0b0c0d0e0f', [], 'xpub661MyMwAqRbcFtXgS5sYJABqqG9YLmC4Q1Rdap9gSE8NqtwybGhePY2gZ29ESFjqJoCu1Rupje8YtGqsefD265TMg7usUDFdp6W1EGMcet8',
     'xprv9s21ZrQH143K3QTDL4LXw2F7HEK3wJUD2nW2nRk4stbPy6cq3jPPqjiChkVvvNKmPGJxWUtg6LnF5kejMRNNU3TGtRBeJgk33yuGBxrMPHi'),
    ('000102030405060708090a0b0c0d0e0f', [H_], 'xpub68Gmy5EdvgibQVfPdqkBBCHxA5htiqg55crXYuXoQRKfDBFA1WEjWgP6LHhwBZeNK1VTsfTFUHCdrfp1bgwQ9xv5ski8PX9rL2dZXvgGDnw',
     'xprv9uHRZZhk6KAJC1avXpDAp4MDc3sQKNxDiPvvkX8Br5ngLNv1TxvUxt4cV1rGL5hj6KCesnDYUhd7oWgT11eZG7XnxHrnYeSvkzY7d2bhkJ7'),
    ('000102030405060708090a0b0c0d0e0f', [H_, 1], 'xpub6ASuArnXKPbfEwhqN6e3mwBcDTgzisQN1wXN9BJcM47sSikHjJf3UFHKkNAWbWMiGj7Wf5uMash7SyYq527Hqck2AxYysAA7xmALppuCkwQ',
     'xprv9wTYmMFdV23N2TdNG573QoEsfRrWKQgWeibmLntzniatZvR9BmLnvSxqu53Kw1UmYPxLgboyZQaXwTCg8MSY3H2EU4pWcQDnRnrVA1xe8fs'),
    ('000102030405060708090a0b0c0d0e0f', [H_, 1, H_ + 2], 'xpub6D4BDPcP2GT577Vvch3R8wDkScZWzQzMMUm3PWbmWvVJrZwQY4VUNgqFJPMM3No2dFDFGTsxxpG5uJh7n7epu4trkrX7x7DogT5Uv6fcLW5',
     'xprv9z4pot5VBttmtdRTWfWQmoH1taj2axGVzFqSb8C9xaxKymcFzXBDptWmT7FwuEzG3ryjH4ktypQSAewRiNMjANTtpgP4mLTj34bhnZX7UiM'),
    ('000102030405060708090a0b0c0d0e0f', [H_, 1, H_ + 2, 2], 'xpub6FHa3pjLCk84BayeJxFW2SP4XRrFd1JYnxeLeU8EqN3vDfZmbqBqaGJAyiLjTAwm6ZLRQUMv1ZACTj37sR62cfN7fe5JnJ7dh8zL4fiyLHV',
     'xprvA2JDeKCSNNZky6uBCviVfJSKyQ1mDYahRjijr5idH2WwLsEd4Hsb2Tyh8RfQMuPh7f7RtyzTtdrbdqqsunu5Mm3wDvUAKRHSC34sJ7in334'),
    ('000102030405060708090a0b0c0d0e0f', [H_, 1, H_ + 2, 2, 1000000000],
     'xpub6H1LXWLaKsWFhvm6RVpEL9P4KfRZSW7abD2ttkWP3SSQvnyA8FSVqNTEcYFgJS2UaFcxupHiYkro49S8yGasTvXEYBVPamhGW6cFJodrTHy',
     'xprvA41z7zogVVwxVSgdKUHDy1SKmdb533PjDz7J6N6mV6uS3ze1ai8FHa8kmHScGpWmj4WggLyQjgPie1rFSruoUihUZREPSL39UNdE3BBDu76'),
    ('fffcf9f6f3f0edeae7e4e1dedbd8d5d2cfccc9c6c3c0bdbab7b4b1aeaba8a5a29f9c999693908d8a8784817e7b7875726f6c696663605d5a5754514e4b484542', [],
     'xpub661MyMwAqRbcFW31YEwpkMuc5THy2PSt5bDMsktWQcFF8syAmRUapSCGu8ED9W6oDMSgv6Zz8idoc4a6mr8BDzTJY47LJhkJ8UB7WEGuduB',
     'xprv9s21ZrQH143K31xYSDQpPDxsXRTUcvj2iNHm5NUtrGiGG5e2DtALGdso3pGz6ssrdK4PFmM8NSpSBHNqPqm55Qn3LqFtT2emdEXVYsCzC2U'),
    ('fffcf9f6f3f0edeae7e4e1dedbd8d5d2cfccc9c6c3c0bdbab7b4b1aeaba8a5a29f9c999693908d8a8784817e7b7875726f6c696663605d5a5754514e4b484542', [0],
     'xpub69H7F5d8KSRgmmdJg2KhpAK8SR3DjMwAdkxj3ZuxV27CprR9LgpeyGmXUbC6wb7ERfvrnKZjXoUmmDznezpbZb7ap6r1D3tgFxHmwMkQTPH',
     'xprv9vHkqa6EV4sPZHYqZznhT2NPtPCjKuDKGY38FBWLvgaDx45zo9WQRUT3dKYnjwih2yJD9mkrocEZXo1ex8G81dwSM1fwqWpWkeS3v86pgKt'),
    # test vector 3: "retention of leading zeros" in the private key of m
    ('4b381541583be4423346c643850da4b320e46a87ae3d2a4e6da11eba819cd4acba45d239319ac14f863b8d5ab5a0d0c64d2e8a1e7d1457df2e5a3c51c73235be', [],
     'xpub661MyMwAqRbcEZVB4dScxMAdx6d4nFc9nvyvH3v4gJL378CSRZiYmhRoP7mBy6gSPSCYk6SzXPTf3ND1cZAceL7SfJ1Z3GC8vBgp2epUt13',
     'xprv9s21ZrQH143K25QhxbucbDDuQ4naNntJRi4KUfWT7xo4EKsHt2QJDu7KXp1A3u7Bi1j8ph3EGsZ9Xvz9dGuVrtHHs7pXeTzjuxBrCmmhgC6'),
    ('4b381541583be4423346c643850da4b320e46a87ae3d2a4e6da11eba819cd4acba45d239319ac14f863b8d5ab5a0d0c64d2e8a1e7d1457df2e5a3c51c73235be', [H_],
     'xpub68NZiKmJWnxxS6aaHmn81bvJeTESw724CRDs6HbuccFQN9Ku14VQrADWgqbhhTHBaohPX4CjNLf9fq9MYo6oDaPPLPxSb7gwQN3ih19Zm4Y',
     'xprv9uPDJpEQgRQfDcW7BkF7eTya6RPxXeJCqCJGHuCJ4GiRVLzkTXBAJMu2qaMWPrS7AANYqdq6vcBcBUdJCVVFceUvJFjaPdGZ2y9WACViL4L'),
]


@proof("C06", "bip32.test_vectors")
class Bip32TestVectors:
    """BOUNDED: the published BIP32 test vectors 1-3 (seed, path -> extended public and private key strings), including the
    vector for retention of leading zero bytes; both strings decode back to the same key"""
    bounded_only = True
    inputs = dict(seed=TBytes(), path=TList(TInt()), xpub=TStr(), xprv=TStr())
    note = "10 (seed, path) pairs of BIP32 test vectors 1, 2 and 3"

    def run(seed, path, xpub, xprv):
        k = PrivateKey.from_seed(Ledger, seed)
        for i in path:
            k = k.child(i)
        return (k.extended_key_string(), k.public_key.extended_key_string(),
                from_extended_key_string(Ledger, xprv).private_key_bytes == k.private_key_bytes,
                from_extended_key_string(Ledger, xpub).pubkey_bytes == k.public_key.pubkey_bytes)

    def ensures_strings(xpub, xprv, result):
        return result[0] == xprv and result[1] == xpub and result[2] and result[3]

    def ensures_vector_strings_are_well_formed(xpub, xprv):
        # guards the constants of this file: 78 bytes + a valid checksum under the independent decoder
        ok = True
        for s in (xpub, xprv):
            raw = spec_b58decode(s)
            ok = ok and raw is not None and len(raw) == 82 and raw[78:] == spec_sha256d(raw[:78])[:4]
        return ok

    def samples():
        for seed, path, xpub, xprv in BIP32_TEST_VECTORS:
            yield dict(seed=bytes.fromhex(seed), path=list(path), xpub=xpub, xprv=xprv)


@proof("C06", "bip32.reference")
class Bip32Reference:
    """BOUNDED: agreement with an independent BIP32 (own secp256k1 arithmetic in this file) along whole paths: private key,
    chain code, public key, depth, index, fingerprint, parent fingerprint and both extended key strings at every level;
    public derivation of every non-hardened step gives the same public child"""
    bounded_only = True
    inputs = dict(seed=TBytes(minlen=16, maxlen=64), path=TList(TInt(0, 2 ** 32 - 1)))
    note = "seeds of 16/32/64 bytes (one giving a master key with a leading zero byte) x 9 paths up to depth 6 with indices " \
           "0, 1, 2**31-1, 2**31, 2**31+1, 2**32-1"

    def run(seed, path):
        k = PrivateKey.from_seed(Ledger, seed)
        levels = []
        pub_steps = []
        todo = list(path)
        while True:
            levels.append(dict(k=k.private_key_bytes, c=k.chain_code, K=k.public_key.pubkey_bytes, depth=k.depth, index=k.n,
                               fingerprint=k.fingerprint(), parent_fingerprint=k.parent_fingerprint(),
                               xprv=k.extended_key_string(), xpub=k.public_key.extended_key_string()))
            if not todo:
                return levels, pub_steps
            i = todo.pop(0)
            if i < HARDENED:
                child = k.public_key.child(i)
                pub_steps.append((k.public_key.pubkey_bytes, k.chain_code, i, child.pubkey_bytes, child.chain_code))
            k = k.child(i)

    def ensures_every_level_matches_reference(seed, path, result):
        return result[0] == ref_derive(seed, path)

    def ensures_public_derivation_matches_reference(result):
        return all(ref_ckd_pub(K, c, i) == (Ki, ci) for (K, c, i, Ki, ci) in result[1])

    def ensures_public_derivation_matches_private(path, result):
        steps = [n for n, i in enumerate(path) if i < HARDENED]
        return len(steps) == len(result[1]) and all(result[1][j][3] == result[0][n + 1]['K'] and result[1][j][4] == result[0][n + 1]['c']
                                                    for j, n in enumerate(steps))

    def samples():
        seeds = [bytes(range(16)), hashlib.sha256(b'c06 seed').digest(), hashlib.sha512(b'c06 seed').digest(),
                 bytes.fromhex(BIP32_TEST_VECTORS[8][0])]
        paths = [[], [0], [H_], [2 ** 31 - 1], [2 ** 32 - 1], [0, 1], [H_, 1, H_ + 2, 2, 1000000000, 0],
                 [2 ** 32 - 1, 2 ** 31 - 1, H_, 0, H_ + 1, 1], [0, 0, 0, 0, 0, 0]]
        for seed in seeds:
            for path in paths:
                yield dict(seed=seed, path=path)


# ---- the same mnemonic regenerates the same address chains (real Account, in-memory stand-in for the database)

class _MemoryDb:
    def __init__(self):
        self.rows = {}

    async def get_addresses(self, read_only=False, accounts=None, chain=None, limit=None, order_by=None, **constraints):
        rows = list(self.rows.get((accounts[0].id, chain), []))
        if order_by == 'n desc':
            rows.sort(key=lambda r: -r['pubkey'].n)
        else:
            rows.sort(key=lambda r: r['pubkey'].n)
        return rows[:limit] if limit is not None else rows

    async def add_keys(self, account, chain, keys):
        for k in keys:
            self.rows.setdefault((account.id, chain), []).append({'address': k.address, 'used_times': 0, 'pubkey': k})

    def use(self, account, chain, n):
        for r in self.rows.get((account.id, chain), []):
            if r['pubkey'].n == n:
                r['used_times'] += 1


class _MemoryLedger:
    extended_public_key_prefix = Ledger.extended_public_key_prefix
    extended_private_key_prefix = Ledger.extended_private_key_prefix
    public_key_to_address = Ledger.public_key_to_address

    def __init__(self):
        self.db = _MemoryDb()
        self.accounts = []
        self.announced = []

    def add_account(self, account):
        self.accounts.append(account)

    async def announce_addresses(self, manager, addresses):
        self.announced.append((manager.chain_number, list(addresses)))


class _MemoryWallet:
    def add_account(self, account):
        pass


async def _grow(account, uses):
    """ensure the gap, then mark addresses used one after the other (ensuring the gap after each) -> per chain: address list by index"""
    ledger = account.ledger
    await account.receiving.ensure_address_gap()
    await account.change.ensure_address_gap()
    for chain, n in uses:
        ledger.db.use(account, chain, n)
        await account.receiving.ensure_address_gap()
        await account.change.ensure_address_gap()
    out = []
    for manager in (account.receiving, account.change):
        rows = await ledger.db.get_addresses(accounts=[account], chain=manager.chain_number, order_by='n asc')
        out.append([(r['pubkey'].n, r['address'], r['used_times']) for r in rows])
    return out, ledger.announced


@proof("C06", "account.same_mnemonic_same_addresses")
class SameMnemonicSameAddresses:
    """BOUNDED (real Account / HierarchicalDeterministic / keys, in-memory database): two accounts restored from the same
    mnemonic, side by side with an account from another mnemonic, generate the same receiving and change addresses in
    the same order; the address at index i of chain c is the address of the reference BIP32 key m/c/i of the
    PBKDF2-stretched mnemonic; indices are consecutive from 0 and each chain ends with exactly `gap` unused addresses"""
    bounded_only = True
    inputs = dict(mnemonic=TStr(), gaps=TTuple(TInt(1, 20), TInt(1, 20)), uses=TList(TTuple(TInt(0, 1), TInt(0))))
    note = "3 mnemonics x gaps (20,6), (3,2), (1,1) x 3 usage histories (none, first addresses, last address of the gap)"

    async def run(mnemonic, gaps, uses):
        generator = {'name': 'deterministic-chain', 'receiving': {'gap': gaps[0], 'maximum_uses_per_address': 1},
                     'change': {'gap': gaps[1], 'maximum_uses_per_address': 1}}
        ledger1, ledger2 = _MemoryLedger(), _MemoryLedger()
        other = Account.from_dict(ledger1, _MemoryWallet(), {'seed': 'abandon ability able', 'address_generator': generator})
        first = Account.from_dict(ledger1, _MemoryWallet(), {'seed': mnemonic, 'address_generator': generator})
        second = Account.from_dict(ledger2, _MemoryWallet(), {'seed': mnemonic, 'address_generator': generator})
        await _grow(other, [(0, 0)])
        a, announced_a = await _grow(first, uses)
        b, announced_b = await _grow(second, uses)
        keys = [(first.receiving.get_private_key(n).public_key.address, first.receiving.get_public_key(n).address) for n, _, _ in a[0][:3]]
        return a, b, [x for x in announced_a if True], keys

    def ensures_same_sequences(result):
        return result[0] == result[1]

    def ensures_addresses_are_bip32_children_of_the_stretched_mnemonic(mnemonic, result):
        seed = hashlib.pbkdf2_hmac('sha512', ' '.join(mnemonic.lower().split()).encode(), b'lbryum', 2048, 64)
        ok = True
        for chain in (0, 1):
            rows = result[0][chain]
            ok = ok and [n for n, _, _ in rows] == list(range(len(rows)))
            level = ref_derive(seed, [chain])[-1]
            for n, address, _ in rows[:4] + rows[-2:]:
                K = ref_ckd_pub(level['K'], level['c'], n)[0]
                body = b'\x55' + spec_hash160(K)
                ok = ok and address == spec_b58encode(body + spec_sha256d(body)[:4])
        return ok

    def ensures_gap_restored(gaps, result):
        ok = True
        for chain in (0, 1):
            trailing = 0
            for _, _, used in reversed(result[0][chain]):
                if used:
                    break
                trailing += 1
            ok = ok and trailing == gaps[chain]
        return ok

    def ensures_private_and_public_paths_agree(result):
        return all(a == b == row[1] for (a, b), row in zip(result[3], result[0][0]))

    def samples():
        m = Mnemonic()
        for mnemonic in (m.mnemonic_encode(2 ** 131 + 4711), 'carbon smart garage balance margin twelve chest sword toast envelope bottom '
                         'stomach absent', m.mnemonic_encode(2 ** 135 - 1)):
            for gaps, histories in (((20, 6), ([], [(0, 0), (0, 1), (1, 0)], [(0, 19), (1, 5)])),
                                    ((3, 2), ([], [(0, 0), (1, 0), (0, 3)], [(0, 2), (0, 5), (1, 1)])),
                                    ((1, 1), ([], [(0, 0), (0, 1), (0, 2)], [(1, 0)]))):
                for uses in histories:
                    yield dict(mnemonic=mnemonic, gaps=gaps, uses=list(uses))


@proof("C06", "address_gap.default_gaps")
class AddressGapDefaults:
    """BOUNDED stand-in for the gap clause at the default gaps 20 and 6 (the deductive proofs above cover gaps 1, 2, 3, 6):
    path-recording key objects, every number of known addresses 0..gap with the first used one at every position"""
    bounded_only = True
    inputs = dict(gap=TInt(1, 20), known=TInt(0, 20), first_used=TInt(0, 20), top=TInt(0))
    note = "gap 20 and 6 x 0..gap known addresses x position of the first used address x top index small / 2**31-30"

    async def run(gap, known, first_used, top):
        rows = [{'used_times': 1 if r >= first_used else 0, 'pubkey': _Key((1, top - r)), 'address': 'x'} for r in range(known)]
        db = _Db(rows)
        ledger = _FakeLedger(db)
        account = _FakeAccount(ledger, None, _Key(()))
        manager = HierarchicalDeterministic(account, 1, gap, 1)
        returned = await manager.ensure_address_gap()
        return list(returned), [[k.path for k in keys] for (_, _, keys) in db.added], [addrs for (_, addrs) in ledger.announced]

    def ensures_missing_keys(gap, known, first_used, top, result):
        existing = min(known, first_used)
        start = top + 1 if known else 0
        paths = [(1, start + j) for j in range(gap - existing)]
        if not paths:
            return result == ([], [], [])
        return result == ([('address of', p) for p in paths], [paths], [[('address of', p) for p in paths]])

    def samples():
        for gap in (20, 6):
            for known in range(0, gap + 1):
                for first_used in range(0, known + 1):
                    for top in (known + 3, 2 ** 31 - 30):
                        yield dict(gap=gap, known=known, first_used=first_used, top=top)


TRUSTED = [
    "HMAC-SHA512 (hmac.new(key, msg, sha512).digest()) is a function of (key, msg) with 64 bytes of output: two uninterpreted "
    "32-byte functions (left / right half); SHA-256, RIPEMD-160 are functions of their input with 32 / 20 bytes of output",
    "coincurve / libsecp256k1: PrivateKey.from_int(k) succeeds exactly for 0 < k < n (group order) and has secret = ser256(k), "
    "to_int() = k, public_key = point(k); PrivateKey.add(t) is ((k + parse256(t)) mod n) and fails exactly when parse256(t) >= n or the "
    "sum is 0; PublicKey(b) accepts exactly the valid 33-byte compressed encodings and format(True) gives b back; serP of a point is "
    "33 bytes starting with 02 or 03; PublicKey.add(t) is the point P + parse256(t)*G and fails exactly when parse256(t) >= n or the "
    "result is the point at infinity",
    "group law of secp256k1 as one fact: point(k) + t*G = point((k + t) mod n), the point at infinity exactly when (k + t) mod n = 0 "
    "(instantiated at the call of PublicKey.add on a key that is point(k)); the curve arithmetic itself is cross-checked only bounded, "
    "against the pure-Python arithmetic of bip32.reference",
    "int.from_bytes / int.to_bytes (big endian) are inverse on values that fit (engine axioms; to_bytes(from_bytes(s), 32) == s for "
    "32-byte s is applied syntactically in the coincurve model)",
    "MODULAR CONTRACT of the Base58 numeral conversion (repository functions Base58.encode / Base58.decode are replaced by it in the "
    "deductive proofs address, address_check, xkey_string, xkey_string_decode): encode(b) is a function of b, equal to the Base58 "
    "numeral spec_b58encode(b); decode(encode(b)) == b whenever b contains a non-zero byte; decode of any other string returns some "
    "byte string or raises Base58Error.  This contract is NOT proved; it is checked by the bounded stand-ins base58.numeral / "
    "base58.refuses / base58check.roundtrip",
    "hashlib objects: update() appends, digest() is the uninterpreted hash of everything fed (same functions as the engine's own "
    "hashlib model; modelled again in this file only to put the digest length on the path condition)",
    "asyncio.Lock as modelled by the engine (pyvc.pymodels.LockModel), single task; range(a, a + k) iterates a, .., a + k - 1",
    "the database returns address rows ordered by n descending, at most `limit` of them (call-site contract of get_addresses)",
]
NOT_DECIDED = [
    "the elliptic-curve arithmetic itself (point(k), point addition): trusted library, uninterpreted in the proofs; only the bounded "
    "reference check compares it with independent arithmetic",
    "the Base58 and mnemonic numeral loops (symbolic trip count, non-linear invariant): bounded stand-ins only; plain Base58 on all-zero "
    "byte strings is not a bijection (decode(encode(b'\\x00')) == b'\\x00\\x00') and is outside the statement (Base58Check only)",
    "Ledger.address_to_hash160 does not verify the checksum of the address it decodes (it returns bytes 1..20 of whatever the numeral "
    "decodes to); rejection of checksum errors is decided for decode_check / is_pubkey_address / is_script_address / "
    "from_extended_key_string, which is how DESIGN C06 reads the statement",
    "parent fingerprint of a *decoded* key of depth > 0: the decoder drops it (no parent object), so re-encoding such a key writes a "
    "zero fingerprint; the statement's round trip is about key material (DESIGN C06)",
    "paths deeper than one derivation step are covered step by step (each step for arbitrary depth/parent) and end-to-end only bounded "
    "(depth <= 6); PBKDF2 seed stretching and Unicode normalisation of the phrase: bounded only",
    "ensure_address_gap for gaps other than 1, 2, 3, 6 (deductive) and 6, 20 (bounded); concurrent callers (the lock) are not modelled; "
    "SingleKey address managers; Mnemonic.make_seed (random); word lists other than English",
    "signing / verification, WIF, PEM import",
]
ASSUMPTIONS = [
    "keys are built from 32-byte private keys / 33-byte compressed public keys (the constructors refuse anything else)",
    "ledger is the Ledger class (main net prefixes) or TestNetLedger where stated",
]
