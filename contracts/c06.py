"""C06 — HD key derivation, extended keys and addresses follow BIP32 / Base58Check.

DRAFT (work in progress)
"""
import asyncio
import hashlib
import hmac
import z3

from pyvc.api import *
from pyvc.speclib import implies, forall
from pyvc.values import *
from pyvc.ops import exc, mk_int, iterm
from pyvc.segs import VSegs, segs_of, to_vbytes, total_len

from coincurve import PrivateKey as cPrivateKey, PublicKey as cPublicKey

from lbry.wallet.bip32 import PrivateKey, PublicKey, _from_extended_key, from_extended_key_string
from lbry.wallet.ledger import Ledger
from lbry.crypto.base58 import Base58, Base58Error

# secp256k1 group order (SEC 2, section 2.4.1)
N = 0xFFFFFFFFFFFFFFFFFFFFFFFFFFFFFFFEBAAEDCE6AF48A03BBFD25E8CD0364141
HARDENED = 2 ** 31

# ------------------------------------------------------------------------------------------------
# Trusted library models (engine level).  Natively the real hmac / coincurve run; symbolically they
# are uninterpreted functions with exactly the algebraic facts listed in TRUSTED.
# ------------------------------------------------------------------------------------------------

_S = z3.StringSort()
_I = z3.IntSort()
HM_L = z3.Function('hmac_sha512_left', _S, _S, _S)       # bytes 0..31 of HMAC-SHA512(key, msg)
HM_R = z3.Function('hmac_sha512_right', _S, _S, _S)      # bytes 32..63
EC_SER = z3.Function('secp256k1_serP_of_scalar', _I, _S)  # serP(k*G), compressed, 33 bytes
EC_TWK = z3.Function('secp256k1_serP_tweak_add', _S, _I, _S)   # serP(P + t*G) from serP(P)
EC_VALID = z3.Function('secp256k1_valid_compressed', _S, z3.BoolSort())
EC_ADDOK = z3.Function('secp256k1_tweak_not_infinity', _S, _I, z3.BoolSort())
BE = z3.Function('int_from_be', _S, _I)
TOBE = z3.Function('int_to_be', _I, _I, _S)


def _flat(v):
    """bytes-like V -> z3 String term"""
    if isinstance(v, VSegs):
        v = to_vbytes(v)
    if not isinstance(v, VBytes):
        raise Unsupported(f"bytes expected, got {v}")
    return v.term()


def _known_len(v):
    segs = segs_of(v)
    n = total_len(segs)
    return n if isinstance(n, int) else None


def _assume_bytes(st, t, n):
    st.assume(z3.Length(t) == n)
    st.assume(z3.InRe(t, byte_re()))


class _HmacResult:
    """what hmac.new(...) returns, as far as the repository uses it"""

    def __init__(self, d):
        self.d = d

    def digest(self):
        return self.d


@model_for(hmac.new)
def _m_hmac_new(interp, st, args, kwargs):
    key, msg = args[0], args[1]
    dm = args[2] if len(args) > 2 else kwargs.get('digestmod')
    if not (isinstance(dm, VConst) and dm.obj is hashlib.sha512):
        raise Unsupported("hmac.new: only HMAC-SHA512 is modelled")
    if key.concrete and msg.concrete:
        d = VBytes(hmac.new(unlift(key), unlift(msg), hashlib.sha512).digest())
    else:
        k, m = _flat(key), _flat(msg)
        left, right = HM_L(k, m), HM_R(k, m)
        _assume_bytes(st, left, 32)
        _assume_bytes(st, right, 32)
        d = VSegs([('sym', left, 32), ('sym', right, 32)])
    interp.builtins_used.add("hmac.new(sha512) [uninterpreted]")
    yield st, st.alloc(HObj(_HmacResult, dict(d=d)))


def _new_pub(st, ser_value):
    return st.alloc(HObj(cPublicKey, dict(ser=ser_value)))


def _pub_of_scalar(st, k):
    t = EC_SER(iterm(k))
    _assume_bytes(st, t, 33)
    c0 = z3.StrToCode(z3.SubString(t, 0, 1))
    st.assume(z3.Or(c0 == 2, c0 == 3))
    st.assume(EC_VALID(t))
    return _new_pub(st, VSegs([('sym', t, 33)]))


def _new_priv(st, k):
    """k: z3 Int term with 0 < k < N on this path"""
    k = iterm(k)
    sec = TOBE(k, z3.IntVal(32))
    if z3.is_app(k) and k.decl().eq(BE) and st.entails(z3.Length(k.arg(0)) == 32):
        # trusted law  int.to_bytes(int.from_bytes(s), len(s)) == s  applied syntactically (s is a 32-byte string)
        sec = k.arg(0)
    return st.alloc(HObj(cPrivateKey, dict(secret=VSegs([('sym', sec, 32)]), public_key=_pub_of_scalar(st, k), k=mk_int(k))))


@model_for(cPrivateKey.from_int.__func__)
def _m_priv_from_int(interp, st, args, kwargs):
    num = args[1]
    if not isinstance(num, VInt):
        raise Unsupported("PrivateKey.from_int of non-int")
    interp.builtins_used.add("coincurve.PrivateKey [uninterpreted group]")
    if num.concrete:
        if 0 < num.v < N:
            yield st, _new_priv(st, num.v)
        else:
            yield st, exc(ValueError, "Secret scalar must be greater than 0 and less than N.")
        return
    ok = z3.And(num.v > 0, num.v < N)
    for s1, r in interp.alts(st, [(ok, 'ok'), (z3.Not(ok), 'bad')]):
        if r == 'ok':
            yield s1, _new_priv(s1, num.v)
        else:
            yield s1, exc(ValueError, "Secret scalar must be greater than 0 and less than N.")


@model_for(cPrivateKey.to_int)
def _m_priv_to_int(interp, st, args, kwargs):
    yield st, st.heap[args[0].addr].fields['k']


def _scalar_of(st, v):
    if _known_len(v) != 32:
        raise Unsupported("tweak scalar must be 32 bytes")
    if v.concrete:
        return z3.IntVal(int.from_bytes(unlift(v), 'big'))
    t = BE(_flat(v))
    st.assume(t >= 0)
    st.assume(t < 2 ** 256)
    return t


def _add_mod_n(k, t):
    s = iterm(k) + t
    return z3.If(s >= N, s - N, s)


@model_for(cPrivateKey.add)
def _m_priv_add(interp, st, args, kwargs):
    self_ = st.heap[args[0].addr]
    k = self_.fields['k'].term()
    t = _scalar_of(st, args[1])
    ok = z3.And(t < N, _add_mod_n(k, t) != 0)
    for s1, r in interp.alts(st, [(ok, 'ok'), (z3.Not(ok), 'bad')]):
        if r == 'ok':
            k2 = z3.Int(fresh_name('child_scalar'))
            s1.assume(k2 == _add_mod_n(k, t))
            s1.assume(z3.And(k2 > 0, k2 < N))
            yield s1, _new_priv(s1, k2)
        else:
            yield s1, exc(ValueError, "The tweak was out of range, or the resulting private key is invalid.")


@model_for(cPublicKey)
def _m_pub_parse(interp, st, args, kwargs):
    data = args[0]
    if _known_len(data) != 33:
        raise Unsupported("coincurve.PublicKey(data): only 33-byte compressed keys are modelled")
    interp.builtins_used.add("coincurve.PublicKey [uninterpreted group]")
    if data.concrete:
        try:
            cPublicKey(unlift(data))
        except ValueError as e:
            yield st, exc(ValueError, str(e))
            return
        yield st, _new_pub(st, data)
        return
    t = _flat(data)
    c0 = z3.StrToCode(z3.SubString(t, 0, 1))
    ok = z3.And(EC_VALID(t), z3.Or(c0 == 2, c0 == 3))
    for s1, r in interp.alts(st, [(ok, 'ok'), (z3.Not(ok), 'bad')]):
        if r == 'ok':
            yield s1, _new_pub(s1, data)
        else:
            yield s1, exc(ValueError, "The public key could not be parsed or is invalid.")


@model_for(cPublicKey.format)
def _m_pub_format(interp, st, args, kwargs):
    comp = args[1] if len(args) > 1 else kwargs.get('compressed', VBool(True))
    if not (comp.concrete and unlift(comp)):
        raise Unsupported("uncompressed public key format")
    yield st, st.heap[args[0].addr].fields['ser']


@model_for(cPublicKey.add)
def _m_pub_add(interp, st, args, kwargs):
    ser = _flat(st.heap[args[0].addr].fields['ser'])
    t = _scalar_of(st, args[1])
    ok = z3.And(t < N, EC_ADDOK(ser, t))
    # group homomorphism, instantiated where the point is known as k*G:  k*G + t*G = ((k + t) mod n)*G
    if z3.is_app(ser) and ser.decl().eq(EC_SER):
        k = ser.arg(0)
        st.assume(z3.Implies(t < N, EC_ADDOK(ser, t) == (_add_mod_n(k, t) != 0)))
        st.assume(z3.Implies(ok, EC_TWK(ser, t) == EC_SER(_add_mod_n(k, t))))
    for s1, r in interp.alts(st, [(ok, 'ok'), (z3.Not(ok), 'bad')]):
        if r == 'ok':
            res = EC_TWK(ser, t)
            _assume_bytes(s1, res, 33)
            c0 = z3.StrToCode(z3.SubString(res, 0, 1))
            s1.assume(z3.Or(c0 == 2, c0 == 3))
            s1.assume(EC_VALID(res))
            yield s1, _new_pub(s1, VSegs([('sym', res, 33)]))
        else:
            yield s1, exc(ValueError, "The tweak was out of range, or the resulting public key is invalid.")


# ------------------------------------------------------------------------------------------------
# BIP32 oracle (written from the BIP32 text; HMAC-SHA512 and the curve come from hmac / coincurve)
# ------------------------------------------------------------------------------------------------

def ser32(i):
    return i.to_bytes(4, 'big')


def parse256(b):
    return int.from_bytes(b, 'big')


def bip32_I(chain, data):
    return hmac.new(chain, data, hashlib.sha512).digest()


def point_ser(k):
    """serP(point(k))"""
    return cPrivateKey.from_int(k).public_key.format(True)


def valid_scalar(kb):
    return 0 < parse256(kb) < N


KEY = TBytes(length=32)
CHAIN = TBytes(length=32)


@proof("C06", "ckd_priv")
class CkdPriv:
    """CKDpriv"""
    inputs = dict(key=KEY, chain=CHAIN, i=TInt(), depth=TInt(0, 255), pn=TInt(0, 2 ** 32 - 1))

    def requires(key):
        return valid_scalar(key)

    def run(key, chain, i, depth, pn):
        parent = PrivateKey(Ledger, key, chain, pn, depth)
        child = parent.child(i)
        return child.private_key_bytes, child.chain_code, child.n, child.depth, child.parent is parent, child.secret_exponent()

    def ensures_key_and_chain_code(key, chain, i, result):
        data = (b'\x00' + key if i >= HARDENED else point_ser(parse256(key))) + ser32(i)
        I = bip32_I(chain, data)
        k_child = (parse256(I[:32]) + parse256(key)) % N
        return result[5] == k_child and result[0] == k_child.to_bytes(32, 'big') and result[1] == I[32:]

    def ensures_plumbing(i, depth, result):
        return result[2] == i and result[3] == depth + 1 and result[4]

    def _invalid(key, chain, i, depth):
        if not 0 <= i < 2 ** 32 or depth >= 255:
            return True
        data = (b'\x00' + key if i >= HARDENED else point_ser(parse256(key))) + ser32(i)
        I = bip32_I(chain, data)
        return parse256(I[:32]) >= N or (parse256(I[:32]) + parse256(key)) % N == 0

    raises = {ValueError: _invalid}

    def samples():
        for key in (b'\x00' * 31 + b'\x01', b'\x00\x00' + b'\x7f' * 30, bytes(range(1, 33)), (N - 1).to_bytes(32, 'big')):
            for i in (0, 1, 2 ** 31 - 1, 2 ** 31, 2 ** 31 + 1, 2 ** 32 - 1, 2 ** 32, -1):
                for depth in (0, 1, 254, 255):
                    yield dict(key=key, chain=bytes(range(32, 64)), i=i, depth=depth, pn=0)


TRUSTED = []
NOT_DECIDED = []
ASSUMPTIONS = []
