"""C02 — stream publish/decrypt round trip and descriptor commitments.

Deductive part.  The real `file_reader`, `read_bytes`, `StreamDescriptor.create_stream / __init__ / get_stream_hash /
calculate_stream_hash / get_blob_hashsum / calculate_sd_hash / as_json / make_sd_blob / _from_stream_descriptor_blob`,
`sanitize_file_name`, `encrypt_blob_bytes`, `decrypt_blob_bytes`, `AbstractBlob.create_from_unencrypted` (through `BlobFile`,
its blob writer, `HashBlobWriter.write` and the write to the blob directory), `BlobInfo.as_dict` and `is_valid_blobhash` are
symbolically executed.  File contents, keys, IVs, names and every descriptor field are symbolic; what is unrolled is the
NUMBER of chunks (1, 2, 3 chunks: every file size from 1 byte to 3*(2 MiB - 1) bytes, by a case split
(k-1)*CHUNK < size <= k*CHUNK) and the number of blob entries of a descriptor document (1..3).

The oracle is written from the statement / protocol definition: `spec_decrypt` (AES-CBC + PKCS7 with the descriptor's key and
IVs), `spec_stream_hash` / `spec_sd_content` (the stated SHA-384 commitments), `consistent`, the literal 2 MiB bound, and
`CLEAN` (no separator, NUL, control character).

The operating system, asyncio, json, AES and PKCS7 are NOT executed symbolically: an environment model in this file
stands for them on the symbolic side (a file system as a map from path strings to byte strings; AES-CBC and PKCS7 as
uninterpreted functions with their inverse and length laws; json.dumps as a canonical text whose only property is that
json.loads inverts it; os.path functions by their POSIX definitions as regular constraints).  Natively (replay of
counter-models and the bounded run-time cases) the real libraries run against a scratch directory.  Every assumption of
that model is listed under TRUSTED.

Modular steps: (1) `is_valid_blobhash(hex SHA-384 digest)` is truthy — lemma proved on the real function, used at the call
sites in `AbstractBlob.__init__`; (2) inside the `create_stream` proofs `sanitize_file_name` is used through the contract
proved for every string by proof `sanitize_file_name`.

Loading: accepted-implies-consistent is proved for every document of the descriptor shape (`load[n]`); for documents whose
stream hash was re-computed over inconsistent content only the structural checks can refuse, and they are shown to refuse
exactly the inconsistent ones (`load.rehashed[n]`: consistent documents are accepted).  Tampering (`tamper[n]`): for every
single-field change of a valid descriptor, "accepted" is shown to imply an explicit SHA-384 collision between the hash
inputs of the two descriptors (so refusal holds under collision resistance, which is a hypothesis, not a theorem).

Bounded stand-ins (labelled, never counted as proved): arbitrary bytes offered as a descriptor blob (json.loads on arbitrary
text has no model); files of 4 and 5 chunks and publish-then-load through the real code.
"""
import asyncio
import json
import os
import re
import shutil
import tempfile
import time
import hashlib
import binascii
import z3
from pyvc.api import *
from pyvc.speclib import implies, forall, matches
from pyvc.values import *
from pyvc.ops import lift, unlift, exc, mk_int, mk_bool, iterm, mk_like, eq_term, as_int_term, is_numeric
from pyvc.segs import VSegs, to_vbytes
from cryptography.hazmat.primitives.ciphers import Cipher, modes
from cryptography.hazmat.primitives.ciphers.algorithms import AES
from cryptography.hazmat.primitives.padding import PKCS7
from lbry.blob.blob_file import encrypt_blob_bytes, decrypt_blob_bytes, AbstractBlob, BlobFile, BlobBuffer
from lbry.blob.blob_info import BlobInfo
from lbry.stream.descriptor import StreamDescriptor, file_reader, sanitize_file_name

QUERY_S = 5      # per-query solver budget of every proof here (same class as the engine's vacuity canaries: one solver batch)
CHUNK = 2 * 2 ** 20 - 1            # plaintext bytes per data blob, from the statement (2 MiB blobs, chunking at MAX_BLOB_SIZE-1);
                                   # deliberately NOT read from the repository constant


# =====================================================================================================
# Environment model (symbolic side only).  Natively the real os / asyncio / open run against a scratch
# directory; symbolically the handlers below stand for them.  Everything relied upon is listed in TRUSTED.
# =====================================================================================================

def _term(v):
    """flat z3 String term of a bytes/str value"""
    if isinstance(v, VSegs):
        v = to_vbytes(v)
    return v.term()


def _pieces(v):
    """bytes value -> list of z3 String terms whose concatenation is the value (top-level str.++ flattened)"""
    if isinstance(v, VSegs):
        out = []
        for s in v.segs:
            from pyvc.segs import seg_term
            out += _flatten(seg_term(s))
        return out
    return _flatten(v.term())


def _flatten(t):
    if z3.is_app(t) and t.decl().kind() == z3.Z3_OP_SEQ_CONCAT:
        out = []
        for c in t.children():
            out += _flatten(c)
        return out
    if z3.is_string_value(t) and t.as_string() == '':
        return []
    return [t]


def _concat(ts):
    if not ts:
        return mk_str('')
    return z3.Concat(*ts) if len(ts) > 1 else ts[0]


def _sum_len(ts):
    n = z3.IntVal(0)
    for t in ts:
        n = n + z3.Length(t)
    return z3.simplify(n)


def _vfs(st):
    return st.ghost.get('c02.vfs', ())


def _vfs_lookup(interp, st, path):
    """-> index of the entry whose path is (syntactically) this path, or None.  Paths that are not
    syntactically equal are *assumed* to name different files (recorded assumption)."""
    for i, (p, content) in enumerate(_vfs(st)):
        r = eq_term(p, path)
        if not isinstance(r, bool):
            r = z3.simplify(r)
            if z3.is_true(r):
                r = True
            elif z3.is_false(r):
                r = False
        if r is True:
            return i
        if r is not False:
            interp.assumptions.add("environment: two files whose names are not literally the same string are different files "
                                   "(in particular: different blobs have different SHA-384 names)")
            st.assume(z3.Not(r))
    return None


def _vfs_put(st, path, content):
    entries = list(_vfs(st))
    for i, (p, c) in enumerate(entries):
        r = eq_term(p, path)
        if r is True or (not isinstance(r, bool) and z3.is_true(z3.simplify(r))):
            entries[i] = (p, content)
            break
    else:
        entries.append((path, content))
    st.ghost['c02.vfs'] = tuple(entries)


_DIR = 'dir'        # content marker of a directory


class _StatResult:
    def __init__(self, st_size):
        self.st_size = st_size


class _VFile:
    """an open file of the modelled file system (binary mode, sequential + seek)"""

    def __init__(self, path, content, writable):
        self.path = path
        self.content = content
        self.pos = 0
        self.writable = writable

    def __enter__(self):
        return self

    def __exit__(self, a, b, c):
        return False

    def close(self):
        return None

    def seek(self, pos):
        self.pos = pos
        return pos

    def tell(self):
        return self.pos

    def read(self, n=-1):
        data = _vfile_slice(self.content, self.pos, n)
        self.pos = self.pos + len(data)
        return data

    def write(self, data):
        self.content = self.content + data
        _vfile_store(self.path, self.content)
        return len(data)


def _vfile_slice(content, pos, n):      # symbolic side only (see handler)
    raise NotImplementedError


def _vfile_store(path, content):        # symbolic side only (see handler)
    raise NotImplementedError


@model_for(_vfile_store)
def _m_vfile_store(interp, st, args, kwargs):
    _vfs_put(st, args[0], args[1])
    yield st, VNone


@model_for(_vfile_slice)
def _m_vfile_slice(interp, st, args, kwargs):
    """content[pos:pos+n] (n < 0: to the end).  Served structurally when pos and n line up with the pieces the
    content was built from (then the result is literally those pieces), else as an SMT substring."""
    content, pos, n = args
    ts = _pieces(content)
    p = iterm(as_int_term(pos))
    # piece boundary at pos?
    start = None
    for i in range(len(ts) + 1):
        if st.entails(p == _sum_len(ts[:i])):
            start = i
            break
    nn = as_int_term(n)
    if start is not None:
        if isinstance(nn, int) and nn < 0:
            yield st, VBytes(_concat(ts[start:]))
            return
        for j in range(start, len(ts) + 1):
            if st.entails(iterm(nn) == _sum_len(ts[start:j])):
                yield st, VBytes(_concat(ts[start:j]))
                return
        if st.entails(iterm(nn) >= _sum_len(ts[start:])):
            yield st, VBytes(_concat(ts[start:]))
            return
    flat = _concat(ts)
    ln = z3.Length(flat)
    if isinstance(nn, int) and nn < 0:
        want = ln - p
    else:
        want = z3.If(iterm(nn) < ln - p, iterm(nn), ln - p)
    want = z3.If(want > 0, want, z3.IntVal(0))
    yield st, VBytes(z3.SubString(flat, p, want))


@model_for(open)
def _m_open(interp, st, args, kwargs):
    path = args[0]
    mode = unlift(args[1]) if len(args) > 1 else unlift(kwargs.get('mode', VStr('r')))
    interp.builtins_used.add(f"open(mode={mode!r}) [modelled file system]")
    i = _vfs_lookup(interp, st, path)
    if mode == 'rb':
        if i is None or _vfs(st)[i][1] is _DIR:
            yield st, exc(FileNotFoundError, "No such file or directory")
            return
        yield from interp.instantiate(st, _VFile, [path, _vfs(st)[i][1], VBool(False)], {})
        return
    if mode == 'wb':
        if i is not None and _vfs(st)[i][1] is _DIR:
            yield st, exc(IsADirectoryError, "Is a directory")
            return
        _vfs_put(st, path, VBytes(b''))
        yield from interp.instantiate(st, _VFile, [path, VBytes(b''), VBool(True)], {})
        return
    raise Unsupported(f"open mode {mode!r}")


@model_for(os.stat)
def _m_stat(interp, st, args, kwargs):
    i = _vfs_lookup(interp, st, args[0])
    if i is None:
        yield st, exc(FileNotFoundError, "No such file or directory")
        return
    c = _vfs(st)[i][1]
    size = VInt(4096) if c is _DIR else mk_int(z3.Length(_term(c)))
    yield from interp.instantiate(st, _StatResult, [size], {})


@model_for(os.path.isdir)
def _m_isdir(interp, st, args, kwargs):
    if args[0] is VNone:
        yield st, exc(TypeError, "stat: path should be string, bytes, os.PathLike or integer, not NoneType")
        return
    i = _vfs_lookup(interp, st, args[0])
    yield st, VBool(i is not None and _vfs(st)[i][1] is _DIR)


@model_for(os.path.isfile)
def _m_isfile(interp, st, args, kwargs):
    i = _vfs_lookup(interp, st, args[0])
    yield st, VBool(i is not None and _vfs(st)[i][1] is not _DIR)


@model_for(time.time)
def _m_time(interp, st, args, kwargs):
    t = z3.Int(fresh_name('now'))
    st.assume(t > 0)
    yield st, VInt(t)


# ---- os.path on symbolic strings (POSIX) ----------------------------------------------------------------

def _no(ch):
    """regular language of strings without character ch"""
    return z3.Star(z3.Intersect(z3.AllChar(z3.ReSort(z3.StringSort())), z3.Complement(z3.Re(mk_str(ch)))))


@model_for(os.path.join)
def _m_join(interp, st, args, kwargs):
    if all(a.concrete for a in args):
        yield st, VStr(os.path.join(*[unlift(a) for a in args]))
        return
    if len(args) != 2 or not args[0].concrete or not isinstance(args[1], VStr):
        raise Unsupported("os.path.join model: (concrete directory, symbolic name) only")
    a, b = unlift(args[0]), args[1].term()
    sep = '' if (a == '' or a.endswith('/')) else '/'
    if z3.is_app(b) and b.decl().name() == 'hexlify':
        # hexlify(...) consists of hex digits (its contract): never an absolute path
        yield st, VStr(z3.simplify(z3.Concat(mk_str(a + sep), b)))
        return
    absolute = z3.PrefixOf(mk_str('/'), b)
    yield from interp.alts(st, [(z3.Not(absolute), VStr(z3.simplify(z3.Concat(mk_str(a + sep), b)))), (absolute, args[1])])


@model_for(os.path.basename)
def _m_basename(interp, st, args, kwargs):
    p = args[0]
    if p.concrete:
        yield st, VStr(os.path.basename(unlift(p)))
        return
    pieces = _flatten(p.term())
    if len(pieces) == 2 and z3.is_string_value(pieces[0]) and pieces[0].as_string().endswith('/') and \
            _pc_says(st, z3.Not(z3.Contains(pieces[1], mk_str('/')))):
        yield st, VStr(pieces[1])       # "<dir>/" + name, where the path condition says name has no '/'
        return
    head, tail = z3.String(fresh_name('dirname')), z3.String(fresh_name('basename'))
    st.assume(p.term() == z3.Concat(head, tail))
    st.assume(z3.InRe(tail, _no('/')))
    st.assume(z3.Or(head == mk_str(''), z3.SuffixOf(mk_str('/'), head)))
    yield st, VStr(tail)


def _conjuncts(t):
    if z3.is_and(t):
        for c in t.children():
            yield from _conjuncts(c)
    else:
        yield t


def _pc_says(st, fact):
    """the fact is literally one of the conjuncts of the path condition (syntactic, after simplification)"""
    f = z3.simplify(fact)
    for p in st.pc:
        for c in _conjuncts(p):
            if c.eq(fact) or z3.simplify(c).eq(f):
                return True
    return False


@model_for(os.path.splitext)
def _m_splitext(interp, st, args, kwargs):
    """(root, ext): root + ext == p; ext is empty or a '.' followed by characters other than '.' and '/';
    a non-empty ext is split off only when something other than dots precedes it in the last component"""
    p = args[0]
    if p.concrete:
        r = os.path.splitext(unlift(p))
        yield st, VTuple([VStr(r[0]), VStr(r[1])])
        return
    root, ext = z3.String(fresh_name('root')), z3.String(fresh_name('ext'))
    anyc = z3.AllChar(z3.ReSort(z3.StringSort()))
    not_dot_sep = z3.Star(z3.Intersect(anyc, z3.Complement(z3.Union(z3.Re(mk_str('.')), z3.Re(mk_str('/'))))))
    dots = z3.Star(z3.Re(mk_str('.')))
    dirpart = z3.Option(z3.Concat(z3.Full(z3.ReSort(z3.StringSort())), z3.Re(mk_str('/'))))
    st.assume(p.term() == z3.Concat(root, ext))
    st.assume(z3.InRe(ext, z3.Option(z3.Concat(z3.Re(mk_str('.')), not_dot_sep))))
    # ext != '' => the last component of root is not made of dots only
    st.assume(z3.Implies(ext != mk_str(''), z3.Not(z3.InRe(root, z3.Concat(dirpart, dots)))))
    # ext == '' => the last component of p is dots followed by no further dot
    st.assume(z3.Implies(ext == mk_str(''), z3.InRe(root, z3.Concat(dirpart, dots, not_dot_sep))))
    yield st, VTuple([VStr(root), VStr(ext)])


# ---- AES-CBC and PKCS7 (cryptography): uninterpreted, with the inverse and length laws ------------------------

_S = z3.StringSort()
AES_ENC = z3.Function('aes_cbc_enc', _S, _S, _S, _S)       # key, iv, block-aligned plaintext -> ciphertext
AES_DEC = z3.Function('aes_cbc_dec', _S, _S, _S, _S)
PAD = z3.Function('pkcs7_pad', _S, _S)
UNPAD = z3.Function('pkcs7_unpad', _S, _S)
UNPAD_OK = z3.Function('pkcs7_valid', _S, z3.BoolSort())


class _AES:
    def __init__(self, key):
        if len(key) not in (16, 24, 32):
            raise ValueError("Invalid key size for AES.")
        self.key = key


class _CBC:
    def __init__(self, iv):
        self.iv = iv


class _Cipher:
    def __init__(self, algorithm, mode, backend=None):
        if len(mode.iv) != 16:
            raise ValueError("Invalid IV size for CBC.")
        self.algorithm = algorithm
        self.mode = mode

    def encryptor(self):
        return _CipherContext(self.algorithm.key, self.mode.iv, True)

    def decryptor(self):
        return _CipherContext(self.algorithm.key, self.mode.iv, False)


class _CipherContext:
    """only the concatenation update(...) + finalize() is modelled: AES-CBC of the whole input, which must be a
    whole number of blocks (ValueError from finalize otherwise)"""

    def __init__(self, key, iv, enc):
        self.key = key
        self.iv = iv
        self.enc = enc
        self.buf = b''

    def update(self, data):
        self.buf = self.buf + data
        return b''

    def finalize(self):
        if len(self.buf) % 16 != 0:
            raise ValueError("The length of the provided data is not a multiple of the block length.")
        return _aes_cbc(self.key, self.iv, self.buf, self.enc)


class _PKCS7:
    def __init__(self, block_size):
        if block_size != 128:
            raise _ModelLimit("PKCS7 block size other than 128 bits")
        self.block_size = block_size

    def padder(self):
        return _PadContext(True)

    def unpadder(self):
        return _PadContext(False)


class _ModelLimit(Exception):
    """the environment model was used outside what it describes"""


class _PadContext:
    """only the concatenation update(...) + finalize() is modelled"""

    def __init__(self, pad):
        self.pad = pad
        self.buf = b''

    def update(self, data):
        self.buf = self.buf + data
        return b''

    def finalize(self):
        if self.pad:
            return _pkcs7_pad(self.buf)
        return _pkcs7_unpad(self.buf)


def _aes_cbc(key, iv, data, enc):       # symbolic side only
    raise NotImplementedError


def _pkcs7_pad(data):                   # symbolic side only
    raise NotImplementedError


def _pkcs7_unpad(data):                 # symbolic side only
    raise NotImplementedError


def _bytes_fact(st, t):
    st.assume(z3.InRe(t, byte_re()))


@model_for(_aes_cbc)
def _m_aes_cbc(interp, st, args, kwargs):
    key, iv, data, enc = args
    k, i, d = _term(key), _term(iv), z3.simplify(_term(data))
    interp.builtins_used.add("cryptography AES-CBC [uninterpreted, decrypt(encrypt(x)) == x, length preserving]")
    if unlift(enc):
        out = AES_ENC(k, i, d)
        st.assume(AES_DEC(k, i, out) == d)
    else:
        if z3.is_app(d) and d.decl().eq(AES_ENC) and d.arg(0).eq(k) and d.arg(1).eq(i):
            yield st, VBytes(d.arg(2))
            return
        out = AES_DEC(k, i, d)
        st.assume(AES_ENC(k, i, out) == d)
    st.assume(z3.Length(out) == z3.Length(d))
    _bytes_fact(st, out)
    yield st, VBytes(out)


@model_for(_pkcs7_pad)
def _m_pad(interp, st, args, kwargs):
    d = z3.simplify(_term(args[0]))
    interp.builtins_used.add("cryptography PKCS7(128) [uninterpreted, unpad(pad(x)) == x, len(pad(x)) == (len(x)//16+1)*16]")
    out = PAD(d)
    st.assume(z3.Length(out) == (z3.Length(d) / 16 + 1) * 16)
    st.assume(UNPAD(out) == d)
    st.assume(UNPAD_OK(out))
    _bytes_fact(st, out)
    yield st, VBytes(out)


@model_for(_pkcs7_unpad)
def _m_unpad(interp, st, args, kwargs):
    d = z3.simplify(_term(args[0]))
    if z3.is_app(d) and d.decl().eq(PAD):
        yield st, VBytes(d.arg(0))
        return
    out = UNPAD(d)
    ok = UNPAD_OK(d)
    for s1, r in interp.alts(st, [(ok, 'ok'), (z3.Not(ok), 'bad')]):
        if r == 'bad':
            yield s1, exc(ValueError, "Invalid padding bytes.")
            continue
        s1.assume(z3.And(z3.Length(d) >= 16, z3.Length(d) % 16 == 0))
        s1.assume(z3.And(z3.Length(out) < z3.Length(d), z3.Length(out) >= z3.Length(d) - 16))
        s1.assume(PAD(out) == d)
        _bytes_fact(s1, out)
        yield s1, VBytes(out)


@model_for(AES)
def _m_AES(interp, st, args, kwargs):
    yield from interp.instantiate(st, _AES, args, kwargs)


@model_for(modes.CBC)
def _m_CBC(interp, st, args, kwargs):
    yield from interp.instantiate(st, _CBC, args, kwargs)


@model_for(Cipher)
def _m_Cipher(interp, st, args, kwargs):
    yield from interp.instantiate(st, _Cipher, args, kwargs)


@model_for(PKCS7)
def _m_PKCS7(interp, st, args, kwargs):
    yield from interp.instantiate(st, _PKCS7, args, kwargs)


# ---- json: canonical text as a deterministic function of the structure; loads inverts dumps -------------------

JSON_STR = z3.Function('json_string_literal', _S, _S)      # the quoted, escaped JSON literal of a string


def _json_pieces(st, v, sort_keys, out):
    if isinstance(v, VStr):
        out.append(json.dumps(v.v) if v.concrete else JSON_STR(v.term()))
    elif isinstance(v, VBool):
        out.append(('true' if v.v else 'false') if v.concrete else z3.If(v.term(), mk_str('true'), mk_str('false')))
    elif isinstance(v, VInt):
        from pyvc.ops import int_to_dec
        out.append(int_to_dec(v.v))
    elif v is VNone:
        out.append('null')
    elif isinstance(v, VRef) and isinstance(st.heap[v.addr], HList) and st.heap[v.addr].items is not None:
        out.append('[')
        for k, it in enumerate(st.heap[v.addr].items):
            if k:
                out.append(', ')
            _json_pieces(st, it, sort_keys, out)
        out.append(']')
    elif isinstance(v, VRef) and isinstance(st.heap[v.addr], HDict) and st.heap[v.addr].kind == 'dict':
        items = st.heap[v.addr].items
        keys = list(items)
        if not all(isinstance(k, str) for k in keys):
            raise Unsupported("json.dumps model: non-string dictionary key")
        if sort_keys:
            keys = sorted(keys)
        out.append('{')
        for n, k in enumerate(keys):
            if n:
                out.append(', ')
            out.append(json.dumps(k) + ': ')
            _json_pieces(st, items[k], sort_keys, out)
        out.append('}')
    else:
        raise Unsupported(f"json.dumps model: value {v}")


@model_for(json.dumps)
def _m_json_dumps(interp, st, args, kwargs):
    extra = set(kwargs) - {'sort_keys'}
    if len(args) != 1 or extra:
        raise Unsupported("json.dumps model: only dumps(obj, sort_keys=...)")
    sort_keys = unlift(kwargs.get('sort_keys', VBool(False)))
    out = []
    _json_pieces(st, args[0], sort_keys, out)
    merged = []
    for piece in out:
        if isinstance(piece, str) and merged and isinstance(merged[-1], str):
            merged[-1] += piece
        else:
            merged.append(piece)
    interp.builtins_used.add("json.dumps [canonical text, uninterpreted string literals]")
    if all(isinstance(m, str) for m in merged):
        yield st, VStr(''.join(merged))
        return
    t = _concat([mk_str(m) if isinstance(m, str) else m for m in merged])
    # the text is named by a constant (stable under term rewriting); equal structures get the same constant
    reg = dict(st.ghost.get('c02.json', {}))
    key = t.sexpr()
    for nm, (src, k2) in reg.items():
        if k2 == key:
            yield st, VStr(z3.String(nm))
            return
    nm = fresh_name('json_text')
    reg[nm] = (args[0], key)
    st.ghost['c02.json'] = reg
    st.assume(z3.String(nm) == t)
    # consequences of the definition the path pruning can use: at least the punctuation, and utf-8 never shortens
    from pyvc import builtins_model as _bm
    st.assume(z3.Length(z3.String(nm)) >= sum(len(m) for m in merged if isinstance(m, str)))
    st.assume(z3.Length(_bm._UTF8ENC(z3.String(nm))) >= z3.Length(z3.String(nm)))
    yield st, VStr(z3.String(nm))


def _json_copy(st, v):
    if isinstance(v, VRef):
        h = st.heap[v.addr]
        if isinstance(h, HList):
            return st.alloc(HList(items=[_json_copy(st, i) for i in h.items]))
        if isinstance(h, HDict):
            return st.alloc(HDict({k: _json_copy(st, x) for k, x in h.items.items()}))
    return v


@model_for(json.loads)
def _m_json_loads(interp, st, args, kwargs):
    v = args[0]
    if v.concrete:
        try:
            from pyvc.builtins_model import from_native
            yield st, from_native(interp, st, json.loads(unlift(v)))
        except json.JSONDecodeError as e:
            yield st, Raise(VExc(json.JSONDecodeError, [VStr(str(e)), VStr(''), VInt(0)]))
        return
    t = _term(v)
    # utf-8 wrappers: loads(dumps(x).encode()) and loads(dumps(x).encode().decode())
    t = z3.simplify(t)
    while z3.is_app(t) and t.decl().name() in ('utf8_decode', 'utf8_encode'):
        t = z3.simplify(t.arg(0))
    reg = st.ghost.get('c02.json', {})
    src = reg.get(t.decl().name()) if z3.is_const(t) else None
    if src is None:
        raise Unsupported("json.loads model: the text was not produced by json.dumps on this path")
    src = src[0]
    interp.builtins_used.add("json.loads [inverse of json.dumps on str/int/None/list/dict values]")
    yield st, _json_copy(st, src)


# ---- re.sub(R, '', s) for a pattern that is an alternation containing character-class runs --------------------

def removed_classes(pattern):
    """Character classes C such that pattern.sub('', s) never contains a C character: the leading alternatives of the
    pattern (in order), as long as they cannot match the empty string, that are a run `[C]+` or a single `[C]`.
    Why: sub scans left to right and at a position holding a C character that is not yet consumed the alternatives are
    tried in order; those before the `[C]+` alternative either match there (non-empty, so the character is consumed and
    removed) or fail, and `[C]+` itself matches; nothing is inserted because the replacement is empty."""
    import re._parser as sre_parse
    import re._constants as sre_c
    tree = list(sre_parse.parse(pattern.pattern, pattern.flags))
    while len(tree) == 1 and tree[0][0] is sre_c.SUBPATTERN and not tree[0][1][1] and not tree[0][1][2]:
        tree = list(tree[0][1][3])
    alts = [a for a in tree[0][1][1]] if len(tree) == 1 and tree[0][0] is sre_c.BRANCH else [tree]
    classes = []
    for alt in alts:
        items = list(alt)
        if len(items) == 1:
            op, av = items[0]
            if op is sre_c.MAX_REPEAT and av[0] == 1 and len(av[2]) == 1 and av[2][0][0] in (sre_c.IN, sre_c.LITERAL):
                classes.append(av[2][0])
                continue
            if op in (sre_c.IN, sre_c.LITERAL):
                classes.append(items[0])
                continue
        lo = alt.getwidth()[0] if hasattr(alt, 'getwidth') else 0
        if lo == 0:
            break           # an alternative that may match the empty string: later alternatives are not relied upon
    return classes


@model_for(re.sub)
def _re_sub_classes(interp, st, args, kwargs):
    from pyvc import regex as R
    pat, repl, s = args[0], args[1], args[2]
    p = unlift(pat)
    if not isinstance(p, re.Pattern):
        p = re.compile(p)
    if s.concrete and repl.concrete:
        yield st, lift(p.sub(unlift(repl), s.v))
        return
    try:
        yield from R.re_sub(interp, st, args, kwargs)
        return
    except Unsupported:
        pass
    if not (repl.concrete and unlift(repl) in ('', b'')) or (p.flags & (re.MULTILINE | re.IGNORECASE)):
        raise Unsupported("re.sub model: empty replacement, no MULTILINE/IGNORECASE only")
    classes = removed_classes(p)
    if not classes:
        raise Unsupported("re.sub model: no character-class alternative")
    C = R.union([R.item_to_re(c, isinstance(p.pattern, bytes), p.flags) for c in classes])
    notC = z3.Intersect(R.allchar(), z3.Complement(C))
    res = z3.String(fresh_name('resub'))
    st.assume(z3.InRe(res, z3.Star(notC)))
    st.assume(z3.Length(res) <= z3.Length(s.term()))
    # substitution by '' only deletes: a kind of character absent from s is absent from the result (stated for the kinds the
    # property talks about, so that counter-models are realistic: a bad character in the result comes from the input)
    for kind in (R.rng(0x2f, 0x2f), R.rng(0x5c, 0x5c), R.rng(0, 0x1f)):
        without = z3.Star(z3.Intersect(R.allchar(), z3.Complement(kind)))
        st.assume(z3.Implies(z3.InRe(s.term(), without), z3.InRe(res, without)))
    interp.builtins_used.add("re.sub(alternation with character-class runs, '') [result free of the classes' characters]")
    yield st, mk_like(s, res)


# ---- binascii.unhexlify: the engine's model, plus the shortcut unhexlify(hexlify(x)) == x --------------------------------

@model_for(binascii.unhexlify)
def _m_unhexlify(interp, st, args, kwargs):
    v = args[0]
    if isinstance(v, (VStr, VBytes)) and not v.concrete:
        t = v.term()
        if z3.is_app(t) and t.decl().name() == 'hexlify':
            yield st, VBytes(t.arg(0))      # hexlify's contract (the ground axiom the solver gets anyway), applied syntactically
            return
    from pyvc import builtins_model2 as _b2
    yield from _b2.m_unhexlify(interp, st, args, kwargs)


# ---- modular use of a lemma about a repository function ------------------------------------------------------

from lbry.blob import blob_file as _blob_file      # noqa: E402


@model_for(_blob_file.is_valid_blobhash)
def _m_is_valid_blobhash(interp, st, args, kwargs):
    """Lemma `lemma.hexdigest-is-valid-blobhash` (proved below on the real function for every 48-byte digest): the hex
    form of a SHA-384 digest is a valid blob hash.  Call sites whose argument is literally such a hex digest use the
    lemma; every other call executes the real body."""
    v = args[0] if args else kwargs.get('blobhash')
    if isinstance(v, VStr) and not v.concrete:
        t = v.term()
        if z3.is_app(t) and t.decl().name() == 'hexlify' and z3.is_app(t.arg(0)) and t.arg(0).decl().name() == 'H_sha384':
            interp.assumptions.add("modular: is_valid_blobhash(hex SHA-384 digest) is truthy (lemma.hexdigest-is-valid-blobhash)")
            st.assume(z3.Length(t) == 96)       # hashlib / hexlify contracts: 48 bytes, two hex digits each
            yield st, VBool(True)
            return
    f = _blob_file.is_valid_blobhash
    from pyvc.sources import SOURCES
    yield from interp.call_ast(st, SOURCES.node_of(f), f.__globals__, [], [], {}, f.__qualname__, f.__code__.co_filename,
                               list(args), dict(kwargs))


CLEAN = r'[^/\\\x00-\x1f]*'        # no path separator, no NUL, no control character


def use_sanitize_contract():
    """(symbolic side) from here on sanitize_file_name is used through its proved contract (proof `sanitize_file_name`)"""
    return None


@model_for(use_sanitize_contract)
def _m_use_sanitize_contract(interp, st, args, kwargs):
    st.ghost['c02.modular_sanitize'] = True
    yield st, VNone


@model_for(sanitize_file_name)
def _m_sanitize(interp, st, args, kwargs):
    """modular: inside the stream proofs the result of sanitize_file_name is *some* string with the property proved for
    every input by proof `sanitize_file_name`; everywhere else the real body is executed"""
    if st.ghost.get('c02.modular_sanitize') and len(args) == 1 and not kwargs and isinstance(args[0], VStr):
        from pyvc import regex as R
        r = z3.String(fresh_name('suggested'))
        st.assume(z3.InRe(r, R.parsed(re.compile(CLEAN)).body_re()))
        interp.assumptions.add("modular: sanitize_file_name(any str) returns a str matching CLEAN (proof sanitize_file_name)")
        yield st, VStr(r)
        return
    f = sanitize_file_name
    from pyvc.sources import SOURCES
    defaults = [lift(d) for d in (f.__defaults__ or ())]
    yield from interp.call_ast(st, SOURCES.node_of(f), f.__globals__, [], defaults, {}, f.__qualname__, f.__code__.co_filename,
                               list(args), dict(kwargs))


# ---- harness helpers with a native and a modelled side --------------------------------------------------

def workspace():
    """a scratch directory with an empty blob directory and a directory for the file to publish"""
    base = tempfile.mkdtemp(prefix='c02-')
    os.mkdir(os.path.join(base, 'blobs'))
    os.mkdir(os.path.join(base, 'files'))
    return base


@model_for(workspace)
def _m_workspace(interp, st, args, kwargs):
    st.ghost['c02.vfs'] = ((VStr('/v/blobs'), _DIR), (VStr('/v/files'), _DIR))
    yield st, VStr('/v')


def put_file(base, name, data):
    path = os.path.join(base, 'files', name)
    with open(path, 'wb') as f:
        f.write(data)
    return path


@model_for(put_file)
def _m_put_file(interp, st, args, kwargs):
    base, name, data = args
    path = VStr(z3.simplify(z3.Concat(mk_str(unlift(base) + '/files/'), name.term()))) if not name.concrete \
        else VStr(unlift(base) + '/files/' + unlift(name))
    _vfs_put(st, path, data)
    yield st, path


def read_blob(base, name):
    """the bytes stored in the blob directory under this name"""
    with open(os.path.join(base, 'blobs', name), 'rb') as f:
        return f.read()


@model_for(read_blob)
def _m_read_blob(interp, st, args, kwargs):
    base, name = args
    path = VStr(unlift(base) + '/blobs/' + unlift(name)) if name.concrete else \
        VStr(z3.simplify(z3.Concat(mk_str(unlift(base) + '/blobs/'), name.term())))
    i = _vfs_lookup(interp, st, path)
    if i is None or _vfs(st)[i][1] is _DIR:
        yield st, exc(FileNotFoundError, "No such file or directory")
        return
    yield st, _vfs(st)[i][1]


def count_blobs(base):
    return len(os.listdir(os.path.join(base, 'blobs')))


@model_for(count_blobs)
def _m_count_blobs(interp, st, args, kwargs):
    base = unlift(args[0])
    n = 0
    for p, c in _vfs(st):
        if c is _DIR:
            continue
        if p.concrete:
            n += 1 if unlift(p).startswith(base + '/blobs/') else 0
        else:
            pre = _flatten(p.term())
            n += 1 if pre and z3.is_string_value(pre[0]) and pre[0].as_string().startswith(base + '/blobs/') else 0
    yield st, VInt(n)


def cleanup(base):
    shutil.rmtree(base, ignore_errors=True)


@model_for(cleanup)
def _m_cleanup(interp, st, args, kwargs):
    yield st, VNone


# =====================================================================================================
# 1. names the scratch file system can hold
# =====================================================================================================

def name_ok(name):
    """file names the scratch file system can hold (POSIX: no '/', no NUL, not '.' or '..', at most 255 bytes: here at
    most 60 code points)"""
    return 0 < len(name) <= 60 and '/' not in name and '\x00' not in name and name != '.' and name != '..'


# =====================================================================================================
# 2. one blob: AES-CBC + PKCS7, size bound, SHA-384 name
# =====================================================================================================

def spec_decrypt(ciphertext, key, iv):
    """the protocol's blob decryption: AES-CBC with the stream key and the blob's IV, then PKCS7 unpadding"""
    d = Cipher(AES(key), modes.CBC(iv)).decryptor()
    u = PKCS7(128).unpadder()
    return u.update(d.update(ciphertext) + d.finalize()) + u.finalize()


@proof("C02", "blob.encrypt-decrypt")
class BlobRoundTrip:
    """encrypt_blob_bytes / decrypt_blob_bytes on every plaintext of at most MAX_BLOB_SIZE-1 bytes, every 128/192/256-bit key
    and every IV: decryption returns the plaintext, the ciphertext is the PKCS7-padded length (a whole number of blocks, at
    most 2 MiB) and the blob is named by the SHA-384 of the ciphertext"""
    inputs = dict(key=TOneOf(TBytes(length=16), TBytes(length=24), TBytes(length=32)), iv=TBytes(length=16), data=TBytes(maxlen=CHUNK))
    note = "plaintext lengths 0, 1, 15, 16, 17, 31, 32, 4095, 4096, CHUNK-16, CHUNK-15, CHUNK-1, CHUNK x key sizes 16/24/32"
    timeout = QUERY_S

    def run(key, iv, data):
        ct, name = encrypt_blob_bytes(key, iv, data)
        back = decrypt_blob_bytes(ct, len(ct), key, iv)
        return ct, name, back, spec_decrypt(ct, key, iv)

    def ensures_roundtrip(data, result):
        return result[2] == data and result[3] == data

    def ensures_padded_length(data, result):
        return len(result[0]) == (len(data) // 16 + 1) * 16

    def ensures_at_most_2MiB(result):
        return len(result[0]) <= 2 * 2 ** 20

    def ensures_named_by_sha384_of_ciphertext(result):
        return result[1] == hashlib.sha384(result[0]).hexdigest()

    def samples():
        for n in (0, 1, 15, 16, 17, 31, 32, 4095, 4096, CHUNK - 16, CHUNK - 15, CHUNK - 1, CHUNK):
            for kl in (16, 24, 32):
                yield dict(key=bytes(range(kl)), iv=bytes(range(100, 116)), data=(bytes(range(251)) * (n // 251 + 1))[:n])


@proof("C02", "blob.decrypt-checks-length")
class BlobDecryptLength:
    """a blob whose data is not of the length the descriptor announces is refused"""
    inputs = dict(key=TBytes(length=16), iv=TBytes(length=16), data=TBytes(maxlen=CHUNK), length=TInt(0, 2 ** 22))
    timeout = QUERY_S

    def requires(data, length):
        return length != (len(data) // 16 + 1) * 16

    def run(key, iv, data, length):
        ct, name = encrypt_blob_bytes(key, iv, data)
        return decrypt_blob_bytes(ct, length, key, iv)

    def ensures_never_returns(result):
        return False

    raises = {ValueError: True}

    def samples():
        for n, ln in ((0, 0), (5, 15), (5, 17), (16, 16), (100, 128)):
            yield dict(key=b'k' * 16, iv=b'i' * 16, data=b'x' * n, length=ln)


async def make_blob(key, iv, data, blob_num):
    base = workspace()
    try:
        loop = asyncio.get_event_loop()
        info = await asyncio.wait_for(BlobFile.create_from_unencrypted(loop, base + '/blobs', key, iv, data, blob_num, 1500000000, True), 10)
        stored = read_blob(base, info.blob_hash)
        return (info.blob_num, info.length, info.iv, info.blob_hash, info.is_mine), stored, count_blobs(base)
    finally:
        cleanup(base)


@proof("C02", "blob.create_from_unencrypted")
class BlobCreate:
    """BlobFile.create_from_unencrypted (AbstractBlob.create_from_unencrypted, the blob writer, the hash check of
    HashBlobWriter and the write to the blob directory): what ends up on disk under the returned name decrypts to the
    plaintext, has the announced length (at most 2 MiB) and the SHA-384 of the stored bytes IS the name"""
    inputs = dict(key=TBytes(length=16), iv=TBytes(length=16), data=TBytes(maxlen=CHUNK), blob_num=TInt(0, 2 ** 31))
    note = "plaintext lengths 1, 15, 16, 17, 4096, CHUNK-16, CHUNK-15, CHUNK"
    timeout = QUERY_S
    run = make_blob

    def ensures_stored_bytes_decrypt_to_plaintext(key, iv, data, result):
        return spec_decrypt(result[1], key, iv) == data

    def ensures_length_announced_and_bounded(result):
        return result[0][1] == len(result[1]) and len(result[1]) <= 2 * 2 ** 20

    def ensures_named_by_sha384_of_stored_bytes(result):
        return result[0][3] == hashlib.sha384(result[1]).hexdigest()

    def ensures_iv_and_number_recorded(iv, blob_num, result):
        return result[0][0] == blob_num and result[0][2] == binascii.hexlify(iv).decode() and result[0][4] is True

    def ensures_one_file(result):
        return result[2] == 1

    def samples():
        for n in (1, 15, 16, 17, 4096, CHUNK - 16, CHUNK - 15, CHUNK):
            yield dict(key=bytes(range(16)), iv=bytes(range(100, 116)), data=(bytes(range(251)) * (n // 251 + 1))[:n], blob_num=n % 7)


# =====================================================================================================
# 3. suggested file name
# =====================================================================================================

@proof("C02", "sanitize_file_name")
class Sanitize:
    """for EVERY string offered as a name (any length, any code points) the suggested name is free of path separators,
    NUL and control characters, and is not empty"""
    inputs = dict(name=TStr())
    timeout = QUERY_S
    note = "names built from separators, control characters, dots, blanks, reserved DOS names, unicode"

    def run(name):
        return sanitize_file_name(name)

    def ensures_no_separator_nul_or_control(result):
        return matches(result, CLEAN)

    def samples():
        import itertools
        alphabet = ['a', '/', '\\', '\x00', '\x1f', '\n', '.', ' ', '\t', 'CON', ':', '*', 'é', '..', '\x7f']
        for n in range(0, 4):
            for combo in itertools.product(alphabet, repeat=n):
                yield dict(name=''.join(combo))
        for extra in ('a/b.txt', '..\\..\\etc', 'x\x00y.mp4', 'CON', 'NUL.txt', ' . ', '....', 'a.\x01\x02', '/', 'a' * 300 + '.b/c',
                      '\x00', '.\x00', '\x1f.\x1f', 'a.b.c/d', 'normal name.mp4',
                      # legal POSIX names written with look-alike code points: whatever the function does to them, the result must
                      # not contain a separator (a compatibility normalisation applied AFTER the filter would produce one)
                      '\u2025\uff0f\u2025\uff0fetc\uff0fpasswd', 'a\uff3cb', 'x\ufe68y.txt', '\u2105.doc', 'a\u2215b', 'cafe\u0301.mp4',
                      '\uff0e\uff0e\uff0f', '\u2024\u2024/', 'ﬁle\uff1aname', '\uff0f', '\ufe68'):
            yield dict(name=extra)


# =====================================================================================================
# 4. the descriptor's commitments (specification written from the protocol definition)
# =====================================================================================================

def sha384(data):
    return hashlib.sha384(data).digest()


def spec_blob_sum(num, length, iv_hex, blob_hash):
    """SHA-384 over: the blob's hash (data blobs only) ‖ decimal number ‖ hex IV ‖ decimal length"""
    named = blob_hash.encode() if length != 0 else b''
    return sha384(named + str(num).encode() + iv_hex.encode() + str(length).encode())


def spec_stream_hash_preimage(name, key_hex, suggested, blobs):
    sums = b''
    for b in blobs:
        sums = sums + spec_blob_sum(b[0], b[1], b[2], b[3])
    return binascii.hexlify(name.encode()) + key_hex.encode() + binascii.hexlify(suggested.encode()) + sha384(sums)


def spec_stream_hash(name, key_hex, suggested, blobs):
    """hex SHA-384 over: hex(stream name) ‖ hex key ‖ hex(suggested file name) ‖ SHA-384(blob sums in order)"""
    return binascii.hexlify(sha384(spec_stream_hash_preimage(name, key_hex, suggested, blobs))).decode()


def spec_sd_content(name, key_hex, suggested, stream_hash, blobs):
    """what a descriptor blob says, as a JSON value"""
    out = []
    for b in blobs:
        d = {'length': b[1], 'blob_num': b[0], 'iv': b[2]}
        if b[3] is not None:
            d['blob_hash'] = b[3]
        out.append(d)
    return {'stream_type': 'lbryfile', 'stream_name': binascii.hexlify(name.encode()).decode(), 'key': key_hex,
            'suggested_file_name': binascii.hexlify(suggested.encode()).decode(), 'stream_hash': stream_hash, 'blobs': out}


# =====================================================================================================
# 5. publishing a file
# =====================================================================================================

async def publish(name, key, ivs, parts):
    base = workspace()
    try:
        use_sanitize_contract()
        data = b''
        for p in parts:
            data = data + p
        path = put_file(base, name, data)
        chunks = []
        async for chunk in file_reader(path):          # the chunking on its own (create_stream below reads the file again)
            chunks.append(chunk)
        loop = asyncio.get_event_loop()
        desc = await asyncio.wait_for(StreamDescriptor.create_stream(loop, base + '/blobs', path, key=key, iv_generator=iter(ivs)), 20)
        blobs = [(b.blob_num, b.length, b.iv, b.blob_hash) for b in desc.blobs]
        stored = [read_blob(base, b.blob_hash) for b in desc.blobs[:-1]]
        sd_bytes = read_blob(base, desc.sd_hash)
        return dict(data=data, name=desc.stream_name, key=desc.key, suggested=desc.suggested_file_name, stream_hash=desc.stream_hash,
                    sd_hash=desc.sd_hash, blobs=blobs, stored=stored, sd_bytes=sd_bytes, files=count_blobs(base), chunks=chunks)
    finally:
        cleanup(base)


def make_publish_proof(k):
    types = dict(name=TStr(), key=TBytes(length=16), ivs=TList(TBytes(length=16), n=k + 1))
    for i in range(k - 1):
        types[f"c{i}"] = TBytes(length=CHUNK)
    types["tail"] = TBytes(minlen=1, maxlen=CHUNK)
    part_names = [n for n in types if n not in ('name', 'key', 'ivs')]

    def requires(name):
        return name_ok(name)

    async def run(**kw):
        return await publish(kw['name'], kw['key'], kw['ivs'], [kw[n] for n in part_names])

    def ensures_file_reader_chunks_reassemble(result):
        return b''.join(result['chunks']) == result['data']

    def ensures_file_reader_chunk_count_and_sizes(result):
        ok = len(result['chunks']) == k
        for c in result['chunks']:
            ok = ok and 1 <= len(c) <= CHUNK
        return ok

    def ensures_decrypting_in_descriptor_order_gives_the_file(result):
        key = binascii.unhexlify(result['key'])
        plain = b''
        for b, stored in zip(result['blobs'][:-1], result['stored']):
            plain = plain + spec_decrypt(stored, key, binascii.unhexlify(b[2]))
        return plain == result['data']

    def ensures_descriptor_records_key_and_ivs(key, ivs, result):
        ok = result['key'] == binascii.hexlify(key).decode() and len(result['blobs']) == len(ivs)
        for b, iv in zip(result['blobs'], ivs):
            ok = ok and b[2] == binascii.hexlify(iv).decode()
        return ok

    def ensures_data_blobs_bounded_and_named_by_sha384(result):
        ok = len(result['stored']) == k
        for b, stored in zip(result['blobs'][:-1], result['stored']):
            ok = ok and b[1] == len(stored) and 0 < len(stored) <= 2 * 2 ** 20 and b[3] == hashlib.sha384(stored).hexdigest()
        return ok

    def ensures_numbering_and_terminator(result):
        blobs = result['blobs']
        ok = len(blobs) == k + 1
        for j, b in enumerate(blobs):
            ok = ok and b[0] == j
        return ok and blobs[-1][1] == 0 and blobs[-1][3] is None

    def ensures_stream_hash_commits_to_content(result):
        return result['stream_hash'] == spec_stream_hash(result['name'], result['key'], result['suggested'], result['blobs'])

    def ensures_sd_hash_is_sha384_of_descriptor_blob(result):
        return result['sd_hash'] == hashlib.sha384(result['sd_bytes']).hexdigest()

    def ensures_descriptor_blob_says_exactly_this(result):
        return json.loads(result['sd_bytes']) == spec_sd_content(result['name'], result['key'], result['suggested'],
                                                                 result['stream_hash'], result['blobs'])

    def ensures_stream_name_is_file_name(name, result):
        return result['name'] == name

    def ensures_suggested_name_clean(result):
        return matches(result['suggested'], CLEAN)

    def ensures_nothing_else_written(result):
        return result['files'] == k + 1

    import inspect
    run.__signature__ = inspect.Signature([inspect.Parameter(n, inspect.Parameter.POSITIONAL_OR_KEYWORD) for n in types])

    def samples():
        for tail in (1, 2, 15, 16, 4096, CHUNK - 1, CHUNK):
            for name in ('f.bin', 'with space.tar.gz', 'c:\\x<y>.mp4\n', '.hidden', 'CON'):
                d = dict(name=name, key=bytes(range(16)), ivs=[bytes([j + 1]) * 16 for j in range(k + 1)])
                for i in range(k - 1):
                    d[f"c{i}"] = bytes([i + 65]) * CHUNK
                d["tail"] = (bytes(range(253)) * (tail // 253 + 1))[:tail]
                yield d

    body = dict(inputs=types, requires=staticmethod(requires), run=staticmethod(run), samples=staticmethod(samples), timeout=QUERY_S,
                note=f"{k} data blob(s): last chunk of 1, 15, 16, 4096, CHUNK-1, CHUNK bytes x 5 file names",
                __doc__=f"StreamDescriptor.create_stream on every file of {k} chunk(s) ({(k - 1)}*(MAX_BLOB_SIZE-1)+1 .. "
                        f"{k}*(MAX_BLOB_SIZE-1) bytes), every key, IV sequence and file name: file_reader yields exactly {k} chunk(s) of "
                        f"1..MAX_BLOB_SIZE-1 bytes whose concatenation is the file, and all clauses of the statement about a "
                        f"published stream hold")
    for f in (ensures_file_reader_chunks_reassemble, ensures_file_reader_chunk_count_and_sizes,
              ensures_decrypting_in_descriptor_order_gives_the_file, ensures_descriptor_records_key_and_ivs,
              ensures_data_blobs_bounded_and_named_by_sha384, ensures_numbering_and_terminator, ensures_stream_hash_commits_to_content,
              ensures_sd_hash_is_sha384_of_descriptor_blob, ensures_descriptor_blob_says_exactly_this, ensures_stream_name_is_file_name,
              ensures_suggested_name_clean,
              ensures_nothing_else_written):
        body[f.__name__] = staticmethod(f)
    proof("C02", f"create_stream[{k}]")(type('Publish', (), body))


for _k in (1, 2, 3):
    make_publish_proof(_k)


@proof("C02", "lemma.hexdigest-is-valid-blobhash")
class LemmaValidBlobHash:
    """lemma used modularly by the blob proofs: the hex form of any 48-byte digest passes is_valid_blobhash"""
    inputs = dict(d=TBytes(length=48))
    timeout = QUERY_S

    def run(d):
        return True if _blob_file.is_valid_blobhash(binascii.hexlify(d).decode()) else False

    def ensures_valid(result):
        return result

    def samples():
        for d in (bytes(48), bytes(range(48)), b'\xff' * 48, bytes(range(200, 248))):
            yield dict(d=d)


# =====================================================================================================
# 6. commitments of an arbitrary descriptor object
# =====================================================================================================

def blob_tuples(fields, n):
    """[(num, length, iv, hash)] of n data blobs and the terminator from flat proof inputs"""
    out = []
    for i in range(n):
        out.append((fields[f"num{i}"], fields[f"len{i}"], fields[f"iv{i}"], fields[f"hash{i}"]))
    out.append((fields["tnum"], 0, fields["tiv"], None))
    return out


def descriptor_of(name, key, suggested, blobs, stream_hash=None):
    infos = [BlobInfo(b[0], b[1], b[2], 1500000000, b[3]) for b in blobs]
    return StreamDescriptor(None, '/nowhere', name, key, suggested, infos, stream_hash)


def make_commitment_proof(n):
    types = dict(name=TStr(), key=TStr(), suggested=TStr())
    for i in range(n):
        types.update({f"num{i}": TInt(), f"len{i}": TInt(1, 2 * 2 ** 20), f"iv{i}": TStr(), f"hash{i}": TStr()})
    types.update(tnum=TInt(), tiv=TStr())

    def requires(**kw):
        ok = True
        for i in range(n):
            ok = ok and len(kw[f"hash{i}"]) > 0
        return ok

    def run(**kw):
        blobs = blob_tuples(kw, n)
        d = descriptor_of(kw['name'], kw['key'], kw['suggested'], blobs)
        raw = d.as_json()
        return blobs, d.stream_hash, d.get_stream_hash(), d.calculate_sd_hash(), raw

    def ensures_stream_hash_is_the_stated_commitment(name, key, suggested, result):
        expected = spec_stream_hash(name, key, suggested, result[0])
        return result[1] == expected and result[2] == expected

    def ensures_sd_hash_is_sha384_of_the_json(result):
        return result[3] == hashlib.sha384(result[4]).hexdigest()

    def ensures_json_says_exactly_the_content(name, key, suggested, result):
        return json.loads(result[4]) == spec_sd_content(name, key, suggested, result[1], result[0])

    import inspect
    params = [inspect.Parameter(x, inspect.Parameter.POSITIONAL_OR_KEYWORD) for x in types]
    run.__signature__ = inspect.Signature(params)
    requires.__signature__ = inspect.Signature(params)

    def samples():
        for name, key, sugg in (('a', 'b', 'c'), ('', '', ''), ('näme.mp4', '00' * 16, 'näme.mp4'), ('ab', 'c', 'd'), ('a', 'bc', 'd')):
            for big in (0, 1):
                d = dict(name=name, key=key, suggested=sugg, tnum=n if not big else 10 ** 12, tiv='ab' * 16)
                for i in range(n):
                    d.update({f"num{i}": i if not big else -i - 7, f"len{i}": 2 * 2 ** 20 - i if big else 16 * (i + 1),
                              f"iv{i}": ('%02x' % i) * 16, f"hash{i}": ('%02x' % (i + 1)) * 48})
                yield d

    body = dict(inputs=types, requires=staticmethod(requires), run=staticmethod(run), samples=staticmethod(samples), timeout=QUERY_S,
                ensures_stream_hash_is_the_stated_commitment=staticmethod(ensures_stream_hash_is_the_stated_commitment),
                ensures_sd_hash_is_sha384_of_the_json=staticmethod(ensures_sd_hash_is_sha384_of_the_json),
                ensures_json_says_exactly_the_content=staticmethod(ensures_json_says_exactly_the_content),
                note="5 name/key/suggested-name triples x small and extreme numbers/lengths",
                __doc__=f"any descriptor object with {n} data blob(s) and a terminator, arbitrary strings and integers in every "
                        f"field: get_stream_hash / calculate_stream_hash / get_blob_hashsum / BlobInfo.as_dict compute the stated "
                        f"SHA-384 commitment, calculate_sd_hash is the SHA-384 of as_json(), and as_json() says exactly the content")
    proof("C02", f"commitments[{n}]")(type('Commitments', (), body))


for _n in (0, 1, 2):
    make_commitment_proof(_n)


# =====================================================================================================
# 7. loading a descriptor blob
# =====================================================================================================

from lbry.error import InvalidStreamDescriptorError      # noqa: E402


class SdReader:
    def __init__(self, data):
        self.data = data

    def read(self):
        return self.data


class SdReaderContext:
    def __init__(self, data):
        self.data = data

    def __enter__(self):
        return SdReader(self.data)

    def __exit__(self, a, b, c):
        return False


class SdBlob:
    """a verified descriptor blob as _from_stream_descriptor_blob sees it (duck-typed: blob_hash, reader_context, delete)"""

    def __init__(self, blob_hash, data):
        self.blob_hash = blob_hash
        self.data = data
        self.deleted = False

    def reader_context(self):
        return SdReaderContext(self.data)

    def delete(self):
        self.deleted = True


def sd_json(name_hex, key, suggested_hex, stream_hash, blob_dicts):
    return {'stream_type': 'lbryfile', 'stream_name': name_hex, 'key': key, 'suggested_file_name': suggested_hex,
            'stream_hash': stream_hash, 'blobs': blob_dicts}


def load(document, sd_hash):
    return load_raw(json.dumps(document).encode(), sd_hash)


def load_raw(raw, sd_hash):
    blob = SdBlob(sd_hash, raw)
    d = StreamDescriptor._from_stream_descriptor_blob(None, '/nowhere', blob)
    return (d.stream_name, d.key, d.suggested_file_name, d.stream_hash, d.sd_hash,
            [(b.blob_num, b.length, b.iv, b.blob_hash) for b in d.blobs])


REFUSED = {InvalidStreamDescriptorError: True, KeyError: True, TypeError: True, IndexError: True, ValueError: True,
           AttributeError: True}     # binascii.Error and UnicodeDecodeError are ValueErrors


def make_load_proof(n):
    types = dict(name_hex=TStr(), key=TStr(), suggested_hex=TStr(), stream_hash=TStr(), sd_hash=TStr())
    for i in range(n + 1):
        types.update({f"num{i}": TInt(), f"len{i}": TInt(), f"iv{i}": TStr(), f"hash{i}": TStr(), f"has{i}": TBool()})

    def document(kw):
        blobs = []
        for i in range(n + 1):
            b = {'length': kw[f"len{i}"], 'blob_num': kw[f"num{i}"], 'iv': kw[f"iv{i}"]}
            if kw[f"has{i}"]:
                b['blob_hash'] = kw[f"hash{i}"]
            blobs.append(b)
        return sd_json(kw['name_hex'], kw['key'], kw['suggested_hex'], kw['stream_hash'], blobs)

    def run(**kw):
        return load(document(kw), kw['sd_hash'])

    def ensures_terminator_and_data_blobs(result, **kw):
        ok = kw[f"len{n}"] == 0 and not kw[f"has{n}"]
        for i in range(n):
            ok = ok and kw[f"len{i}"] != 0
        return ok

    def ensures_numbered_in_order(result, **kw):
        ok = True
        for i in range(n + 1):
            ok = ok and kw[f"num{i}"] == i
        return ok

    def ensures_stream_hash_matches_content(result, **kw):
        blobs = [(kw[f"num{i}"], kw[f"len{i}"], kw[f"iv{i}"], kw[f"hash{i}"] if kw[f"has{i}"] else None) for i in range(n + 1)]
        name = binascii.unhexlify(kw['name_hex']).decode()
        suggested = binascii.unhexlify(kw['suggested_hex']).decode()
        return kw['stream_hash'] == spec_stream_hash(name, kw['key'], suggested, blobs)

    def ensures_descriptor_is_what_the_blob_says(result, **kw):
        blobs = [(kw[f"num{i}"], kw[f"len{i}"], kw[f"iv{i}"], kw[f"hash{i}"] if kw[f"has{i}"] else None) for i in range(n + 1)]
        return (result[0] == binascii.unhexlify(kw['name_hex']).decode() and result[1] == kw['key']
                and result[2] == binascii.unhexlify(kw['suggested_hex']).decode() and result[3] == kw['stream_hash']
                and result[4] == kw['sd_hash'] and result[5] == blobs)

    import inspect
    params = [inspect.Parameter(x, inspect.Parameter.POSITIONAL_OR_KEYWORD) for x in types]
    run.__signature__ = inspect.Signature(params)
    ens = [ensures_terminator_and_data_blobs, ensures_numbered_in_order, ensures_stream_hash_matches_content,
           ensures_descriptor_is_what_the_blob_says]
    for f in ens:
        f.__signature__ = inspect.Signature([inspect.Parameter('result', inspect.Parameter.POSITIONAL_OR_KEYWORD)] + params)

    def samples():
        import itertools
        name, key, sugg = 'video.mp4', '00' * 16, 'video.mp4'
        good = [(i, 2 * 2 ** 20, ('%02x' % i) * 16, ('%02x' % (i + 1)) * 48) for i in range(n)] + [(n, 0, 'ff' * 16, None)]
        sh = spec_stream_hash(name, key, sugg, good)

        def case(blobs, stream_hash=sh, name_hex=name.encode().hex(), sugg_hex=sugg.encode().hex(), k=key):
            d = dict(name_hex=name_hex, key=k, suggested_hex=sugg_hex, stream_hash=stream_hash, sd_hash='ab' * 48)
            for i, b in enumerate(blobs):
                d.update({f"num{i}": b[0], f"len{i}": b[1], f"iv{i}": b[2], f"hash{i}": b[3] or '', f"has{i}": b[3] is not None})
            return d
        yield case(good)
        yield case(good, stream_hash='')
        yield case(good, stream_hash='00' * 48)
        yield case(good, name_hex='zz')
        yield case(good, name_hex='ff')
        yield case(good, k=key[:-1] + '1')
        yield case(good, sugg_hex='61')
        for i in range(n + 1):
            for j, values in enumerate(((-1, 0, 1, i + 1, n + 1), (0, 1, 16, -1), ('', '00' * 16), (None, '', 'cd' * 48))):
                for v in values:
                    b = list(good[i])
                    b[j] = v
                    yield case(good[:i] + [tuple(b)] + good[i + 1:])
        if n == 2:
            yield case([good[1], good[0], good[2]])
            yield case([good[0], good[2], good[1]])
        # structurally inconsistent documents whose stream hash was RE-computed over the inconsistent content
        def rehashed(blobs):
            defined = all(b[3] is not None or b[1] == 0 for b in blobs)       # a non-empty entry without hash has no blob sum
            return case(blobs, stream_hash=spec_stream_hash(name, key, sugg, blobs) if defined else 'dd' * 48)
        yield rehashed([(b[0] + 1, b[1], b[2], b[3]) for b in good])                 # numbered from 1
        yield rehashed([(0, b[1], b[2], b[3]) for b in good])                         # all numbered 0
        yield rehashed([(n - b[0], b[1], b[2], b[3]) for b in good])                  # numbered backwards
        yield rehashed(good[:-1] + [(n, 0, 'ff' * 16, 'ee' * 48)])                    # terminator with a hash
        yield rehashed(good[:-1] + [(n, 16, 'ff' * 16, None)])                        # last entry not empty, no hash
        yield rehashed(good[:-1] + [(n, 16, 'ff' * 16, 'ee' * 48)])                   # no terminator at all
        if n >= 1:
            yield rehashed([(0, 0, good[0][2], good[0][3])] + good[1:])               # zero-length data blob
            yield rehashed([(0, 0, good[0][2], None)] + good[1:])                     # a terminator in the middle
            yield rehashed([good[0][:3] + ('',)] + good[1:])                          # data blob with an empty hash

    body = dict(inputs=types, run=staticmethod(run), samples=staticmethod(samples), raises=REFUSED, timeout=QUERY_S,
                note="a valid descriptor and every single-field change of it to a handful of values (numbers -1,0,1,i+1; lengths "
                     "0,1,16,-1; empty/other IV; missing/empty/other hash; empty/other stream hash; bad hex names; swapped blobs)",
                __doc__=f"_from_stream_descriptor_blob on EVERY JSON document of the descriptor shape with {n + 1} blob entries "
                        f"(arbitrary strings and integers in every field, blob_hash key present or absent per entry): if a "
                        f"descriptor is returned then the last entry is a zero-length terminator without hash, every other entry "
                        f"has a non-zero length, numbering is 0..{n} in order, the stream_hash field IS the stated commitment over "
                        f"the other fields, and the returned object says what the blob says; every other outcome is a refusal")
    for f in ens:
        body[f.__name__] = staticmethod(f)
    proof("C02", f"load[{n + 1}]")(type('Load', (), body))


for _n in (0, 1, 2):
    make_load_proof(_n)


# ---- tampering with one hash-committed field of a valid descriptor ------------------------------------------------

def spec_blob_preimage(b):
    named = b[3].encode() if b[1] != 0 else b''
    return named + str(b[0]).encode() + b[2].encode() + str(b[1]).encode()


def spec_inner_preimage(blobs):
    sums = b''
    for b in blobs:
        sums = sums + sha384(spec_blob_preimage(b))
    return sums


def spec_outer_preimage(name, key_hex, suggested, blobs):
    return binascii.hexlify(name.encode()) + key_hex.encode() + binascii.hexlify(suggested.encode()) + sha384(spec_inner_preimage(blobs))


def collision(x, y):
    """two different byte strings with the same SHA-384"""
    return x != y and sha384(x) == sha384(y)


def exhibits_collision(d1, d2):
    """descriptors (name, key, suggested, blobs): a SHA-384 collision between corresponding hash inputs of the two"""
    found = collision(spec_outer_preimage(d1[0], d1[1], d1[2], d1[3]), spec_outer_preimage(d2[0], d2[1], d2[2], d2[3])) \
        or collision(spec_inner_preimage(d1[3]), spec_inner_preimage(d2[3]))
    for b1, b2 in zip(d1[3], d2[3]):
        found = found or collision(spec_blob_preimage(b1), spec_blob_preimage(b2))
    return found


def replaced(blobs, i, j, value):
    b = blobs[i]
    nb = (value if j == 0 else b[0], value if j == 1 else b[1], value if j == 2 else b[2], value if j == 3 else b[3])
    return blobs[:i] + [nb] + blobs[i + 1:]


def tampered(kind, d, new_s, new_i):
    """the descriptor after ONE change; kind = (what, blob index)"""
    name, key, suggested, blobs = d
    what, i = kind
    if what == 'name':
        return (new_s, key, suggested, blobs)
    if what == 'suggested':
        return (name, key, new_s, blobs)
    if what == 'key':
        return (name, new_s, suggested, blobs)
    if what == 'num':
        return (name, key, suggested, replaced(blobs, i, 0, new_i))
    if what == 'length':
        return (name, key, suggested, replaced(blobs, i, 1, new_i))
    if what == 'iv':
        return (name, key, suggested, replaced(blobs, i, 2, new_s))
    if what == 'hash':
        return (name, key, suggested, replaced(blobs, i, 3, new_s))
    if what == 'swap-entries':
        return (name, key, suggested, blobs[:i] + [blobs[i + 1], blobs[i]] + blobs[i + 2:])
    if what == 'drop-terminator':
        return (name, key, suggested, blobs[:-1])
    if what == 'second-terminator':
        return (name, key, suggested, blobs + [(len(blobs), 0, new_s, None)])
    return None


def differs(kind, d, new_s, new_i):
    """the change is a change"""
    name, key, suggested, blobs = d
    what, i = kind
    if what == 'name':
        return new_s != name
    if what == 'suggested':
        return new_s != suggested
    if what == 'key':
        return new_s != key
    if what == 'num':
        return new_i != blobs[i][0]
    if what == 'length':
        return new_i != blobs[i][1]
    if what == 'iv':
        return new_s != blobs[i][2]
    if what == 'hash':
        return new_s != blobs[i][3]
    return True


def document_of(d, stream_hash):
    name, key, suggested, blobs = d
    entries = []
    for b in blobs:
        e = {'length': b[1], 'blob_num': b[0], 'iv': b[2]}
        if b[3] is not None:
            e['blob_hash'] = b[3]
        entries.append(e)
    return sd_json(binascii.hexlify(name.encode()).decode(), key, binascii.hexlify(suggested.encode()).decode(), stream_hash, entries)


def tamper_kinds(n):
    kinds = [('name', 0), ('suggested', 0), ('key', 0)]
    for i in range(n + 1):
        kinds += [('num', i), ('length', i), ('iv', i)]
        kinds += [('hash', i)]
    for i in range(n):
        kinds.append(('swap-entries', i))
    kinds += [('drop-terminator', 0), ('second-terminator', 0)]
    return kinds


def make_tamper_proof(n):
    types = dict(kind=TOneOf(*[TConst(k) for k in tamper_kinds(n)]), new_s=TStr(), new_i=TInt(),
                 name=TStr(), key=TStr(), suggested=TStr())
    for i in range(n):
        types.update({f"len{i}": TInt(1, 2 * 2 ** 20), f"iv{i}": TStr(), f"hash{i}": TStr()})
    types.update(tiv=TStr())

    def original(kw):
        blobs = [(i, kw[f"len{i}"], kw[f"iv{i}"], kw[f"hash{i}"]) for i in range(n)] + [(n, 0, kw['tiv'], None)]
        return (kw['name'], kw['key'], kw['suggested'], blobs)

    def requires(**kw):
        ok = True
        for i in range(n):
            ok = ok and len(kw[f"hash{i}"]) > 0
        return ok and differs(kw['kind'], original(kw), kw['new_s'], kw['new_i'])

    def run(**kw):
        d = original(kw)
        committed = spec_stream_hash(d[0], d[1], d[2], d[3])
        d2 = tampered(kw['kind'], d, kw['new_s'], kw['new_i'])
        return load(document_of(d2, committed), 'ab' * 48)

    def ensures_accepted_only_with_a_sha384_collision(result, **kw):
        d = original(kw)
        return exhibits_collision(d, tampered(kw['kind'], d, kw['new_s'], kw['new_i']))

    import inspect
    params = [inspect.Parameter(x, inspect.Parameter.POSITIONAL_OR_KEYWORD) for x in types]
    run.__signature__ = inspect.Signature(params)
    requires.__signature__ = inspect.Signature(params)
    ensures_accepted_only_with_a_sha384_collision.__signature__ = inspect.Signature(
        [inspect.Parameter('result', inspect.Parameter.POSITIONAL_OR_KEYWORD)] + params)

    def samples():
        for kind in tamper_kinds(n):
            for new_s in ('', 'x', 'video.mp4 ', '01' * 48, '00' * 16, 'AB' * 16):
                for new_i in (-1, 0, 1, 2, 3, 17, 2 * 2 ** 20):
                    d = dict(kind=kind, new_s=new_s, new_i=new_i, name='video.mp4', key='00' * 15 + '01', suggested='video.mp4',
                             tiv='ab' * 16)
                    for i in range(n):
                        d.update({f"len{i}": 16 * (i + 1), f"iv{i}": ('%02x' % i) * 16, f"hash{i}": ('%02x' % (i + 1)) * 48})
                    yield d

    body = dict(inputs=types, requires=staticmethod(requires), run=staticmethod(run), samples=staticmethod(samples), raises=REFUSED,
                timeout=QUERY_S, ensures_accepted_only_with_a_sha384_collision=staticmethod(ensures_accepted_only_with_a_sha384_collision),
                note="every kind of change x 6 replacement strings x 7 replacement integers on one valid descriptor",
                __doc__=f"a valid descriptor with {n} data blob(s) (any strings, lengths) whose stream_hash field is the stated "
                        f"commitment, after ONE change (stream name, suggested name, key; number, length, IV or hash of any entry; "
                        f"two entries swapped; terminator dropped or doubled) and the stream_hash "
                        f"field left as it was: _from_stream_descriptor_blob refuses it, or else the two descriptors exhibit a "
                        f"SHA-384 collision (different hash inputs, same digest)")
    proof("C02", f"tamper[{n}]")(type('Tamper', (), body))


for _n in (1, 2):
    make_tamper_proof(_n)


# ---- structure checks when the stream hash HAS been recomputed over the (possibly inconsistent) content -----------------------

def make_rehashed_proof(n):
    types = dict(name=TStr(), key=TStr(), suggested=TStr())
    for i in range(n + 1):
        types.update({f"num{i}": TInt(), f"len{i}": TInt(), f"iv{i}": TStr(), f"hash{i}": TStr(), f"has{i}": TBool()})

    def entries(kw):
        return [(kw[f"num{i}"], kw[f"len{i}"], kw[f"iv{i}"], kw[f"hash{i}"] if kw[f"has{i}"] else None) for i in range(n + 1)]

    def requires(**kw):
        ok = True
        for i in range(n + 1):
            ok = ok and (kw[f"has{i}"] or kw[f"len{i}"] == 0)     # the commitment is defined (a non-empty entry names a blob)
        return ok

    def run(**kw):
        blobs = entries(kw)
        d = (kw['name'], kw['key'], kw['suggested'], blobs)
        return load(document_of(d, spec_stream_hash(kw['name'], kw['key'], kw['suggested'], blobs)), 'ab' * 48)

    def ensures_terminator_and_data_blobs(result, **kw):
        ok = kw[f"len{n}"] == 0 and not kw[f"has{n}"]
        for i in range(n):
            ok = ok and kw[f"len{i}"] != 0
        return ok

    def ensures_numbered_in_order(result, **kw):
        ok = True
        for i in range(n + 1):
            ok = ok and kw[f"num{i}"] == i
        return ok

    def refusal_is_justified(**kw):
        """a document is refused only if its structure is inconsistent (the hash is right by construction)"""
        ok = kw[f"len{n}"] == 0 and not kw[f"has{n}"]
        for i in range(n):
            ok = ok and kw[f"len{i}"] != 0
        for i in range(n + 1):
            ok = ok and kw[f"num{i}"] == i
        return not ok

    def names_no_blob(**kw):
        """a non-empty entry whose blob_hash is the empty string (KeyError: such an entry has no blob sum)"""
        found = False
        for i in range(n + 1):
            found = found or (kw[f"len{i}"] != 0 and kw[f"hash{i}"] == '')
        return found

    import inspect
    params = [inspect.Parameter(x, inspect.Parameter.POSITIONAL_OR_KEYWORD) for x in types]
    run.__signature__ = inspect.Signature(params)
    requires.__signature__ = inspect.Signature(params)
    refusal_is_justified.__signature__ = inspect.Signature(params)
    names_no_blob.__signature__ = inspect.Signature(params)
    for f in (ensures_terminator_and_data_blobs, ensures_numbered_in_order):
        f.__signature__ = inspect.Signature([inspect.Parameter('result', inspect.Parameter.POSITIONAL_OR_KEYWORD)] + params)

    def samples():
        import itertools
        for nums in itertools.product((0, 1, 2), repeat=n + 1):
            for lens in itertools.product((0, 16), repeat=n + 1):
                for has in itertools.product((False, True), repeat=n + 1):
                    d = dict(name='n', key='00' * 16, suggested='n')
                    for i in range(n + 1):
                        d.update({f"num{i}": nums[i], f"len{i}": lens[i], f"iv{i}": '%02x' % i * 16, f"hash{i}": '%02x' % (i + 1) * 48,
                                  f"has{i}": has[i]})
                    yield d

    body = dict(inputs=types, requires=staticmethod(requires), run=staticmethod(run), samples=staticmethod(samples),
                raises={InvalidStreamDescriptorError: refusal_is_justified, KeyError: names_no_blob},
                timeout=QUERY_S, ensures_terminator_and_data_blobs=staticmethod(ensures_terminator_and_data_blobs),
                ensures_numbered_in_order=staticmethod(ensures_numbered_in_order),
                note="every combination of numbers 0..2, lengths 0/16 and hash present/absent over the entries",
                __doc__=f"documents with {n + 1} entries whose stream_hash field was re-computed over whatever the entries say (what "
                        f"someone who edits a descriptor would do): only the structural checks can refuse them — a returned "
                        f"descriptor has a zero-length hash-less terminator, non-empty data blobs and numbering 0..{n}; and the "
                        f"only refusals are InvalidStreamDescriptorError, raised only when that structure is violated, and "
                        f"KeyError for a non-empty entry with an empty blob_hash (a consistent document is accepted)")
    proof("C02", f"load.rehashed[{n + 1}]")(type('LoadRehashed', (), body))


for _n in (0, 1, 2):
    make_rehashed_proof(_n)


@proof("C02", "load.falsy-stream-hash")
class LoadFalsyStreamHash:
    """an otherwise consistent document (one data blob and a terminator, any strings / length) whose stream_hash field is
    empty, null, 0 or false is never accepted (the commitment is a 96-digit hex string)"""
    inputs = dict(stream_hash=TOneOf(TConst(''), TNone(), TConst(0), TConst(False)), name=TStr(), key=TStr(), suggested=TStr(),
                  len0=TInt(1, 2 * 2 ** 20), iv0=TStr(), hash0=TStr(), tiv=TStr())
    timeout = QUERY_S
    note = "the four falsy values on one consistent document"

    def requires(hash0):
        return len(hash0) > 0

    def run(stream_hash, name, key, suggested, len0, iv0, hash0, tiv):
        return load(document_of((name, key, suggested, [(0, len0, iv0, hash0), (1, 0, tiv, None)]), stream_hash), 'ab' * 48)

    def ensures_never_accepted(result):
        return False

    raises = REFUSED

    def samples():
        for sh in ('', None, 0, False):
            yield dict(stream_hash=sh, name='a.mp4', key='00' * 16, suggested='a.mp4', len0=32, iv0='01' * 16, hash0='aa' * 48,
                       tiv='02' * 16)


# ---- BOUNDED stand-in: arbitrary bytes offered as a descriptor blob -------------------------------------------------------

def consistent(doc):
    """the statement's notion of a consistent descriptor document (terminator, non-empty data blobs, numbering, stream hash)"""
    blobs = doc['blobs']
    ok = blobs[-1]['length'] == 0 and 'blob_hash' not in blobs[-1]
    for i, b in enumerate(blobs):
        ok = ok and b['blob_num'] == i
    for b in blobs[:-1]:
        ok = ok and b['length'] != 0
    entries = [(b['blob_num'], b['length'], b['iv'], b.get('blob_hash')) for b in blobs]
    return ok and doc['stream_hash'] == spec_stream_hash(binascii.unhexlify(doc['stream_name']).decode(), doc['key'],
                                                         binascii.unhexlify(doc['suggested_file_name']).decode(), entries)


def _raw_documents():
    name, key = 'a b.mp4', '0f' * 16
    blobs = [(0, 2 * 2 ** 20, '01' * 16, 'aa' * 48), (1, 32, '02' * 16, 'bb' * 48), (2, 0, '03' * 16, None)]
    good = document_of((name, key, name, blobs), spec_stream_hash(name, key, name, blobs))
    text = json.dumps(good, sort_keys=True)
    yield text.encode()
    yield json.dumps(good).encode()
    yield json.dumps(good, indent=2).encode()
    yield (' ' + text + '\n').encode()
    # not JSON / not the shape
    for raw in (b'', b' ', b'{', b'nul', b'null', b'[]', b'{}', b'1', b'"x"', b'\xff\xfe', text.encode()[:-1], text.encode()[1:],
                text.encode() + b'}', text.encode('utf-16'), b'{"blobs": []}', b'{"blobs": {}}', b'{"blobs": [[]]}',
                b'{"blobs": [{"length": 0}]}', b'{"blobs": [{"length": 0, "blob_num": 0, "iv": "00"}]}'):
        yield raw
    # one JSON value replaced by a value of another type or a near miss
    import copy
    odd = [None, True, False, 0, 1, -1, 0.0, 1.5, '', '0', 'zz', [], {}, [0], 'A' * 96]
    for k in ('stream_name', 'key', 'suggested_file_name', 'stream_hash', 'blobs', 'stream_type'):
        for v in odd:
            d = copy.deepcopy(good)
            d[k] = v
            yield json.dumps(d).encode()
        d = copy.deepcopy(good)
        del d[k]
        yield json.dumps(d).encode()
    for i in range(3):
        for k in ('length', 'blob_num', 'iv', 'blob_hash'):
            for v in odd:
                d = copy.deepcopy(good)
                d['blobs'][i][k] = v
                yield json.dumps(d).encode()
            d = copy.deepcopy(good)
            d['blobs'][i].pop(k, None)
            yield json.dumps(d).encode()
    for perm in ([1, 0, 2], [0, 2, 1], [2, 0, 1], [0, 1], [0, 2], [2], [0, 1, 2, 2], [0, 0, 1, 2], [0, 1, 1, 2]):
        d = copy.deepcopy(good)
        d['blobs'] = [copy.deepcopy(good['blobs'][j]) for j in perm]
        yield json.dumps(d).encode()
        for j, b in enumerate(d['blobs']):
            b['blob_num'] = j          # renumbered after the permutation
        yield json.dumps(d).encode()
    # duplicate key: the later value wins in Python's json
    yield text.replace('"stream_hash"', '"stream_hash": "", "stream_hash"', 1).encode()
    yield text.replace('{"blob_hash"', '{"blob_hash": "cc", "blob_hash"', 1).encode()


@proof("C02", "load.arbitrary-bytes")
class LoadRaw:
    """BOUNDED stand-in (run-time contract check only: json.loads on arbitrary text has no model).  Bytes offered as a
    descriptor blob are refused (any exception) or, if a descriptor is returned, the document they decode to is
    consistent in the statement's sense."""
    bounded_only = True
    note = "one valid 3-entry descriptor in 4 spellings + 19 non-JSON / wrong-shape texts + every field of the document and of " \
           "each entry replaced by 15 values of other types / near misses or removed + 9 permutations/duplications of entries " \
           "(with and without renumbering) + 2 duplicate-key texts"
    inputs = dict(raw=TBytes())

    def run(raw):
        got = load_raw(raw, 'ab' * 48)
        return got, json.loads(raw.decode())

    def ensures_accepted_document_is_consistent(result):
        return consistent(result[1])

    raises = {Exception: True}

    def samples():
        for raw in _raw_documents():
            yield dict(raw=raw)


@proof("C02", "file_reader.more-chunks")
class ManyChunks:
    """BOUNDED stand-in for chunk counts above 3 (the deductive proofs unroll 1..3 chunks): publish and decrypt 4- and 5-chunk
    files, sizes on both sides of the chunk boundary; also: the published descriptor blob, loaded back with
    _from_stream_descriptor_blob, is accepted and gives the same descriptor"""
    bounded_only = True
    note = "file sizes 1, CHUNK, CHUNK+1, 3*CHUNK+1, 4*CHUNK-1, 4*CHUNK, 4*CHUNK+1, 4*(CHUNK+1), 5*CHUNK"
    inputs = dict(size=TInt(1, 5 * CHUNK))

    async def run(size):
        data = (bytes(range(256)) * (size // 256 + 1))[:size]
        k = (size + CHUNK - 1) // CHUNK
        r = await publish('big.bin', bytes(range(16)), [bytes([j + 1]) * 16 for j in range(k + 1)], [data])
        key = binascii.unhexlify(r['key'])
        plain = b''
        for b, stored in zip(r['blobs'][:-1], r['stored']):
            plain = plain + spec_decrypt(stored, key, binascii.unhexlify(b[2]))
        got = load_raw(r['sd_bytes'], r['sd_hash'])
        same = got == (r['name'], r['key'], r['suggested'], r['stream_hash'], r['sd_hash'], r['blobs'])
        return plain == data, [len(s) for s in r['stored']], [b[0] for b in r['blobs']], k, same

    def ensures_roundtrip(result):
        return result[0]

    def ensures_published_descriptor_loads_back(result):
        return result[4]

    def ensures_blob_sizes_and_numbers(result):
        return all(0 < n <= 2 * 2 ** 20 for n in result[1]) and len(result[1]) == result[3] and result[2] == list(range(result[3] + 1))

    def samples():
        for size in (1, CHUNK, CHUNK + 1, 3 * CHUNK + 1, 4 * CHUNK - 1, 4 * CHUNK, 4 * CHUNK + 1, 4 * (CHUNK + 1), 5 * CHUNK):
            yield dict(size=size)


TRUSTED = [
    "file system (os.stat, os.path.isdir/isfile, open/read/seek/write in binary mode): a map from path strings to byte strings; "
    "a file written and closed is read back unchanged; st_size is the length; read(n) at offset o returns content[o:o+n]; two "
    "paths that are not literally the same string name different files",
    "os.path.join / basename / splitext: POSIX definitions (join: absolute second component wins, else one '/' between; "
    "basename: what follows the last '/'; splitext: root+ext == path, ext is empty or the last '.' of the last component with "
    "what follows, not split off when only dots precede it)",
    "asyncio: the engine's cooperative model (pyvc.pymodels: FIFO ready queue, callbacks of a finished future run before a "
    "coroutine waiting for their effect resumes, run_in_executor completes); time-outs never fire; time.time() is a positive number",
    "cryptography: Cipher(AES(key), CBC(iv)).encryptor()/decryptor() and PKCS7(128).padder()/unpadder() are modelled through the "
    "concatenation update(...)+finalize() only: AES-CBC is length preserving on whole blocks and decrypt(key, iv, encrypt(key, iv, "
    "x)) == x (ValueError on key sizes other than 16/24/32, IV size other than 16, partial blocks); len(pad(x)) == "
    "(len(x)//16+1)*16, unpad(pad(x)) == x, unpad raises ValueError on anything that is not a padded string",
    "hashlib.sha384 is a function of the bytes fed (uninterpreted, 48 bytes); hexlify/unhexlify are inverse, two lowercase hex "
    "digits per byte; str.encode()/bytes.decode() (utf-8) are inverse on valid input",
    "json: dumps (default separators, sort_keys honoured) is a deterministic function of the value, and loads(dumps(v)) == v for "
    "values built from str, int, None, list and dict with str keys; nothing else about the text is assumed",
    "re.sub(P, '', s) for the real RE_ILLEGAL_FILENAME_CHARS: the result contains no character of the leading character-class "
    "alternatives `[<>:\"/\\|?*]+` and `[\\x00-\\x1F]+` (classes read from the compiled pattern with CPython's own parser; argument: "
    "left-to-right scan, the alternatives are tried in order at every position not yet consumed, none of them matches the "
    "empty string, the replacement is empty) and is not longer than s",
    "SHA-384 collision resistance is NOT assumed anywhere: the tamper proofs conclude 'refused or an explicit collision'",
]
NOT_DECIDED = [
    "files of more than 3 chunks deductively (file_reader's loop and create_stream's loop are unrolled; 4 and 5 chunks only in "
    "the bounded stand-in); empty files (outside the statement)",
    "publishing when a blob of the same name already exists in the blob directory, in particular an IV sequence that repeats an "
    "IV for two equal chunks: create_stream then raises OSError('File already exists') — observed natively, nothing wrong is "
    "written; the environment model assumes distinct blobs have distinct names",
    "bytes offered as a descriptor blob that are not json.dumps of a document of the descriptor shape (not JSON, other JSON "
    "types, floats/booleans in integer fields, duplicate keys): bounded stand-in load.arbitrary-bytes only",
    "changes of SEVERAL committed fields at once: the stream-hash input concatenates name/key/suggested name and hash/number/"
    "IV/length without delimiters, so bytes can be moved between adjacent fields without changing the stream hash (the sd hash "
    "still changes); only single-field changes, swaps of whole entries and a dropped/doubled terminator are decided",
    "that accepted-after-tampering is impossible outright: it is reduced to a SHA-384 collision (hypothesis: none is found)",
    "the old_sort JSON form, recover(), BlobFile reader contexts and blob deletion (not in the statement)",
]
ASSUMPTIONS = [
    "create_stream proofs: key of 16 bytes, IVs of 16 bytes (what create_stream itself generates), file name of 1..60 code "
    "points without '/' and NUL and not '.'/'..' (names a POSIX directory can hold); the blob directory exists and is empty",
    "no two blobs of one stream coincide (see NOT_DECIDED)",
    "commitments / load / tamper proofs: 0..2 data blobs plus terminator, every field an arbitrary string / integer",
    "blob proofs: plaintext of at most 2 MiB - 1 bytes (what file_reader hands over), AES key of 16, 24 or 32 bytes",
]
