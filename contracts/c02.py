"""C02 — work in progress (environment model + chunking)"""
import asyncio
import json
import os
import re
import shutil
import tempfile
import time
import hashlib
import binascii
import z3
from pyvc.api import *
from pyvc.speclib import implies, forall, matches
from pyvc.values import *
from pyvc.ops import lift, unlift, exc, mk_int, mk_bool, iterm, mk_like, eq_term, as_int_term, is_numeric
from pyvc.segs import VSegs, to_vbytes
from cryptography.hazmat.primitives.ciphers import Cipher, modes
from cryptography.hazmat.primitives.ciphers.algorithms import AES
from cryptography.hazmat.primitives.padding import PKCS7
from lbry.blob import MAX_BLOB_SIZE
from lbry.blob.blob_file import encrypt_blob_bytes, decrypt_blob_bytes, AbstractBlob, BlobFile, BlobBuffer
from lbry.blob.blob_info import BlobInfo
from lbry.stream import descriptor as D
from lbry.stream.descriptor import StreamDescriptor, file_reader, sanitize_file_name

CHUNK = MAX_BLOB_SIZE - 1          # plaintext bytes per data blob (statement: "chunking at MAX_BLOB_SIZE-1 plaintext bytes")


# =====================================================================================================
# Environment model (symbolic side only).  Natively the real os / asyncio / open run against a scratch
# directory; symbolically the handlers below stand for them.  Everything relied upon is listed in TRUSTED.
# =====================================================================================================

def _term(v):
    """flat z3 String term of a bytes/str value"""
    if isinstance(v, VSegs):
        v = to_vbytes(v)
    return v.term()


def _pieces(v):
    """bytes value -> list of z3 String terms whose concatenation is the value (top-level str.++ flattened)"""
    if isinstance(v, VSegs):
        out = []
        for s in v.segs:
            from pyvc.segs import seg_term
            out += _flatten(seg_term(s))
        return out
    return _flatten(v.term())


def _flatten(t):
    if z3.is_app(t) and t.decl().kind() == z3.Z3_OP_SEQ_CONCAT:
        out = []
        for c in t.children():
            out += _flatten(c)
        return out
    if z3.is_string_value(t) and t.as_string() == '':
        return []
    return [t]


def _concat(ts):
    if not ts:
        return mk_str('')
    return z3.Concat(*ts) if len(ts) > 1 else ts[0]


def _sum_len(ts):
    n = z3.IntVal(0)
    for t in ts:
        n = n + z3.Length(t)
    return z3.simplify(n)


def _vfs(st):
    return st.ghost.get('c02.vfs', ())


def _vfs_lookup(interp, st, path):
    """-> index of the entry whose path is (syntactically) this path, or None.  Paths that are not
    syntactically equal are *assumed* to name different files (recorded assumption)."""
    for i, (p, content) in enumerate(_vfs(st)):
        r = eq_term(p, path)
        if not isinstance(r, bool):
            r = z3.simplify(r)
            if z3.is_true(r):
                r = True
            elif z3.is_false(r):
                r = False
        if r is True:
            return i
        if r is not False:
            interp.assumptions.add("environment: two files whose names are not literally the same string are different files "
                                   "(in particular: different blobs have different SHA-384 names)")
            st.assume(z3.Not(r))
    return None


def _vfs_put(st, path, content):
    entries = list(_vfs(st))
    for i, (p, c) in enumerate(entries):
        r = eq_term(p, path)
        if r is True or (not isinstance(r, bool) and z3.is_true(z3.simplify(r))):
            entries[i] = (p, content)
            break
    else:
        entries.append((path, content))
    st.ghost['c02.vfs'] = tuple(entries)


_DIR = 'dir'        # content marker of a directory


class _StatResult:
    def __init__(self, st_size):
        self.st_size = st_size


class _VFile:
    """an open file of the modelled file system (binary mode, sequential + seek)"""

    def __init__(self, path, content, writable):
        self.path = path
        self.content = content
        self.pos = 0
        self.writable = writable

    def __enter__(self):
        return self

    def __exit__(self, a, b, c):
        return False

    def close(self):
        return None

    def seek(self, pos):
        self.pos = pos
        return pos

    def tell(self):
        return self.pos

    def read(self, n=-1):
        data = _vfile_slice(self.content, self.pos, n)
        self.pos = self.pos + len(data)
        return data

    def write(self, data):
        self.content = self.content + data
        _vfile_store(self.path, self.content)
        return len(data)


def _vfile_slice(content, pos, n):      # symbolic side only (see handler)
    raise NotImplementedError


def _vfile_store(path, content):        # symbolic side only (see handler)
    raise NotImplementedError


@model_for(_vfile_store)
def _m_vfile_store(interp, st, args, kwargs):
    _vfs_put(st, args[0], args[1])
    yield st, VNone


@model_for(_vfile_slice)
def _m_vfile_slice(interp, st, args, kwargs):
    """content[pos:pos+n] (n < 0: to the end).  Served structurally when pos and n line up with the pieces the
    content was built from (then the result is literally those pieces), else as an SMT substring."""
    content, pos, n = args
    ts = _pieces(content)
    p = iterm(as_int_term(pos))
    # piece boundary at pos?
    start = None
    for i in range(len(ts) + 1):
        if st.entails(p == _sum_len(ts[:i])):
            start = i
            break
    nn = as_int_term(n)
    if start is not None:
        if isinstance(nn, int) and nn < 0:
            yield st, VBytes(_concat(ts[start:]))
            return
        for j in range(start, len(ts) + 1):
            if st.entails(iterm(nn) == _sum_len(ts[start:j])):
                yield st, VBytes(_concat(ts[start:j]))
                return
        if st.entails(iterm(nn) >= _sum_len(ts[start:])):
            yield st, VBytes(_concat(ts[start:]))
            return
    flat = _concat(ts)
    ln = z3.Length(flat)
    if isinstance(nn, int) and nn < 0:
        want = ln - p
    else:
        want = z3.If(iterm(nn) < ln - p, iterm(nn), ln - p)
    want = z3.If(want > 0, want, z3.IntVal(0))
    yield st, VBytes(z3.SubString(flat, p, want))


@model_for(open)
def _m_open(interp, st, args, kwargs):
    path = args[0]
    mode = unlift(args[1]) if len(args) > 1 else unlift(kwargs.get('mode', VStr('r')))
    interp.builtins_used.add(f"open(mode={mode!r}) [modelled file system]")
    i = _vfs_lookup(interp, st, path)
    if mode == 'rb':
        if i is None or _vfs(st)[i][1] is _DIR:
            yield st, exc(FileNotFoundError, "No such file or directory")
            return
        yield from interp.instantiate(st, _VFile, [path, _vfs(st)[i][1], VBool(False)], {})
        return
    if mode == 'wb':
        if i is not None and _vfs(st)[i][1] is _DIR:
            yield st, exc(IsADirectoryError, "Is a directory")
            return
        _vfs_put(st, path, VBytes(b''))
        yield from interp.instantiate(st, _VFile, [path, VBytes(b''), VBool(True)], {})
        return
    raise Unsupported(f"open mode {mode!r}")


@model_for(os.stat)
def _m_stat(interp, st, args, kwargs):
    i = _vfs_lookup(interp, st, args[0])
    if i is None:
        yield st, exc(FileNotFoundError, "No such file or directory")
        return
    c = _vfs(st)[i][1]
    size = VInt(4096) if c is _DIR else mk_int(z3.Length(_term(c)))
    yield from interp.instantiate(st, _StatResult, [size], {})


@model_for(os.path.isdir)
def _m_isdir(interp, st, args, kwargs):
    if args[0] is VNone:
        yield st, exc(TypeError, "stat: path should be string, bytes, os.PathLike or integer, not NoneType")
        return
    i = _vfs_lookup(interp, st, args[0])
    yield st, VBool(i is not None and _vfs(st)[i][1] is _DIR)


@model_for(os.path.isfile)
def _m_isfile(interp, st, args, kwargs):
    i = _vfs_lookup(interp, st, args[0])
    yield st, VBool(i is not None and _vfs(st)[i][1] is not _DIR)


class _Loop:
    """the event loop as the code under contract uses it: work handed to an executor or wrapped in a task has
    completed by the time the awaiting coroutine continues"""

    def run_in_executor(self, executor, fn, *args):
        return fn(*args)

    def create_task(self, coro):
        return _Task(coro)

    def is_closed(self):
        return False


class _Task:
    def __init__(self, value):
        self.value = value

    def add_done_callback(self, cb):
        cb(self)

    def done(self):
        return True


@model_for(asyncio.get_event_loop)
def _m_get_event_loop(interp, st, args, kwargs):
    yield from interp.instantiate(st, _Loop, [], {})



class _Event:
    """asyncio.Event without a scheduler: waiting on an event that is not set would block for ever"""

    def __init__(self):
        self.flag = False

    def set(self):
        self.flag = True

    def clear(self):
        self.flag = False

    def is_set(self):
        return self.flag

    async def wait(self):
        if not self.flag:
            raise _WouldBlock("await on an event nobody will set")
        return True


class _WouldBlock(Exception):
    """the modelled coroutine would never be resumed (dead lock)"""


class _Future:
    """asyncio.Future as HashBlobWriter / AbstractBlob use it; done-callbacks run as soon as the result is set
    (natively: before the coroutine waiting for their effect is resumed)"""

    def __init__(self):
        self.state = 'pending'
        self.value = None
        self.callbacks = []

    def add_done_callback(self, cb):
        if self.state == 'pending':
            self.callbacks.append(cb)
        else:
            cb(self)

    def _fire(self):
        cbs = self.callbacks
        self.callbacks = []
        for cb in cbs:
            cb(self)

    def done(self):
        return self.state != 'pending'

    def cancelled(self):
        return self.state == 'cancelled'

    def cancel(self):
        if self.state != 'pending':
            return False
        self.state = 'cancelled'
        self._fire()
        return True

    def set_result(self, value):
        if self.state != 'pending':
            raise asyncio.InvalidStateError('invalid state')
        self.state = 'result'
        self.value = value
        self._fire()

    def set_exception(self, err):
        if self.state != 'pending':
            raise asyncio.InvalidStateError('invalid state')
        self.state = 'exception'
        self.value = err
        self._fire()

    def exception(self):
        if self.state == 'cancelled':
            raise asyncio.CancelledError()
        if self.state == 'pending':
            raise asyncio.InvalidStateError('Exception is not set.')
        if self.state == 'exception':
            return self.value
        return None

    def result(self):
        if self.state == 'cancelled':
            raise asyncio.CancelledError()
        if self.state == 'pending':
            raise asyncio.InvalidStateError('Result is not ready.')
        if self.state == 'exception':
            raise self.value
        return self.value


@model_for(asyncio.Event)
def _m_event(interp, st, args, kwargs):
    yield from interp.instantiate(st, _Event, [], {})


@model_for(asyncio.Future)
def _m_future(interp, st, args, kwargs):
    yield from interp.instantiate(st, _Future, [], {})


@model_for(time.time)
def _m_time(interp, st, args, kwargs):
    t = z3.Int(fresh_name('now'))
    st.assume(t > 0)
    yield st, VInt(t)


# ---- os.path on symbolic strings (POSIX) ----------------------------------------------------------------

def _no(ch):
    """regular language of strings without character ch"""
    return z3.Star(z3.Intersect(z3.AllChar(z3.ReSort(z3.StringSort())), z3.Complement(z3.Re(mk_str(ch)))))


@model_for(os.path.join)
def _m_join(interp, st, args, kwargs):
    if all(a.concrete for a in args):
        yield st, VStr(os.path.join(*[unlift(a) for a in args]))
        return
    if len(args) != 2 or not args[0].concrete or not isinstance(args[1], VStr):
        raise Unsupported("os.path.join model: (concrete directory, symbolic name) only")
    a, b = unlift(args[0]), args[1].term()
    sep = '' if (a == '' or a.endswith('/')) else '/'
    if z3.is_app(b) and b.decl().name() == 'hexlify':
        # hexlify(...) consists of hex digits (its contract): never an absolute path
        yield st, VStr(z3.simplify(z3.Concat(mk_str(a + sep), b)))
        return
    absolute = z3.PrefixOf(mk_str('/'), b)
    yield from interp.alts(st, [(z3.Not(absolute), VStr(z3.simplify(z3.Concat(mk_str(a + sep), b)))), (absolute, args[1])])


@model_for(os.path.basename)
def _m_basename(interp, st, args, kwargs):
    p = args[0]
    if p.concrete:
        yield st, VStr(os.path.basename(unlift(p)))
        return
    pieces = _flatten(p.term())
    if len(pieces) == 2 and z3.is_string_value(pieces[0]) and pieces[0].as_string().endswith('/') and \
            _pc_says(st, z3.Not(z3.Contains(pieces[1], mk_str('/')))):
        yield st, VStr(pieces[1])       # "<dir>/" + name, where the path condition says name has no '/'
        return
    head, tail = z3.String(fresh_name('dirname')), z3.String(fresh_name('basename'))
    st.assume(p.term() == z3.Concat(head, tail))
    st.assume(z3.InRe(tail, _no('/')))
    st.assume(z3.Or(head == mk_str(''), z3.SuffixOf(mk_str('/'), head)))
    yield st, VStr(tail)


def _conjuncts(t):
    if z3.is_and(t):
        for c in t.children():
            yield from _conjuncts(c)
    else:
        yield t


def _pc_says(st, fact):
    """the fact is literally one of the conjuncts of the path condition (syntactic, after simplification)"""
    f = z3.simplify(fact)
    for p in st.pc:
        for c in _conjuncts(p):
            if c.eq(fact) or z3.simplify(c).eq(f):
                return True
    return False


@model_for(os.path.splitext)
def _m_splitext(interp, st, args, kwargs):
    """(root, ext): root + ext == p; ext is empty or a '.' followed by characters other than '.' and '/';
    a non-empty ext is split off only when something other than dots precedes it in the last component"""
    p = args[0]
    if p.concrete:
        r = os.path.splitext(unlift(p))
        yield st, VTuple([VStr(r[0]), VStr(r[1])])
        return
    root, ext = z3.String(fresh_name('root')), z3.String(fresh_name('ext'))
    anyc = z3.AllChar(z3.ReSort(z3.StringSort()))
    not_dot_sep = z3.Star(z3.Intersect(anyc, z3.Complement(z3.Union(z3.Re(mk_str('.')), z3.Re(mk_str('/'))))))
    dots = z3.Star(z3.Re(mk_str('.')))
    dirpart = z3.Option(z3.Concat(z3.Full(z3.ReSort(z3.StringSort())), z3.Re(mk_str('/'))))
    st.assume(p.term() == z3.Concat(root, ext))
    st.assume(z3.InRe(ext, z3.Option(z3.Concat(z3.Re(mk_str('.')), not_dot_sep))))
    # ext != '' => the last component of root is not made of dots only
    st.assume(z3.Implies(ext != mk_str(''), z3.Not(z3.InRe(root, z3.Concat(dirpart, dots)))))
    # ext == '' => the last component of p is dots followed by no further dot
    st.assume(z3.Implies(ext == mk_str(''), z3.InRe(root, z3.Concat(dirpart, dots, not_dot_sep))))
    yield st, VTuple([VStr(root), VStr(ext)])


# ---- AES-CBC and PKCS7 (cryptography): uninterpreted, with the inverse and length laws ------------------------

_S = z3.StringSort()
AES_ENC = z3.Function('aes_cbc_enc', _S, _S, _S, _S)       # key, iv, block-aligned plaintext -> ciphertext
AES_DEC = z3.Function('aes_cbc_dec', _S, _S, _S, _S)
PAD = z3.Function('pkcs7_pad', _S, _S)
UNPAD = z3.Function('pkcs7_unpad', _S, _S)
UNPAD_OK = z3.Function('pkcs7_valid', _S, z3.BoolSort())


class _AES:
    def __init__(self, key):
        if len(key) not in (16, 24, 32):
            raise ValueError("Invalid key size for AES.")
        self.key = key


class _CBC:
    def __init__(self, iv):
        self.iv = iv


class _Cipher:
    def __init__(self, algorithm, mode, backend=None):
        if len(mode.iv) != 16:
            raise ValueError("Invalid IV size for CBC.")
        self.algorithm = algorithm
        self.mode = mode

    def encryptor(self):
        return _CipherContext(self.algorithm.key, self.mode.iv, True)

    def decryptor(self):
        return _CipherContext(self.algorithm.key, self.mode.iv, False)


class _CipherContext:
    """only the concatenation update(...) + finalize() is modelled: AES-CBC of the whole input, which must be a
    whole number of blocks (ValueError from finalize otherwise)"""

    def __init__(self, key, iv, enc):
        self.key = key
        self.iv = iv
        self.enc = enc
        self.buf = b''

    def update(self, data):
        self.buf = self.buf + data
        return b''

    def finalize(self):
        if len(self.buf) % 16 != 0:
            raise ValueError("The length of the provided data is not a multiple of the block length.")
        return _aes_cbc(self.key, self.iv, self.buf, self.enc)


class _PKCS7:
    def __init__(self, block_size):
        if block_size != 128:
            raise _ModelLimit("PKCS7 block size other than 128 bits")
        self.block_size = block_size

    def padder(self):
        return _PadContext(True)

    def unpadder(self):
        return _PadContext(False)


class _ModelLimit(Exception):
    """the environment model was used outside what it describes"""


class _PadContext:
    """only the concatenation update(...) + finalize() is modelled"""

    def __init__(self, pad):
        self.pad = pad
        self.buf = b''

    def update(self, data):
        self.buf = self.buf + data
        return b''

    def finalize(self):
        if self.pad:
            return _pkcs7_pad(self.buf)
        return _pkcs7_unpad(self.buf)


def _aes_cbc(key, iv, data, enc):       # symbolic side only
    raise NotImplementedError


def _pkcs7_pad(data):                   # symbolic side only
    raise NotImplementedError


def _pkcs7_unpad(data):                 # symbolic side only
    raise NotImplementedError


def _bytes_fact(st, t):
    st.assume(z3.InRe(t, byte_re()))


@model_for(_aes_cbc)
def _m_aes_cbc(interp, st, args, kwargs):
    key, iv, data, enc = args
    k, i, d = _term(key), _term(iv), z3.simplify(_term(data))
    interp.builtins_used.add("cryptography AES-CBC [uninterpreted, decrypt(encrypt(x)) == x, length preserving]")
    if unlift(enc):
        out = AES_ENC(k, i, d)
        st.assume(AES_DEC(k, i, out) == d)
    else:
        if z3.is_app(d) and d.decl().eq(AES_ENC) and d.arg(0).eq(k) and d.arg(1).eq(i):
            yield st, VBytes(d.arg(2))
            return
        out = AES_DEC(k, i, d)
        st.assume(AES_ENC(k, i, out) == d)
    st.assume(z3.Length(out) == z3.Length(d))
    _bytes_fact(st, out)
    yield st, VBytes(out)


@model_for(_pkcs7_pad)
def _m_pad(interp, st, args, kwargs):
    d = z3.simplify(_term(args[0]))
    interp.builtins_used.add("cryptography PKCS7(128) [uninterpreted, unpad(pad(x)) == x, len(pad(x)) == (len(x)//16+1)*16]")
    out = PAD(d)
    st.assume(z3.Length(out) == (z3.Length(d) / 16 + 1) * 16)
    st.assume(UNPAD(out) == d)
    st.assume(UNPAD_OK(out))
    _bytes_fact(st, out)
    yield st, VBytes(out)


@model_for(_pkcs7_unpad)
def _m_unpad(interp, st, args, kwargs):
    d = z3.simplify(_term(args[0]))
    if z3.is_app(d) and d.decl().eq(PAD):
        yield st, VBytes(d.arg(0))
        return
    out = UNPAD(d)
    ok = UNPAD_OK(d)
    for s1, r in interp.alts(st, [(ok, 'ok'), (z3.Not(ok), 'bad')]):
        if r == 'bad':
            yield s1, exc(ValueError, "Invalid padding bytes.")
            continue
        s1.assume(z3.And(z3.Length(d) >= 16, z3.Length(d) % 16 == 0))
        s1.assume(z3.And(z3.Length(out) < z3.Length(d), z3.Length(out) >= z3.Length(d) - 16))
        s1.assume(PAD(out) == d)
        _bytes_fact(s1, out)
        yield s1, VBytes(out)


@model_for(AES)
def _m_AES(interp, st, args, kwargs):
    yield from interp.instantiate(st, _AES, args, kwargs)


@model_for(modes.CBC)
def _m_CBC(interp, st, args, kwargs):
    yield from interp.instantiate(st, _CBC, args, kwargs)


@model_for(Cipher)
def _m_Cipher(interp, st, args, kwargs):
    yield from interp.instantiate(st, _Cipher, args, kwargs)


@model_for(PKCS7)
def _m_PKCS7(interp, st, args, kwargs):
    yield from interp.instantiate(st, _PKCS7, args, kwargs)



# ---- json: canonical text as a deterministic function of the structure; loads inverts dumps -------------------

JSON_STR = z3.Function('json_string_literal', _S, _S)      # the quoted, escaped JSON literal of a string


def _json_pieces(st, v, sort_keys, out):
    if isinstance(v, VStr):
        out.append(json.dumps(v.v) if v.concrete else JSON_STR(v.term()))
    elif isinstance(v, VBool):
        out.append(('true' if v.v else 'false') if v.concrete else z3.If(v.term(), mk_str('true'), mk_str('false')))
    elif isinstance(v, VInt):
        from pyvc.ops import int_to_dec
        out.append(int_to_dec(v.v))
    elif v is VNone:
        out.append('null')
    elif isinstance(v, VRef) and isinstance(st.heap[v.addr], HList) and st.heap[v.addr].items is not None:
        out.append('[')
        for k, it in enumerate(st.heap[v.addr].items):
            if k:
                out.append(', ')
            _json_pieces(st, it, sort_keys, out)
        out.append(']')
    elif isinstance(v, VRef) and isinstance(st.heap[v.addr], HDict) and st.heap[v.addr].kind == 'dict':
        items = st.heap[v.addr].items
        keys = list(items)
        if not all(isinstance(k, str) for k in keys):
            raise Unsupported("json.dumps model: non-string dictionary key")
        if sort_keys:
            keys = sorted(keys)
        out.append('{')
        for n, k in enumerate(keys):
            if n:
                out.append(', ')
            out.append(json.dumps(k) + ': ')
            _json_pieces(st, items[k], sort_keys, out)
        out.append('}')
    else:
        raise Unsupported(f"json.dumps model: value {v}")


@model_for(json.dumps)
def _m_json_dumps(interp, st, args, kwargs):
    extra = set(kwargs) - {'sort_keys'}
    if len(args) != 1 or extra:
        raise Unsupported("json.dumps model: only dumps(obj, sort_keys=...)")
    sort_keys = unlift(kwargs.get('sort_keys', VBool(False)))
    out = []
    _json_pieces(st, args[0], sort_keys, out)
    merged = []
    for piece in out:
        if isinstance(piece, str) and merged and isinstance(merged[-1], str):
            merged[-1] += piece
        else:
            merged.append(piece)
    interp.builtins_used.add("json.dumps [canonical text, uninterpreted string literals]")
    if all(isinstance(m, str) for m in merged):
        yield st, VStr(''.join(merged))
        return
    t = _concat([mk_str(m) if isinstance(m, str) else m for m in merged])
    # the text is named by a constant (stable under term rewriting); equal structures get the same constant
    reg = dict(st.ghost.get('c02.json', {}))
    key = t.sexpr()
    for nm, (src, k2) in reg.items():
        if k2 == key:
            yield st, VStr(z3.String(nm))
            return
    nm = fresh_name('json_text')
    reg[nm] = (args[0], key)
    st.ghost['c02.json'] = reg
    st.assume(z3.String(nm) == t)
    # consequences of the definition the path pruning can use: at least the punctuation, and utf-8 never shortens
    from pyvc import builtins_model as _bm
    st.assume(z3.Length(z3.String(nm)) >= sum(len(m) for m in merged if isinstance(m, str)))
    st.assume(z3.Length(_bm._UTF8ENC(z3.String(nm))) >= z3.Length(z3.String(nm)))
    yield st, VStr(z3.String(nm))


def _json_copy(st, v):
    if isinstance(v, VRef):
        h = st.heap[v.addr]
        if isinstance(h, HList):
            return st.alloc(HList(items=[_json_copy(st, i) for i in h.items]))
        if isinstance(h, HDict):
            return st.alloc(HDict({k: _json_copy(st, x) for k, x in h.items.items()}))
    return v


@model_for(json.loads)
def _m_json_loads(interp, st, args, kwargs):
    v = args[0]
    if v.concrete:
        try:
            from pyvc.builtins_model import from_native
            yield st, from_native(interp, st, json.loads(unlift(v)))
        except json.JSONDecodeError as e:
            yield st, Raise(VExc(json.JSONDecodeError, [VStr(str(e)), VStr(''), VInt(0)]))
        return
    t = _term(v)
    # utf-8 wrappers: loads(dumps(x).encode()) and loads(dumps(x).encode().decode())
    t = z3.simplify(t)
    while z3.is_app(t) and t.decl().name() in ('utf8_decode', 'utf8_encode'):
        t = z3.simplify(t.arg(0))
    reg = st.ghost.get('c02.json', {})
    src = reg.get(t.decl().name()) if z3.is_const(t) else None
    if src is None:
        raise Unsupported("json.loads model: the text was not produced by json.dumps on this path")
    src = src[0]
    interp.builtins_used.add("json.loads [inverse of json.dumps on str/int/None/list/dict values]")
    yield st, _json_copy(st, src)


# ---- re.sub(R, '', s) for a pattern that is an alternation containing character-class runs --------------------

def use_contract_models():
    """(symbolic side) switch on the models of this file that refine a model the engine installs itself"""
    return None


@model_for(use_contract_models)
def _m_use_contract_models(interp, st, args, kwargs):
    interp.models[re.sub] = _re_sub_classes
    interp.method_models[(re.Pattern, 'sub')] = lambda interp, st, args, kwargs: _re_sub_classes(
        interp, st, [args[0], args[1], args[2]], kwargs)
    yield st, VNone


def removed_classes(pattern):
    """Character classes C such that pattern.sub('', s) never contains a C character: the leading alternatives of the
    pattern (in order), as long as they cannot match the empty string, that are a run `[C]+` or a single `[C]`.
    Why: sub scans left to right and at a position holding a C character that is not yet consumed the alternatives are
    tried in order; those before the `[C]+` alternative either match there (non-empty, so the character is consumed and
    removed) or fail, and `[C]+` itself matches; nothing is inserted because the replacement is empty."""
    import re._parser as sre_parse
    import re._constants as sre_c
    tree = list(sre_parse.parse(pattern.pattern, pattern.flags))
    while len(tree) == 1 and tree[0][0] is sre_c.SUBPATTERN and not tree[0][1][1] and not tree[0][1][2]:
        tree = list(tree[0][1][3])
    alts = [a for a in tree[0][1][1]] if len(tree) == 1 and tree[0][0] is sre_c.BRANCH else [tree]
    classes = []
    for alt in alts:
        items = list(alt)
        if len(items) == 1:
            op, av = items[0]
            if op is sre_c.MAX_REPEAT and av[0] == 1 and len(av[2]) == 1 and av[2][0][0] in (sre_c.IN, sre_c.LITERAL):
                classes.append(av[2][0])
                continue
            if op in (sre_c.IN, sre_c.LITERAL):
                classes.append(items[0])
                continue
        lo = alt.getwidth()[0] if hasattr(alt, 'getwidth') else 0
        if lo == 0:
            break           # an alternative that may match the empty string: later alternatives are not relied upon
    return classes


def _re_sub_classes(interp, st, args, kwargs):
    from pyvc import regex as R
    pat, repl, s = args[0], args[1], args[2]
    p = unlift(pat)
    if not isinstance(p, re.Pattern):
        p = re.compile(p)
    if s.concrete and repl.concrete:
        yield st, lift(p.sub(unlift(repl), s.v))
        return
    try:
        yield from R.re_sub(interp, st, args, kwargs)
        return
    except Unsupported:
        pass
    if not (repl.concrete and unlift(repl) in ('', b'')) or (p.flags & (re.MULTILINE | re.IGNORECASE)):
        raise Unsupported("re.sub model: empty replacement, no MULTILINE/IGNORECASE only")
    classes = removed_classes(p)
    if not classes:
        raise Unsupported("re.sub model: no character-class alternative")
    C = R.union([R.item_to_re(c, isinstance(p.pattern, bytes), p.flags) for c in classes])
    notC = z3.Intersect(R.allchar(), z3.Complement(C))
    res = z3.String(fresh_name('resub'))
    st.assume(z3.InRe(res, z3.Star(notC)))
    st.assume(z3.Length(res) <= z3.Length(s.term()))
    interp.builtins_used.add("re.sub(alternation with character-class runs, '') [result free of the classes' characters]")
    yield st, mk_like(s, res)



# ---- modular use of a lemma about a repository function ------------------------------------------------------

from lbry.blob import blob_file as _blob_file      # noqa: E402


@model_for(_blob_file.is_valid_blobhash)
def _m_is_valid_blobhash(interp, st, args, kwargs):
    """Lemma `lemma.hexdigest-is-valid-blobhash` (proved below on the real function for every 48-byte digest): the hex
    form of a SHA-384 digest is a valid blob hash.  Call sites whose argument is literally such a hex digest use the
    lemma; every other call executes the real body."""
    v = args[0] if args else kwargs.get('blobhash')
    if isinstance(v, VStr) and not v.concrete:
        t = v.term()
        if z3.is_app(t) and t.decl().name() == 'hexlify' and z3.is_app(t.arg(0)) and t.arg(0).decl().name() == 'H_sha384':
            interp.assumptions.add("modular: is_valid_blobhash(hex SHA-384 digest) is truthy (lemma.hexdigest-is-valid-blobhash)")
            st.assume(z3.Length(t) == 96)       # hashlib / hexlify contracts: 48 bytes, two hex digits each
            yield st, VBool(True)
            return
    f = _blob_file.is_valid_blobhash
    from pyvc.sources import SOURCES
    yield from interp.call_ast(st, SOURCES.node_of(f), f.__globals__, [], [], {}, f.__qualname__, f.__code__.co_filename,
                               list(args), dict(kwargs))


# ---- harness helpers with a native and a modelled side --------------------------------------------------

def workspace():
    """a scratch directory with an empty blob directory and a directory for the file to publish"""
    base = tempfile.mkdtemp(prefix='c02-')
    os.mkdir(os.path.join(base, 'blobs'))
    os.mkdir(os.path.join(base, 'files'))
    return base


@model_for(workspace)
def _m_workspace(interp, st, args, kwargs):
    st.ghost['c02.vfs'] = ((VStr('/v/blobs'), _DIR), (VStr('/v/files'), _DIR))
    yield st, VStr('/v')


def put_file(base, name, data):
    path = os.path.join(base, 'files', name)
    with open(path, 'wb') as f:
        f.write(data)
    return path


@model_for(put_file)
def _m_put_file(interp, st, args, kwargs):
    base, name, data = args
    path = VStr(z3.simplify(z3.Concat(mk_str(unlift(base) + '/files/'), name.term()))) if not name.concrete \
        else VStr(unlift(base) + '/files/' + unlift(name))
    _vfs_put(st, path, data)
    yield st, path


def read_blob(base, name):
    """the bytes stored in the blob directory under this name"""
    with open(os.path.join(base, 'blobs', name), 'rb') as f:
        return f.read()


@model_for(read_blob)
def _m_read_blob(interp, st, args, kwargs):
    base, name = args
    path = VStr(unlift(base) + '/blobs/' + unlift(name)) if name.concrete else \
        VStr(z3.simplify(z3.Concat(mk_str(unlift(base) + '/blobs/'), name.term())))
    i = _vfs_lookup(interp, st, path)
    if i is None or _vfs(st)[i][1] is _DIR:
        yield st, exc(FileNotFoundError, "No such file or directory")
        return
    yield st, _vfs(st)[i][1]


def count_blobs(base):
    return len(os.listdir(os.path.join(base, 'blobs')))


@model_for(count_blobs)
def _m_count_blobs(interp, st, args, kwargs):
    base = unlift(args[0])
    n = 0
    for p, c in _vfs(st):
        if c is _DIR:
            continue
        if p.concrete:
            n += 1 if unlift(p).startswith(base + '/blobs/') else 0
        else:
            pre = _flatten(p.term())
            n += 1 if pre and z3.is_string_value(pre[0]) and pre[0].as_string().startswith(base + '/blobs/') else 0
    yield st, VInt(n)


def cleanup(base):
    shutil.rmtree(base, ignore_errors=True)


@model_for(cleanup)
def _m_cleanup(interp, st, args, kwargs):
    yield st, VNone


# =====================================================================================================
# 1. chunking
# =====================================================================================================

def name_ok(name):
    """file names the scratch file system can hold (POSIX: no '/', no NUL, not '.' or '..', at most 255 bytes)"""
    return (0 < len(name) and len(name.encode()) <= 255 and '/' not in name and '\x00' not in name
            and name != '.' and name != '..')


async def read_all(parts):
    base = workspace()
    try:
        data = b''
        for p in parts:
            data = data + p
        path = put_file(base, 'f.bin', data)
        out = []
        async for chunk in file_reader(path):
            out.append(chunk)
        return out, data
    finally:
        cleanup(base)


def make_chunking_proof(k):
    types = {}
    for i in range(k - 1):
        types[f"c{i}"] = TBytes(length=CHUNK)
    types["tail"] = TBytes(minlen=1, maxlen=CHUNK)
    names = list(types)

    async def run(**kw):
        return await read_all([kw[n] for n in names])

    def ensures_reassembles(result):
        return b''.join(result[0]) == result[1]

    def ensures_chunk_sizes(result):
        ok = len(result[0]) == k
        for c in result[0]:
            ok = ok and 1 <= len(c) <= CHUNK
        return ok

    import inspect
    run.__signature__ = inspect.Signature([inspect.Parameter(n, inspect.Parameter.POSITIONAL_OR_KEYWORD) for n in names])

    def samples():
        for tail in (1, 15, 16, 17, CHUNK - 1, CHUNK):
            d = {f"c{i}": bytes([i + 1]) * CHUNK for i in range(k - 1)}
            d["tail"] = bytes((j * 7 + tail) % 256 for j in range(min(tail, 4096))) * (tail // 4096 + 1)
            d["tail"] = d["tail"][:tail]
            yield d

    body = dict(inputs=types, run=staticmethod(run), samples=staticmethod(samples),
                ensures_reassembles=staticmethod(ensures_reassembles), ensures_chunk_sizes=staticmethod(ensures_chunk_sizes),
                note=f"{k} chunk(s): last chunk of 1, 15, 16, 17, CHUNK-1, CHUNK bytes",
                __doc__=f"file_reader on every file of {(k - 1)}*(MAX_BLOB_SIZE-1)+1 .. {k}*(MAX_BLOB_SIZE-1) bytes: exactly {k} chunks of "
                        f"1..MAX_BLOB_SIZE-1 bytes whose concatenation is the file")
    proof("C02", f"file_reader[{k}]")(type('Chunking', (), body))


for _k in (1, 2, 3):
    make_chunking_proof(_k)


TRUSTED = []
NOT_DECIDED = []
ASSUMPTIONS = []


# =====================================================================================================
# 2. one blob: AES-CBC + PKCS7, size bound, SHA-384 name
# =====================================================================================================

def spec_decrypt(ciphertext, key, iv):
    """the protocol's blob decryption: AES-CBC with the stream key and the blob's IV, then PKCS7 unpadding"""
    d = Cipher(AES(key), modes.CBC(iv)).decryptor()
    u = PKCS7(128).unpadder()
    return u.update(d.update(ciphertext) + d.finalize()) + u.finalize()


@proof("C02", "blob.encrypt-decrypt")
class BlobRoundTrip:
    """encrypt_blob_bytes / decrypt_blob_bytes on every plaintext of at most MAX_BLOB_SIZE-1 bytes, every 128/192/256-bit key
    and every IV: decryption returns the plaintext, the ciphertext is the PKCS7-padded length (a whole number of blocks, at
    most 2 MiB) and the blob is named by the SHA-384 of the ciphertext"""
    inputs = dict(key=TOneOf(TBytes(length=16), TBytes(length=24), TBytes(length=32)), iv=TBytes(length=16), data=TBytes(maxlen=CHUNK))
    note = "plaintext lengths 0, 1, 15, 16, 17, 31, 32, 4095, 4096, CHUNK-16, CHUNK-15, CHUNK-1, CHUNK x key sizes 16/24/32"
    timeout = 6

    def run(key, iv, data):
        ct, name = encrypt_blob_bytes(key, iv, data)
        back = decrypt_blob_bytes(ct, len(ct), key, iv)
        return ct, name, back, spec_decrypt(ct, key, iv)

    def ensures_roundtrip(data, result):
        return result[2] == data and result[3] == data

    def ensures_padded_length(data, result):
        return len(result[0]) == (len(data) // 16 + 1) * 16

    def ensures_at_most_2MiB(result):
        return len(result[0]) <= 2 * 2 ** 20

    def ensures_named_by_sha384_of_ciphertext(result):
        return result[1] == hashlib.sha384(result[0]).hexdigest()

    def samples():
        for n in (0, 1, 15, 16, 17, 31, 32, 4095, 4096, CHUNK - 16, CHUNK - 15, CHUNK - 1, CHUNK):
            for kl in (16, 24, 32):
                yield dict(key=bytes(range(kl)), iv=bytes(range(100, 116)), data=(bytes(range(251)) * (n // 251 + 1))[:n])


@proof("C02", "blob.decrypt-checks-length")
class BlobDecryptLength:
    """a blob whose data is not of the length the descriptor announces is refused"""
    inputs = dict(key=TBytes(length=16), iv=TBytes(length=16), data=TBytes(maxlen=CHUNK), length=TInt(0, 2 ** 22))

    def requires(data, length):
        return length != (len(data) // 16 + 1) * 16

    def run(key, iv, data, length):
        ct, name = encrypt_blob_bytes(key, iv, data)
        return decrypt_blob_bytes(ct, length, key, iv)

    def ensures_never_returns(result):
        return False

    raises = {ValueError: True}

    def samples():
        for n, ln in ((0, 0), (5, 15), (5, 17), (16, 16), (100, 128)):
            yield dict(key=b'k' * 16, iv=b'i' * 16, data=b'x' * n, length=ln)


async def make_blob(key, iv, data, blob_num):
    base = workspace()
    try:
        loop = asyncio.get_event_loop()
        info = await BlobFile.create_from_unencrypted(loop, base + '/blobs', key, iv, data, blob_num, 1500000000, True)
        stored = read_blob(base, info.blob_hash)
        return (info.blob_num, info.length, info.iv, info.blob_hash, info.is_mine), stored, count_blobs(base)
    finally:
        cleanup(base)


@proof("C02", "blob.create_from_unencrypted")
class BlobCreate:
    """BlobFile.create_from_unencrypted (AbstractBlob.create_from_unencrypted, the blob writer, the hash check of
    HashBlobWriter and the write to the blob directory): what ends up on disk under the returned name decrypts to the
    plaintext, has the announced length (at most 2 MiB) and the SHA-384 of the stored bytes IS the name"""
    inputs = dict(key=TBytes(length=16), iv=TBytes(length=16), data=TBytes(maxlen=CHUNK), blob_num=TInt(0, 2 ** 31))
    note = "plaintext lengths 1, 15, 16, 17, 4096, CHUNK-16, CHUNK-15, CHUNK"
    timeout = 6
    run = make_blob

    def ensures_stored_bytes_decrypt_to_plaintext(key, iv, data, result):
        return spec_decrypt(result[1], key, iv) == data

    def ensures_length_announced_and_bounded(result):
        return result[0][1] == len(result[1]) and len(result[1]) <= 2 * 2 ** 20

    def ensures_named_by_sha384_of_stored_bytes(result):
        return result[0][3] == hashlib.sha384(result[1]).hexdigest()

    def ensures_iv_and_number_recorded(iv, blob_num, result):
        return result[0][0] == blob_num and result[0][2] == binascii.hexlify(iv).decode() and result[0][4] is True

    def ensures_one_file(result):
        return result[2] == 1

    def samples():
        for n in (1, 15, 16, 17, 4096, CHUNK - 16, CHUNK - 15, CHUNK):
            yield dict(key=bytes(range(16)), iv=bytes(range(100, 116)), data=(bytes(range(251)) * (n // 251 + 1))[:n], blob_num=n % 7)


# =====================================================================================================
# 3. suggested file name
# =====================================================================================================

def clean_name(s):
    """no path separator ('/' or '\\'), no NUL, no control character (below U+0020)"""
    ok = True
    for ch in s:
        ok = ok and ch != '/' and ch != '\\' and ord(ch) >= 32
    return ok


@proof("C02", "sanitize_file_name")
class Sanitize:
    """for EVERY string offered as a name (any length, any code points) the suggested name is free of path separators,
    NUL and control characters, and is not empty"""
    inputs = dict(name=TStr())
    note = "names built from separators, control characters, dots, blanks, reserved DOS names, unicode"

    def run(name):
        use_contract_models()
        return sanitize_file_name(name)

    def ensures_no_separator_nul_or_control(result):
        return matches(result, r'[^/\\\x00-\x1f]*')

    def samples():
        import itertools
        alphabet = ['a', '/', '\\', '\x00', '\x1f', '\n', '.', ' ', '\t', 'CON', ':', '*', 'é', '..', '\x7f']
        for n in range(0, 4):
            for combo in itertools.product(alphabet, repeat=n):
                yield dict(name=''.join(combo))
        for extra in ('a/b.txt', '..\\..\\etc', 'x\x00y.mp4', 'CON', 'NUL.txt', ' . ', '....', 'a.\x01\x02', '/', 'a' * 300 + '.b/c',
                      '\x00', '.\x00', '\x1f.\x1f', 'a.b.c/d', 'normal name.mp4'):
            yield dict(name=extra)


# =====================================================================================================
# 4. the descriptor's commitments (specification written from the protocol definition)
# =====================================================================================================

def sha384(data):
    return hashlib.sha384(data).digest()


def spec_blob_sum(num, length, iv_hex, blob_hash):
    """SHA-384 over: the blob's hash (data blobs only) ‖ decimal number ‖ hex IV ‖ decimal length"""
    named = blob_hash.encode() if length != 0 else b''
    return sha384(named + str(num).encode() + iv_hex.encode() + str(length).encode())


def spec_stream_hash_preimage(name, key_hex, suggested, blobs):
    sums = b''
    for b in blobs:
        sums = sums + spec_blob_sum(b[0], b[1], b[2], b[3])
    return binascii.hexlify(name.encode()) + key_hex.encode() + binascii.hexlify(suggested.encode()) + sha384(sums)


def spec_stream_hash(name, key_hex, suggested, blobs):
    """hex SHA-384 over: hex(stream name) ‖ hex key ‖ hex(suggested file name) ‖ SHA-384(blob sums in order)"""
    return binascii.hexlify(sha384(spec_stream_hash_preimage(name, key_hex, suggested, blobs))).decode()


def spec_sd_content(name, key_hex, suggested, stream_hash, blobs):
    """what a descriptor blob says, as a JSON value"""
    out = []
    for b in blobs:
        d = {'length': b[1], 'blob_num': b[0], 'iv': b[2]}
        if b[3] is not None:
            d['blob_hash'] = b[3]
        out.append(d)
    return {'stream_type': 'lbryfile', 'stream_name': binascii.hexlify(name.encode()).decode(), 'key': key_hex,
            'suggested_file_name': binascii.hexlify(suggested.encode()).decode(), 'stream_hash': stream_hash, 'blobs': out}


# =====================================================================================================
# 5. publishing a file
# =====================================================================================================

async def publish(name, key, ivs, parts):
    base = workspace()
    try:
        use_contract_models()
        data = b''
        for p in parts:
            data = data + p
        path = put_file(base, name, data)
        loop = asyncio.get_event_loop()
        desc = await StreamDescriptor.create_stream(loop, base + '/blobs', path, key=key, iv_generator=iter(ivs))
        blobs = [(b.blob_num, b.length, b.iv, b.blob_hash) for b in desc.blobs]
        stored = [read_blob(base, b.blob_hash) for b in desc.blobs[:-1]]
        sd_bytes = read_blob(base, desc.sd_hash)
        return dict(data=data, name=desc.stream_name, key=desc.key, suggested=desc.suggested_file_name, stream_hash=desc.stream_hash,
                    sd_hash=desc.sd_hash, blobs=blobs, stored=stored, sd_bytes=sd_bytes, files=count_blobs(base))
    finally:
        cleanup(base)


def make_publish_proof(k):
    types = dict(name=TStr(), key=TBytes(length=16), ivs=TList(TBytes(length=16), n=k + 1))
    for i in range(k - 1):
        types[f"c{i}"] = TBytes(length=CHUNK)
    types["tail"] = TBytes(minlen=1, maxlen=CHUNK)
    part_names = [n for n in types if n not in ('name', 'key', 'ivs')]

    def requires(name):
        return name_ok(name)

    async def run(**kw):
        return await publish(kw['name'], kw['key'], kw['ivs'], [kw[n] for n in part_names])

    def ensures_decrypting_in_descriptor_order_gives_the_file(result):
        key = binascii.unhexlify(result['key'])
        plain = b''
        for b, stored in zip(result['blobs'][:-1], result['stored']):
            plain = plain + spec_decrypt(stored, key, binascii.unhexlify(b[2]))
        return plain == result['data']

    def ensures_descriptor_records_key_and_ivs(key, ivs, result):
        ok = result['key'] == binascii.hexlify(key).decode() and len(result['blobs']) == len(ivs)
        for b, iv in zip(result['blobs'], ivs):
            ok = ok and b[2] == binascii.hexlify(iv).decode()
        return ok

    def ensures_data_blobs_bounded_and_named_by_sha384(result):
        ok = len(result['stored']) == k
        for b, stored in zip(result['blobs'][:-1], result['stored']):
            ok = ok and b[1] == len(stored) and 0 < len(stored) <= 2 * 2 ** 20 and b[3] == hashlib.sha384(stored).hexdigest()
        return ok

    def ensures_numbering_and_terminator(result):
        blobs = result['blobs']
        ok = len(blobs) == k + 1
        for j, b in enumerate(blobs):
            ok = ok and b[0] == j
        return ok and blobs[-1][1] == 0 and blobs[-1][3] is None

    def ensures_stream_hash_commits_to_content(result):
        return result['stream_hash'] == spec_stream_hash(result['name'], result['key'], result['suggested'], result['blobs'])

    def ensures_sd_hash_is_sha384_of_descriptor_blob(result):
        return result['sd_hash'] == hashlib.sha384(result['sd_bytes']).hexdigest()

    def ensures_descriptor_blob_says_exactly_this(result):
        return json.loads(result['sd_bytes']) == spec_sd_content(result['name'], result['key'], result['suggested'],
                                                                 result['stream_hash'], result['blobs'])

    def ensures_stream_name_is_file_name(name, result):
        return result['name'] == name

    def ensures_suggested_name_clean(result):
        return matches(result['suggested'], r'[^/\\\x00-\x1f]*')

    def ensures_nothing_else_written(result):
        return result['files'] == k + 1

    import inspect
    run.__signature__ = inspect.Signature([inspect.Parameter(n, inspect.Parameter.POSITIONAL_OR_KEYWORD) for n in types])

    def samples():
        for tail in (1, 15, 16, 4096, CHUNK - 1, CHUNK):
            for name in ('f.bin', 'with space.tar.gz', 'c:\\x<y>.mp4\n', '.hidden', 'CON'):
                d = dict(name=name, key=bytes(range(16)), ivs=[bytes([j + 1]) * 16 for j in range(k + 1)])
                for i in range(k - 1):
                    d[f"c{i}"] = bytes([i + 65]) * CHUNK
                d["tail"] = (bytes(range(253)) * (tail // 253 + 1))[:tail]
                yield d

    body = dict(inputs=types, requires=staticmethod(requires), run=staticmethod(run), samples=staticmethod(samples), timeout=6,
                note=f"{k} data blob(s): last chunk of 1, 15, 16, 4096, CHUNK-1, CHUNK bytes x 5 file names",
                __doc__=f"StreamDescriptor.create_stream on every file of {k} chunk(s) ({(k - 1)}*(MAX_BLOB_SIZE-1)+1 .. "
                        f"{k}*(MAX_BLOB_SIZE-1) bytes), every key, IV sequence and file name: all clauses of the statement about a "
                        f"published stream")
    for f in (ensures_decrypting_in_descriptor_order_gives_the_file, ensures_descriptor_records_key_and_ivs,
              ensures_data_blobs_bounded_and_named_by_sha384, ensures_numbering_and_terminator, ensures_stream_hash_commits_to_content,
              ensures_sd_hash_is_sha384_of_descriptor_blob, ensures_descriptor_blob_says_exactly_this, ensures_stream_name_is_file_name,
              ensures_suggested_name_clean,
              ensures_nothing_else_written):
        body[f.__name__] = staticmethod(f)
    proof("C02", f"create_stream[{k}]")(type('Publish', (), body))


for _k in (1, 2, 3):
    make_publish_proof(_k)


@proof("C02", "lemma.hexdigest-is-valid-blobhash")
class LemmaValidBlobHash:
    """lemma used modularly by the blob proofs: the hex form of any 48-byte digest passes is_valid_blobhash"""
    inputs = dict(d=TBytes(length=48))

    def run(d):
        return True if _blob_file.is_valid_blobhash(binascii.hexlify(d).decode()) else False

    def ensures_valid(result):
        return result

    def samples():
        for d in (bytes(48), bytes(range(48)), b'\xff' * 48, bytes(range(200, 248))):
            yield dict(d=d)
