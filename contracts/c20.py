"""C20 — LBC amounts convert to and from integer dewies exactly.

The real `satoshis_to_coins`, `coins_to_satoshis`, `dewies_to_lbc`, `lbc_to_dewies` are symbolically
executed.  Strings here are short, so they are encoded character by character (concrete length,
symbolic code points, pyvc.chars): `'{}{}.{:08d}'.format`, `rstrip`, the regex group split, `ljust`
and `int()` become linear arithmetic over decimal-digit variables, with one fork per digit count /
strip count.  The round trip and exactness are proved for every |n| <= 2.1e17 (no bound on n other
than the statement's); acceptance is proved for every string of the grammar (1..10 + 1..8 digits);
rejection is proved for strings of every length by regular-language reasoning on the *real*
pattern (parsed from the running `re` object with CPython's own parser).
"""
from pyvc.api import *
from pyvc.speclib import implies, matches
from lbry.wallet import util
from lbry.wallet.dewies import lbc_to_dewies, dewies_to_lbc

MAX = 21 * 10 ** 16


def pow10(k):
    if k == 0:
        return 1
    if k == 1:
        return 10
    if k == 2:
        return 100
    if k == 3:
        return 1000
    if k == 4:
        return 10000
    if k == 5:
        return 100000
    if k == 6:
        return 1000000
    if k == 7:
        return 10000000
    return 100000000


def boundary_ints():
    out = set()
    for k in range(0, 18):
        for d in (-2, -1, 0, 1, 2, 5):
            out.add(10 ** k + d)
            out.add(-(10 ** k + d))
            out.add(3 * 10 ** k + d)
    for base in (2 ** 52, 2 ** 53, 2 ** 54, 2 ** 56, MAX, 107374182668461240, 209999999999999999, 10 ** 8 * 12345):
        for d in range(-3, 4):
            out.add(base + d)
            out.add(-(base + d))
    import random
    r = random.Random(20)
    for _ in range(3000):
        out.add(r.randrange(-MAX, MAX + 1))
        out.add(r.randrange(-10 ** 9, 10 ** 9))
    return sorted(x for x in out if -MAX <= x <= MAX)


@proof("C20", "roundtrip")
class RoundTrip:
    """parse(format(n)) == n for every amount up to the coin supply"""
    inputs = dict(n=TInt())
    note = "boundary integers around powers of ten, 2**52..2**56, the supply, plus 6000 seeded random amounts"

    def requires(n):
        return 0 <= n <= MAX

    def run(n):
        return lbc_to_dewies(dewies_to_lbc(n))

    def ensures_same_integer(n, result):
        return result == n

    def samples():
        for n in boundary_ints():
            yield dict(n=n)


@proof("C20", "format-exact")
class FormatExact:
    """the string is sign, integer part, '.', 1..8 fractional digits without trailing zeros, and its exact
    decimal value times 10**8 is n (negative deltas included)"""
    inputs = dict(n=TInt())
    note = "same integer grid as roundtrip, both signs"

    def requires(n):
        return -MAX <= n <= MAX

    def run(n):
        s = util.satoshis_to_coins(n)
        neg = s.startswith('-')
        body = s[1:] if neg else s
        whole, _, frac = body.partition('.')
        return s, neg, whole, frac

    def ensures_shape(n, result):
        s, neg, whole, frac = result
        return (matches(whole, r'[0-9]+') and matches(frac, r'[0-9]{1,8}')
                and (whole == '0' or not whole.startswith('0'))
                and (frac == '0' or not frac.endswith('0'))
                and neg == (n < 0))

    def ensures_exact_value(n, result):
        s, neg, whole, frac = result
        v = int(whole) * 10 ** 8 + int(frac) * pow10(8 - len(frac))
        return (0 - v if neg else v) == n

    def samples():
        for n in boundary_ints():
            yield dict(n=n)


@proof("C20", "format-exact.after-daemon-conversions")
class FormatExactAfterDaemonConversions:
    """BOUNDED stand-in: the formatter stays exact in a process that has already used the daemon's OTHER conversion code (the real
    ExchangeRateManager pricing a fiat fee, the claim Fee accessors): state those leave behind (e.g. the decimal context) must not
    change what satoshis_to_coins / dewies_to_lbc return"""
    bounded_only = True
    inputs = dict(n=TInt())
    note = "the integer grid of format-exact (both signs, amounts above 10**16 included) after one fiat-to-LBC fee conversion"

    def run(n):
        import time
        from decimal import Decimal
        from lbry.extras.daemon.exchange_rate_manager import ExchangeRateManager, ExchangeRate, BittrexUSDFeed
        manager = ExchangeRateManager([BittrexUSDFeed])
        feed = manager.market_feeds[0]
        feed.last_check = time.time()
        feed.rate = ExchangeRate(feed.market, 1 / 0.0173, time.time())
        manager.to_dewies('USD', Decimal('1.50'))
        s = dewies_to_lbc(n)
        neg = s.startswith('-')
        body = s[1:] if neg else s
        whole, _, frac = body.partition('.')
        return s, neg, whole, frac, lbc_to_dewies(s) if n >= 0 else None

    def ensures_exact_value(n, result):
        s, neg, whole, frac, back = result
        v = int(whole) * 10 ** 8 + int(frac) * pow10(8 - len(frac))
        return (0 - v if neg else v) == n and neg == (n < 0) and (back is None or back == n)

    def samples():
        for n in boundary_ints():
            if -MAX <= n <= MAX:
                yield dict(n=n)
        for n in (10 ** 16 + 1, 10 ** 17 - 1, 123456789012345678, 2 * 10 ** 17 + 7):
            yield dict(n=n)
            yield dict(n=-n)


@proof("C20", "parse-accepts-exact")
class ParseAccepts:
    """every string of the grammar d{1,10}.d{1,8} is accepted with its exact value"""
    inputs = dict(whole=TDigits(1, 10), frac=TDigits(1, 8))
    note = "digit strings at every length 1..10 x 1..8 with extreme digits"

    def run(whole, frac):
        return util.coins_to_satoshis(whole + '.' + frac)

    def ensures_exact(whole, frac, result):
        return result == int(whole) * 10 ** 8 + int(frac) * pow10(8 - len(frac))

    def samples():
        for lw in range(1, 11):
            for lf in range(1, 9):
                for dw in '019':
                    for df in '019':
                        yield dict(whole=dw * lw, frac=df * lf)
                yield dict(whole='1' + '0' * (lw - 1), frac='0' * (lf - 1) + '1')


NEAR_GRAMMAR = ['', '.', '1', '1.', '.1', '1.0', '01.10', '1.000000001', '12345678901.0', '1234567890.12345678', '-1.0', '+1.0',
                '1,0', '1.0.0', ' 1.0', '1.0 ', '1_0.0', '1e3', '1.0e3', '0x1.0', '1..0', 'a.b', '1.a', '١.٠', '1.0\n', '1.0\n\n',
                '\n1.0', '1\n.0', '1.0\x00', '１.０', '1.٠', 'NaN', 'inf', '1.0\r', '1.0\r\n',
                # scientific notation, as str(Decimal) writes tiny amounts: not plain decimals, must be refused, never rounded
                '1E-8', '0E-8', '15E-9', '1E-9', '1.999999999E0', '1E+3', '1E3', '1.5E1', '1.0E0', '1.0e0', 'E', '1E', 'E1', '1.0E',
                '1.00000000E-1', '-1E-8', '1E-08']


@proof("C20", "parse-rejects")
class ParseRejects:
    """every string outside the accepted language raises ValueError (nothing is rounded or truncated).
    Accepted language = the statement's grammar as Python's `re` reads it: `\\d` is any Unicode decimal
    digit and `$` tolerates one final newline (both widenings are listed in the evidence, see DESIGN F12)."""
    inputs = dict(s=TStr())
    note = "35 strings near the grammar (signs, exponents, separators, unicode digits, whitespace, control characters)"

    def requires(s):
        return not matches(s, r'\d{1,10}\.\d{1,8}\n?')

    def run(s):
        return util.coins_to_satoshis(s)

    def ensures_never_returns(result):
        return False

    raises = {ValueError: True}

    def samples():
        for s in NEAR_GRAMMAR:
            yield dict(s=s)


@proof("C20", "parse-rejects.lbc_to_dewies")
class ParseRejectsWrapper(ParseRejects):
    """the same through the entry point the daemon uses (lbry/wallet/dewies.py lbc_to_dewies): every string outside the accepted
    language raises ValueError - the wrapper may not widen the language (e.g. by normalising exponents or rounding first)"""

    def run(s):
        return lbc_to_dewies(s)


@proof("C20", "parse-total")
class ParseTotal:
    """for every string the only exception is ValueError, through both entry points"""
    inputs = dict(s=TStr())

    def run(s):
        return lbc_to_dewies(s)

    raises = {ValueError: True}

    def samples():
        for s in NEAR_GRAMMAR:
            yield dict(s=s)


@proof("C20", "parse-nonstring")
class ParseNonString:
    """non-string arguments are refused with ValueError"""
    inputs = dict(x=TOneOf(TInt(), TNone(), TBytes()))

    def run(x):
        return util.coins_to_satoshis(x)

    def ensures_never_returns(result):
        return False

    raises = {ValueError: True}

    def samples():
        for x in (0, 1, None, b'1.0', 10 ** 8):
            yield dict(x=x)


TRUSTED = [
    "CPython str.format('{:08d}'), str.rstrip, str.ljust, int(str) on ASCII digits and re (anchors, \\d, groups) behave as "
    "modelled in pyvc.chars / pyvc.regex (cross-checked against CPython by the run-time contract cases of this check)",
    "int() of strings containing non-ASCII decimal digits returns some integer or raises ValueError (value not modelled)",
]
NOT_DECIDED = [
    "exact value returned for accepted strings written with non-ASCII Unicode digits (accepted by `\\d`; value left unmodelled)",
]
ASSUMPTIONS = [
    "the accepted language is read as Python reads the pattern: Unicode \\d and an optional final newline are accepted "
    "(DESIGN.md F12: the property text does not single out ASCII; nothing is rounded)",
]
