"""C08 — SPV: a transaction is marked verified only with a Merkle proof to its header.

Deductive part (real code symbolically executed, SHA-256 an uninterpreted function):

* `Ledger.get_root_of_merkle_tree` equals the Merkle fold written from the definition (sibling on the left iff
  bit i of the position is set, double SHA-256 of the concatenation, siblings supplied as reversed hex, result as
  reversed hex) for branches of ANY length (loop invariant `_fold_inv`, proof `root[any]`) and, as unrolled
  counterexample finders with an independently written iterative oracle, for lengths 0..3 (`root[k]`; 4..7 in the thorough
  tier), arbitrary strings as branch elements (a non-hex element raises ValueError, nothing else does), any integer position.
* `Ledger.maybe_verify_transaction`, run on a duck-typed ledger whose header store is the REAL `Headers` object over
  an arbitrary symbolic header file of arbitrary size (`Headers.get/get_raw_header/_read/deserialize` are executed),
  a real `Transaction` and a recording fake network: after the call `is_verified` is EXACTLY
  "0 <= pos < 2**len(branch) and fold(txid, branch, pos) == bytes 36..68 of the 112-byte header at that height" whenever 0 < height < number of
  headers and a branch was supplied (directly or fetched), whatever the flag was before; a height without header, a
  reply without branch, or a non-hex branch never turn the flag on; the height and position recorded are the ones
  checked; the proof dict's own `block_height` is ignored.  Branch of ANY length (`verify[any]`), every reply shape with
  the empty branch of a one-transaction block (`verify[shapes]`), lengths 1..4 unrolled in the thorough tier (`verify[k]`).
* `Ledger._single_batch` (call-site precondition): every transaction of a batch reaches maybe_verify_transaction as a
  fresh object (flag off) with the height the wallet asked for and its own proof (`single_batch`).
* completeness: for blocks of 1, 2, 3, 5, 6, 7 transactions (quick tier; 1..17, 31..33, 47, 48, 63, 64 in the thorough tier)
  with symbolic leaves and every index, the branch built by the Bitcoin Merkle-tree definition (odd levels duplicate the last
  node) folds to the tree root through the real function (`genuine[n]`).
* mutations, under the named hypothesis "SHA-256 has no collision on the strings hashed in the two runs" (instances
  in `requires`, see `no_collision`): with the same position, equal roots force equal transaction hash and equal
  branch (`alter-tx-or-branch[1..3]`, thorough 4, 5, 6); flipping position bit j < k changes the root unless the sibling at
  level j equals the running hash (`alter-pos[1..2]`, thorough 3, 4, 5).

* reorganisation (`reorg.update_headers`): the real `Ledger.update_headers` over a scripted header store whose connect()
  refuses k = 1..2 times and then writes n headers from height h = start - k on, with the REAL transaction cache class
  (LRUCacheWithMetrics / TransactionCacheItem / Transaction) pre-filled with two transactions at arbitrary heights and flags
  and a request in flight: afterwards no cached transaction recorded at a height >= h is still verified (it would be served
  by request_transactions(cached=True) without being checked against the replaced header); sync and subscription entry,
  any announced height; IndexError exactly when the rewind goes below genesis.

Positions outside the tree the branch describes (pos < 0 or pos >= 2**len(branch); repaired in /repo by 5d0e8a6, recorded as
fixed finding C08-P1a) are part of the exact clause: such a proof is never verified, whatever it folds to.

Known finding C08-P1 (known_findings.d/C08.json, reported through proof `position-bound[1..64]`): a position bit BELOW the
branch length is not bound by the proof at a level where the last node of an odd level was duplicated — there the sibling
equals the running hash, so flipping that bit gives the same root (3-transaction block, index 2, position 3 is accepted and
recorded); inherent to the Bitcoin Merkle tree.  The clause "altering the position makes verification fail" is kept without
exclusion in `position-bound[1..64]`; `alter-pos[*]` and `blocks[1..64]` exclude exactly the predicate `position_bit_is_blind`.

Finding C08-P2 (found through `reorg.cached-lookup`, repaired in /repo by 2476d8e): a subscription update announcing a header for a height the
wallet already has, linking to the wallet's header below it (competing block at the same height), overwrites the stored header
without any refusal: the cache is not dropped and the transaction cached as verified at that height is still served verified.

Bounded stand-ins (run-time contract checks on the real code with the real SHA-256, never counted as proved):
`reorg.cached-lookup` — real chain of 8 linked headers (real Headers.connect, linkage validation), every block's transaction
looked up through the real request_transactions(cached=True), chain reorganised from every fork height to competing chains of
every length up to 10 (sync and subscription entry), looked up again against a server that still hands out the old proofs:
verified again iff the header now stored at that height commits to it (88 scenarios, 7 in the known finding);
`blocks[1..64]` — every block size 1..64, every index: the genuine proof is accepted and every single mutation (each branch
element, neighbours swapped, branch truncated / extended, 16 single-bit changes of the transaction, 7 other heights, every
position bit outside the known finding, positions outside the tree) is rejected, through the real maybe_verify_transaction; `position-bound[1..64]` —
every position bit 0..branch length of every such proof; `claimtrie.verify_proof` — the legacy claim-trie proof checker on
4 small tries (genuine proofs accepted, 215 single mutations refused).

Under a mutated tree the refuted obligations are mostly answered 'unknown' by the solvers (a counter-model has to interpret
SHA-256 over strings), so violations are reported by the run-time contract checks of the same proofs (`::runtime-contract`).
"""
import asyncio
import hashlib
import logging
from binascii import hexlify, unhexlify
from pyvc.api import *
from pyvc.speclib import forall, matches
from lbry.wallet.ledger import Ledger, TransactionCacheItem
from lbry.utils import LRUCacheWithMetrics
from lbry.wallet.header import Headers, UnvalidatedHeaders
from io import BytesIO
from lbry.wallet.transaction import Transaction, Output, Input, TXORef
from lbry.wallet.hash import TXRefImmutable
from lbry.wallet.script import InputScript
from lbry.wallet import claim_proofs

logging.getLogger('lbry.wallet.ledger').setLevel(logging.ERROR)     # the run-time cases drive ~1700 reorganisations: no warning each
H32 = TBytes(length=32)
# solver budget per query for the proofs of the quick tier (seconds; they discharge in well under a second): a refuted
# obligation that mentions the uninterpreted SHA-256 is usually answered 'unknown' by all three solvers, so with the default 10 s a
# broken tree would keep the check busy for tens of minutes before the run-time contract checks get to report the violation
QUICK_BUDGET = 3
# proofs that only run in the thorough tier: that tier asks all three solvers on every obligation and the slower two need their
# whole budget on the big ones, so the default of 60 s would make the tier run for many hours
THOROUGH_BUDGET = 6
U32 = TInt(0, 2 ** 32 - 1)
HEADER_SIZE = 112          # LBRY block header: version 4 | previous hash 32 | merkle root 32 | claim trie root 32 | time, bits, nonce 12
ROOT_OFFSET = 36


# ---------------------------------------------------------------- specification (Merkle tree / SPV definition)

def sha(x):
    return hashlib.sha256(x).digest()


def dsha(x):
    return sha(sha(x))


def bit(pos, i):
    return (pos // 2 ** i) % 2


def fold(leaf, siblings, pos):
    """hash `leaf` up the branch: at level i the sibling is the LEFT operand iff bit i of pos is set (siblings: bytes)"""
    h = leaf
    for i in range(len(siblings)):
        if bit(pos, i) == 1:
            h = dsha(siblings[i] + h)
        else:
            h = dsha(h + siblings[i])
    return h


def wire(h):
    """hashes travel as hex of the byte-reversed hash (Bitcoin display order)"""
    return hexlify(h[::-1]).decode()


def unwire(s):
    return unhexlify(s)[::-1]


def flat(x):
    """identity; symbolically it turns a segment-structured byte string into a plain one (engine gap C08_1)"""
    return x


@model_for(flat)
def _flat(interp, st, args, kwargs):
    from pyvc.segs import VSegs, to_vbytes
    v = args[0]
    yield st, (to_vbytes(v) if isinstance(v, VSegs) else v)


@rec_spec(result=TBytes())
def fold_n(leaf, branch, pos, n):
    """the same definition for the first n levels of a wire-format branch of any length"""
    if n <= 0:
        return leaf
    below = fold_n(leaf, branch, pos, n - 1)
    sibling = unwire(branch[n - 1])
    if bit(pos, n - 1) == 1:
        return flat(dsha(sibling + below))
    return flat(dsha(below + sibling))


def fold_wire(leaf, sib, pos):
    return fold(leaf, [unwire(s) for s in sib], pos)


def fold_any(leaf, sib, pos):
    return fold_n(flat(leaf), sib, pos, len(sib))


@rec_spec(result=TInt())
def tree_width(n):
    """2**n for n >= 0 (a rec_spec only because `2 ** n` with a symbolic n forks an inexact-float case for n < 0, which the
    engine refuses in a plain specification; inside a rec_spec that case is simply outside the domain)"""
    return 2 ** n


def inside_tree(pos, sib):
    """a position that the tree described by the branch has: 0 <= pos < 2**len(branch) (any other one is an altered position)"""
    return 0 <= pos < tree_width(len(sib))


def is_hex(s):
    return matches(s, r'[0-9a-fA-F]*') and len(s) % 2 == 0


def all_hex(sib):
    """for a list of symbolic length"""
    return forall(0, len(sib), lambda j: is_hex(sib[j]))


def all_hex_list(sib):
    """the same for a list of concrete length"""
    ok = True
    for s in sib:
        ok = ok and is_hex(s)
    return ok


def merkle_levels(leaves):
    """Bitcoin Merkle tree: pair adjacent nodes, an odd level duplicates its last node"""
    levels = [list(leaves)]
    while len(levels[-1]) > 1:
        cur = levels[-1]
        if len(cur) % 2 == 1:
            cur = cur + [cur[-1]]
        levels.append([dsha(cur[2 * j] + cur[2 * j + 1]) for j in range(len(cur) // 2)])
    return levels


def merkle_root(leaves):
    return merkle_levels(leaves)[-1][0]


def merkle_branch(leaves, index):
    """the siblings of leaf `index` from the bottom level up (what a server sends, before hex encoding)"""
    branch = []
    for level in merkle_levels(leaves)[:-1]:
        cur = level + [level[-1]] if len(level) % 2 == 1 else level
        branch.append(cur[index + 1] if index % 2 == 0 else cur[index - 1])
        index = index // 2
    return branch


def le(v, n):
    return v.to_bytes(n, 'little')


def tx_leaf(version, locktime):
    """transaction hash of the input-less, output-less transaction used by the harnesses: double SHA-256 of its
    Bitcoin serialisation (version, zero inputs, zero outputs, locktime) — the encoding itself is C05's subject"""
    return dsha(le(version, 4) + b'\x00' + b'\x00' + le(locktime, 4))


def header_at(blob, height):
    """the header file is the concatenation of the 112-byte headers in height order"""
    return blob[HEADER_SIZE * height: HEADER_SIZE * height + HEADER_SIZE]


def root_at(blob, height):
    """Merkle-root field of the header stored at `height`"""
    return header_at(blob, height)[ROOT_OFFSET: ROOT_OFFSET + 32]


# ---------------------------------------------------------------- branch folding: any length (loop invariant)

@invariant(Ledger.get_root_of_merkle_tree, loop=1,
           havoc=dict(working_branch=TBytes(), i=TInt(), branch=TStr(), other_branch=TBytes(), other_branch_on_left=TBool(),
                      combined=TBytes()))
def _fold_inv(_i, branches, branch_positions, working_branch, old_working_branch):
    return working_branch == fold_n(flat(old_working_branch), branches, branch_positions, _i)


@proof("C08", "root[any]")
class RootAny:
    """get_root_of_merkle_tree is the Merkle fold of the definition for a branch of ANY length (loop invariant), any
    integer position, arbitrary strings as elements; only a non-hex element makes it raise"""
    inputs = dict(leaf=H32, pos=TInt(), sib=TList(TStr()))
    raises = {ValueError: lambda sib: not all_hex(sib)}
    note = "branch lengths 0..8, positions -3..2**len+1, non-hex elements"
    timeout = QUICK_BUDGET

    def run(leaf, pos, sib):
        return Ledger.get_root_of_merkle_tree(sib, pos, leaf)

    def ensures_is_merkle_fold(leaf, pos, sib, result):
        return result == hexlify(fold_any(leaf, sib, pos)[::-1])

    def samples():
        for k in range(0, 9):
            sib = [wire(bytes([i + 1, k]) * 16) for i in range(k)]
            for pos in list(range(-3, 2 ** min(k, 5) + 2)) + [2 ** k - 1, 2 ** k, 2 ** k + 1]:
                yield dict(leaf=bytes([7]) * 32, pos=pos, sib=sib)
        yield dict(leaf=bytes(32), pos=0, sib=['zz'])
        yield dict(leaf=bytes(32), pos=1, sib=[wire(bytes(32)), 'abc'])


def make_root_proof(k):
    def run(leaf, pos, sib):
        return Ledger.get_root_of_merkle_tree(sib, pos, leaf)

    def ensures_is_merkle_fold(leaf, pos, sib, result):
        return result == hexlify(fold_wire(leaf, sib, pos)[::-1])

    def samples():
        for pos in list(range(-2, 2 ** k + 2)):
            yield dict(leaf=bytes([7]) * 32, pos=pos, sib=[wire(bytes([i + 1, pos % 256]) * 16) for i in range(k)])
            yield dict(leaf=bytes(range(32)), pos=pos, sib=[wire(bytes(range(i, i + 32))).upper() for i in range(k)])
        if k:
            yield dict(leaf=bytes(32), pos=0, sib=[wire(bytes(32))] * (k - 1) + ['0g'])

    body = dict(inputs=dict(leaf=H32, pos=TInt(), sib=TList(TStr(), n=k)), run=staticmethod(run),
                raises={ValueError: lambda sib: not all_hex_list(sib)},
                ensures_is_merkle_fold=staticmethod(ensures_is_merkle_fold), thorough_only=(k > 3), timeout=THOROUGH_BUDGET if k > 3 else QUICK_BUDGET,
                samples=staticmethod(samples),
                note=f"every position -2..2**{k}+1, lower- and upper-case hex, one non-hex element",
                __doc__=f"branch of length {k} unrolled: result is the reversed hex of the fold written iteratively from the definition "
                        f"(all positions, arbitrary strings as elements)")
    proof("C08", f"root[{k}]")(type('RootProof', (), body))


for _k in range(0, 8):
    make_root_proof(_k)


# ---------------------------------------------------------------- maybe_verify_transaction on the real header store

def engine_setup():
    """natively nothing; symbolically it installs the syntactic shortcut unhexlify(hexlify(x)) = x (engine gap C08_3)"""
    return None


@model_for(engine_setup)
def _engine_setup(interp, st, args, kwargs):
    import z3
    from pyvc.values import VNone, VBytes
    import binascii
    from pyvc.builtins_model2 import BUILTIN_MODELS
    orig_unhex = interp.models.get(binascii.unhexlify) or BUILTIN_MODELS[binascii.unhexlify]
    if not getattr(orig_unhex, '_c08', False):
        def unhex(interp, st, args, kwargs, node=None):
            v = args[0]
            t = getattr(v, 'v', None)
            if not v.concrete and z3.is_app(t) and t.decl().name() == 'hexlify':
                # unhexlify(hexlify(x)) == x applied syntactically (the trusted inverse law; the generic model forks an
                # infeasible binascii.Error path whose refutation costs the solvers seconds: engine gap C08_3)
                yield st, VBytes(t.arg(0))
                return
            yield from orig_unhex(interp, st, args, kwargs)
        unhex._c08 = True
        interp.models[binascii.unhexlify] = unhex
    yield st, VNone


@model_for(asyncio.Lock)
def _lock(interp, st, args, kwargs):
    from pyvc.values import VNone
    yield st, VNone     # Headers.check_chunk_lock: only touched when a chunk_getter is installed (never here)


class HeaderBuffer:
    """stands for the BytesIO behind Headers: getbuffer() is the whole header file"""

    def __init__(self, blob):
        self.blob = blob

    def getbuffer(self):
        return self.blob


class FakeNetwork:
    """records what is asked; answers with the (symbolic) replies it was given"""

    def __init__(self, merkle_reply=None, batch_reply=None):
        self.merkle_reply = merkle_reply
        self.batch_reply = batch_reply
        self.asked = []
        self.batches = []

    async def retriable_call(self, function, *args, **kwargs):
        return await function(*args, **kwargs)

    async def get_merkle(self, tx_hash, height):
        self.asked.append((tx_hash, height))
        return self.merkle_reply

    async def get_transaction_batch(self, txids, restricted=True):
        self.batches.append(list(txids))
        return self.batch_reply


class FakeLedger:
    """duck-typed `self` for the unbound Ledger methods: exactly the attributes they touch"""
    get_root_of_merkle_tree = staticmethod(Ledger.get_root_of_merkle_tree)
    maybe_verify_transaction = Ledger.maybe_verify_transaction

    def __init__(self, headers, network):
        self.headers = headers
        self.network = network


def header_store(blob, size):
    """the REAL Headers object over an arbitrary header file `blob` holding `size` headers"""
    hs = Headers(':memory:')
    hs.io = HeaderBuffer(blob)
    hs._size = size
    return hs


SHAPES = ('supplied', 'fetched', 'fetched-after-empty', 'no-branch', 'fetched-no-branch')


def has_branch(shape):
    return shape in ('supplied', 'fetched', 'fetched-after-empty')


async def verify_harness(version, locktime, prior, height, size, blob, sib, pos, bh, shape):
    engine_setup()
    tx = Transaction(version=version, locktime=locktime, is_verified=prior)     # `prior`: any earlier history of the flag
    full = {'merkle': sib, 'pos': pos, 'block_height': bh}
    bare = {'block_height': bh}
    if shape == 'supplied':
        merkle, reply = full, None
    elif shape == 'fetched':
        merkle, reply = None, full
    elif shape == 'fetched-after-empty':
        merkle, reply = {}, full
    elif shape == 'no-branch':
        merkle, reply = bare, None
    else:
        merkle, reply = None, bare
    net = FakeNetwork(merkle_reply=reply)
    ledger = FakeLedger(header_store(blob, size), net)
    raised = False
    try:
        await Ledger.maybe_verify_transaction(ledger, tx, height, merkle)
    except ValueError:
        raised = True
    return tx.is_verified, tx.height, tx.position, net.asked, raised, tx.id


def verify_clauses(fold_of, all_hex_of):
    """clauses of the statement; fold_of(leaf, sib, pos) is the oracle fold (iterative or recursive form)"""

    def ensures_verified_iff_position_inside_and_branch_folds_to_header_root(version, locktime, height, size, blob, sib, pos, shape, result):
        checkable = has_branch(shape) and 0 < height < size and not result[4]
        return (not checkable) or result[0] == (inside_tree(pos, sib) and fold_of(tx_leaf(version, locktime), sib, pos) == root_at(blob, height))

    def ensures_never_turned_on_without_header_or_branch(prior, height, size, shape, result):
        unverifiable = (not 0 < height < size) or (not has_branch(shape)) or result[4]
        return (not (unverifiable and not prior)) or result[0] == False    # noqa

    def ensures_only_non_hex_raises(sib, result):
        return (not result[4]) or not all_hex_of(sib)

    def ensures_height_and_position_recorded(height, size, pos, shape, result):
        checked = has_branch(shape) and 0 < height < size and not result[4]
        return result[1] == height and ((not (result[0] and checked)) or result[2] == pos)

    def ensures_asks_only_for_this_transaction(version, locktime, height, shape, result):
        txid = wire(tx_leaf(version, locktime))
        asked = result[3]
        return (len(asked) <= 1 and forall(0, len(asked), lambda i: asked[i] == (txid, height))
                and result[5] == txid and ((shape != 'supplied' and shape != 'no-branch') or len(asked) == 0))

    return dict(ensures_verified_iff_position_inside_and_branch_folds_to_header_root=staticmethod(
                    ensures_verified_iff_position_inside_and_branch_folds_to_header_root),
                ensures_never_turned_on_without_header_or_branch=staticmethod(ensures_never_turned_on_without_header_or_branch),
                ensures_only_non_hex_raises=staticmethod(ensures_only_non_hex_raises),
                ensures_height_and_position_recorded=staticmethod(ensures_height_and_position_recorded),
                ensures_asks_only_for_this_transaction=staticmethod(ensures_asks_only_for_this_transaction))


def make_blob(size, roots):
    """a header file of `size` headers; roots: {height: 32 bytes}; other fields arbitrary filler"""
    out = b''
    for h in range(size):
        root = roots.get(h, bytes([h % 251 + 1]) * 32)
        out += bytes([h % 256]) * 4 + bytes([0xAA]) * 32 + root + bytes([0xCC]) * 32 + bytes([h % 7]) * 12
    return out


def verify_samples(ks):
    for k in ks:
        # inside the tree, just outside, far outside with the low bits of a genuine position, negative
        for pos in sorted({0, 1, 2, 2 ** k - 1, 2 ** k, 2 ** 200 + 2 ** k - 1, -1, -2 ** k} | ({5} if k > 2 else set())):
            sibs = [bytes([i + 3, pos % 256]) * 16 for i in range(k)]
            leaf = tx_leaf(1, pos % 2 ** 32)
            good = fold(leaf, sibs, pos)
            for size, height in ((10, 5), (10, 9), (10, 10), (10, 0), (10, -1), (6, 5), (5, 5), (0, 0), (1, 1), (2, 1)):
                for where in ('right', 'next', 'prev', 'nowhere'):
                    roots = {}
                    if where == 'right':
                        roots[height] = good
                    elif where == 'next':
                        roots[height + 1] = good
                    elif where == 'prev':
                        roots[height - 1] = good
                    for shape in SHAPES:
                        for prior in (False, True):
                            for bh in (height, height + 1, 3):
                                if bh != height and (shape != 'supplied' or where == 'right' or prior):
                                    continue
                                yield dict(version=1, locktime=pos % 2 ** 32, prior=prior, height=height, size=size,
                                           blob=make_blob(size, roots), sib=[wire(s) for s in sibs], pos=pos, bh=bh, shape=shape)
        # the proof's own block_height names a header that WOULD match: must not be used
        sibs = [bytes([9]) * 32] * k
        good = fold(tx_leaf(2, 0), sibs, 0)
        yield dict(version=2, locktime=0, prior=False, height=4, size=10, blob=make_blob(10, {7: good}), sib=[wire(s) for s in sibs],
                   pos=0, bh=7, shape='supplied')
        if k:
            yield dict(version=2, locktime=0, prior=False, height=4, size=10, blob=make_blob(10, {4: good}),
                       sib=[wire(s) for s in sibs[:-1]] + ['xy'], pos=0, bh=4, shape='fetched')


def _verify_any_samples():
    for s in verify_samples((1, 2, 5, 6)):
        if s['shape'] in ('supplied', 'fetched'):
            yield s


def _blob_matches_size(blob, size):
    return len(blob) == HEADER_SIZE * size


proof("C08", "verify[any]")(type('VerifyAny', (), dict(
    inputs=dict(version=U32, locktime=U32, prior=TBool(), height=TInt(), size=TInt(0), blob=TBytes(), sib=TList(TStr()),
                pos=TInt(), bh=TInt(), shape=TOneOf(TConst('supplied'), TConst('fetched'))),
    requires=staticmethod(_blob_matches_size), run=staticmethod(verify_harness), samples=staticmethod(_verify_any_samples),
    timeout=QUICK_BUDGET,
    note="branch lengths 1, 2, 5, 6 x header at the right / neighbouring / no height x heights inside, at and beyond the tip",
    __doc__="maybe_verify_transaction with a branch of ANY length (loop invariant inside), supplied or fetched, over an arbitrary "
            "header file of any size, any earlier value of the flag: verified iff the fold equals the Merkle root field of the "
            "header AT THAT HEIGHT; never turned on without header / after a non-hex branch; height and position recorded",
    **verify_clauses(fold_any, all_hex))))


def make_verify_proof(name, k, shapes, thorough=False):
    def samples():
        for smp in verify_samples((k,)):
            if smp['shape'] in shapes:
                yield smp

    proof("C08", f"verify[{name}]")(type('VerifyProof', (), dict(
        inputs=dict(version=U32, locktime=U32, prior=TBool(), height=TInt(), size=TInt(0), blob=TBytes(), sib=TList(TStr(), n=k),
                    pos=TInt(), bh=TInt(), shape=TOneOf(*[TConst(s) for s in shapes])),
        requires=staticmethod(_blob_matches_size), run=staticmethod(verify_harness), samples=staticmethod(samples),
        thorough_only=thorough, timeout=THOROUGH_BUDGET if thorough else QUICK_BUDGET,
        note="positions inside the tree, 2**k, 2**200 + 2**k - 1, -1, -2**k x 10 (file size, height) pairs inside / at / beyond the tip and at height <= 0 x matching "
             "root at the right, next, previous or no height x reply shapes x flag on/off before x proof dict naming another height",
        __doc__=f"maybe_verify_transaction, branch of length {k} unrolled, reply shapes {', '.join(shapes)}: same clauses as "
                f"verify[any] against the iterative oracle",
        **verify_clauses(fold_wire, all_hex_list))))


# every reply shape (proof supplied / fetched because none or an empty one was supplied / reply without branch) with the empty
# branch of a one-transaction block; longer branches: verify[any] (quick) and the unrolled lengths of the thorough tier
make_verify_proof('shapes', 0, SHAPES)
for _k in (1, 2, 3, 4):
    make_verify_proof(str(_k), _k, ('supplied', 'fetched'), thorough=True)


# ---------------------------------------------------------------- call site: Ledger._single_batch

def _concrete_tx(n):
    tx = Transaction(version=1, locktime=n)
    tx.add_inputs([Input(TXORef(TXRefImmutable.from_hash(bytes([n + 16]) * 32, -1), n), InputScript(b'\x51'), 0xFFFFFFFF)])
    tx.add_outputs([Output.pay_pubkey_hash(1000 + n, bytes([n]) * 20)])
    return tx


RAW_A, RAW_B = _concrete_tx(1).raw, _concrete_tx(2).raw          # two concrete serialised transactions
HASH_A, HASH_B = dsha(RAW_A), dsha(RAW_B)
TXID_A, TXID_B = wire(HASH_A), wire(HASH_B)
HEIGHT_A, HEIGHT_B = 3, 7


async def batch_harness(size, blob, sib_a, pos_a, sib_b, pos_b):
    engine_setup()
    # each proof dict names the OTHER transaction's height: only the height the wallet asked for may be used
    reply = {TXID_A: (hexlify(RAW_A).decode(), {'merkle': sib_a, 'pos': pos_a, 'block_height': HEIGHT_B}),
             TXID_B: (hexlify(RAW_B).decode(), {'merkle': sib_b, 'pos': pos_b, 'block_height': HEIGHT_A})}
    net = FakeNetwork(batch_reply=reply)
    ledger = FakeLedger(header_store(blob, size), net)
    txs = await Ledger._single_batch(ledger, [TXID_A, TXID_B], {TXID_A: HEIGHT_A, TXID_B: HEIGHT_B})
    a, b = txs[TXID_A], txs[TXID_B]
    return (a.is_verified, a.height, a.position), (b.is_verified, b.height, b.position), len(txs), net.batches, net.asked


@proof("C08", "single_batch")
class SingleBatch:
    """call site: every transaction of a batch is parsed into a FRESH object (flag off) and verified with the height the wallet
    asked for and its own proof — so for transactions delivered by sync `is_verified` is exactly "proof folds to the root of
    the header at the asked height", and false beyond the last header (two concrete transactions at heights 3 and 7, branches of
    any length, arbitrary header file)"""
    inputs = dict(size=TInt(0), blob=TBytes(), sib_a=TList(TStr()), pos_a=TInt(), sib_b=TList(TStr()), pos_b=TInt())
    raises = {ValueError: lambda sib_a, sib_b: not (all_hex(sib_a) and all_hex(sib_b))}
    note = "file sizes 0, 3, 4, 7, 8, 20 x each proof right / for the other height / wrong x branch lengths 0..3"

    requires = staticmethod(_blob_matches_size)
    run = batch_harness
    timeout = QUICK_BUDGET

    def ensures_each_verified_iff_own_proof_at_asked_height(size, blob, sib_a, pos_a, sib_b, pos_b, result):
        want_a = HEIGHT_A < size and inside_tree(pos_a, sib_a) and fold_any(HASH_A, sib_a, pos_a) == root_at(blob, HEIGHT_A)
        want_b = HEIGHT_B < size and inside_tree(pos_b, sib_b) and fold_any(HASH_B, sib_b, pos_b) == root_at(blob, HEIGHT_B)
        return result[0][0] == want_a and result[1][0] == want_b

    def ensures_heights_recorded_as_asked_and_one_request_for_the_batch(result):
        return (result[0][1] == HEIGHT_A and result[1][1] == HEIGHT_B and result[2] == 2
                and result[3] == [[TXID_A, TXID_B]] and result[4] == [])

    def samples():
        for k in range(0, 4):
            sibs = [bytes([i + 1]) * 32 for i in range(k)]
            for pa in (0, 2 ** k - 1, 2 ** k, -1):
                ra, rb = fold(HASH_A, sibs, pa), fold(HASH_B, sibs, 1)
                for size in (0, 3, 4, 7, 8, 20):
                    for roots in ({HEIGHT_A: ra, HEIGHT_B: rb}, {HEIGHT_A: rb, HEIGHT_B: ra}, {HEIGHT_A: ra}, {HEIGHT_B: rb}, {},
                                  {HEIGHT_A + 1: ra, HEIGHT_B - 1: rb}):
                        yield dict(size=size, blob=make_blob(size, roots), sib_a=[wire(s) for s in sibs], pos_a=pa,
                                   sib_b=[wire(s) for s in sibs], pos_b=1)


# ---------------------------------------------------------------- completeness: genuine proofs of every block shape

def pick(index, n):
    """make the index concrete, one path per value"""
    for j in range(n):
        if index == j:
            return j
    return n - 1


def sample_leaves(n, salt=0):
    return [dsha(bytes([i, n, salt])) for i in range(n)]


def make_genuine_proof(n, quick):
    def run(leaves, index):
        engine_setup()
        i = pick(index, n)
        branch = [wire(s) for s in merkle_branch(leaves, i)]
        return Ledger.get_root_of_merkle_tree(branch, i, leaves[i]), len(branch)

    def ensures_accepted(leaves, result):
        return result[0] == hexlify(merkle_root(leaves)[::-1])

    def ensures_branch_length_is_tree_height(result):
        return 2 ** result[1] >= n and (result[1] == 0 or 2 ** (result[1] - 1) < n)

    def samples():
        for i in range(n):
            yield dict(leaves=sample_leaves(n), index=i)

    proof("C08", f"genuine[{n}]")(type('GenuineProof', (), dict(
        inputs=dict(leaves=TList(H32, n=n), index=TInt(0, n - 1)), run=staticmethod(run), samples=staticmethod(samples),
        ensures_accepted=staticmethod(ensures_accepted),
        ensures_branch_length_is_tree_height=staticmethod(ensures_branch_length_is_tree_height),
        thorough_only=not quick, timeout=QUICK_BUDGET if quick else THOROUGH_BUDGET,
        note=f"every index of a {n}-transaction block of fixed pseudo-random leaves",
        __doc__=f"block of {n} transactions (symbolic transaction hashes), every index: the branch the Bitcoin Merkle-tree definition "
                f"gives for it folds, through the real function, to the root the definition gives for the block")))


# quick tier: every shape of odd level up to height 3; thorough tier: every size up to 17 and the sizes around the powers of two
# up to 64 (all 64 sizes: bounded stand-in blocks[1..64])
for _n in list(range(1, 18)) + [31, 32, 33, 47, 48, 63, 64]:
    make_genuine_proof(_n, _n in (1, 2, 3, 5, 6, 7))


# ---------------------------------------------------------------- mutations of a proof (named hypothesis: no SHA-256 collision)

def no_collision(l1, r1, l2, r2):
    """the hypothesis, instantiated for one pair of hashed strings l1+r1 and l2+r2 (all four halves are 32 bytes, so the
    strings are equal iff their halves are): neither SHA-256 application of the double hash collides on them"""
    a = l1 + r1
    b = l2 + r2
    return (sha(a) != sha(b) or (l1 == l2 and r1 == r2)) and (sha(sha(a)) != sha(sha(b)) or sha(a) == sha(b))


def hashed_pairs(leaf, siblings, pos):
    """(left, right) halves of the 64-byte strings the definition hashes, level by level"""
    out = []
    h = leaf
    for i in range(len(siblings)):
        pair = (siblings[i], h) if bit(pos, i) == 1 else (h, siblings[i])
        out.append(pair)
        h = dsha(pair[0] + pair[1])
    return out


def running_hashes(leaf, siblings, pos):
    out = [leaf]
    for pair in hashed_pairs(leaf, siblings, pos):
        out.append(dsha(pair[0] + pair[1]))
    return out


def no_collision_between(leaf1, sib1, pos1, leaf2, sib2, pos2):
    a = hashed_pairs(leaf1, sib1, pos1)
    b = hashed_pairs(leaf2, sib2, pos2)
    ok = True
    for i in range(len(a)):
        ok = ok and no_collision(a[i][0], a[i][1], b[i][0], b[i][1])
    return ok


def on_wire(w):
    """a branch element as transmitted: hex of the bytes w; the sibling hash it denotes is w reversed"""
    return hexlify(w).decode()


def denoted(ws):
    return [w[::-1] for w in ws]


def pick_in(v, lo, hi):
    """make v concrete, one path per value of lo..hi"""
    for c in range(lo, hi + 1):
        if v == c:
            return c
    return hi


def make_alter_content_proof(lo, hi, quick):
    def requires(leaf1, w1, leaf2, w2, pos, k):
        n = pick_in(k, lo, hi)
        return no_collision_between(leaf1, denoted(w1[:n]), pos, leaf2, denoted(w2[:n]), pos)

    def run(leaf1, w1, leaf2, w2, pos, k):
        engine_setup()
        n = pick_in(k, lo, hi)
        return (Ledger.get_root_of_merkle_tree([on_wire(w) for w in w1[:n]], pos, leaf1),
                Ledger.get_root_of_merkle_tree([on_wire(w) for w in w2[:n]], pos, leaf2))

    def ensures_altered_transaction_fails(leaf1, leaf2, result):
        return leaf1 == leaf2 or result[0] != result[1]

    def ensures_altered_branch_fails(w1, w2, k, result):
        same = True
        for i in range(pick_in(k, lo, hi)):
            same = same and w1[i] == w2[i]
        return same or result[0] != result[1]

    def samples():
        leaf = dsha(b'tx')
        ws = [dsha(bytes([i])) for i in range(hi)]
        for k in range(lo, hi + 1):
            for pos in sorted({0, 1, 2 ** k - 1, 2 ** k // 2}):
                yield dict(leaf1=leaf, w1=ws, leaf2=dsha(b'ty'), w2=ws, pos=pos, k=k)
                yield dict(leaf1=leaf, w1=ws, leaf2=leaf, w2=ws, pos=pos, k=k)
                for j in range(k):
                    for flip in (0, 31):
                        m = bytearray(ws[j])
                        m[flip] ^= 1
                        yield dict(leaf1=leaf, w1=ws, leaf2=leaf, w2=ws[:j] + [bytes(m)] + ws[j + 1:], pos=pos, k=k)

    proof("C08", f"alter-tx-or-branch[{lo}..{hi}]")(type('AlterContent', (), dict(
        inputs=dict(leaf1=H32, w1=TList(H32, n=hi), leaf2=H32, w2=TList(H32, n=hi), pos=TInt(), k=TInt(lo, hi)),
        requires=staticmethod(requires), run=staticmethod(run), samples=staticmethod(samples), thorough_only=not quick, timeout=QUICK_BUDGET + 1 if quick else THOROUGH_BUDGET,
        ensures_altered_transaction_fails=staticmethod(ensures_altered_transaction_fails),
        ensures_altered_branch_fails=staticmethod(ensures_altered_branch_fails),
        note="another transaction hash; one bit flipped in the first / last byte of each branch element; 4 positions per length",
        __doc__=f"branch lengths {lo}..{hi} (the first k of the given elements), same position: a different transaction hash or ANY "
                f"difference in the branch changes the root the real function computes — hypothesis: no SHA-256 collision among the "
                f"strings hashed in the two runs")))


def position_bit_is_blind(leaf, sib, pos, j):
    """predicate of known finding C08-P1: flipping bit j of the position cannot change the fold although the bit is below the
    branch length — the sibling at that level equals the running hash (duplicated last node of an odd level)"""
    return j < len(sib) and running_hashes(leaf, sib, pos)[j] == sib[j]


def flip_bit(pos, j):
    return pos + 2 ** j if bit(pos, j) == 0 else pos - 2 ** j


def make_alter_pos_proof(lo, hi, quick):
    def requires(leaf, ws, pos, k, j):
        n = pick_in(k, lo, hi)
        i = pick_in(j, 0, n - 1)
        sib = denoted(ws[:n])
        return j < n and (not position_bit_is_blind(leaf, sib, pos, i)) and \
            no_collision_between(leaf, sib, pos, leaf, sib, flip_bit(pos, i))

    def run(leaf, ws, pos, k, j):
        engine_setup()
        n = pick_in(k, lo, hi)
        i = pick_in(j, 0, n - 1)
        branch = [on_wire(w) for w in ws[:n]]
        return Ledger.get_root_of_merkle_tree(branch, pos, leaf), Ledger.get_root_of_merkle_tree(branch, flip_bit(pos, i), leaf)

    def ensures_altered_position_fails(result):
        return result[0] != result[1]

    def samples():
        leaf = dsha(b'tx')
        ws = [dsha(bytes([i])) for i in range(hi)]
        for k in range(lo, hi + 1):
            for pos in range(0, 2 ** k):
                for j in range(k):
                    yield dict(leaf=leaf, ws=ws, pos=pos, k=k, j=j)

    proof("C08", f"alter-pos[{lo}..{hi}]")(type('AlterPos', (), dict(
        inputs=dict(leaf=H32, ws=TList(H32, n=hi), pos=TInt(0), k=TInt(lo, hi), j=TInt(0, hi - 1)),
        requires=staticmethod(requires), run=staticmethod(run), samples=staticmethod(samples), thorough_only=not quick, timeout=QUICK_BUDGET + 1 if quick else THOROUGH_BUDGET,
        ensures_altered_position_fails=staticmethod(ensures_altered_position_fails),
        note="every length, every position below 2**k, every bit below k",
        __doc__=f"branch lengths {lo}..{hi}: flipping any position bit below the branch length changes the root the real function "
                f"computes, EXCEPT where known finding C08-P1 applies (sibling at that level equals the running hash; excluded by "
                f"`requires`) — hypothesis: no SHA-256 collision among the strings hashed in the two runs")))


make_alter_content_proof(1, 3, True)
make_alter_pos_proof(1, 2, True)
for _k in (3, 4, 5):
    make_alter_pos_proof(_k, _k, False)         # generation cost grows with 4**k (two runs): length 6 only bounded
for _k in (4, 5, 6):
    make_alter_content_proof(_k, _k, False)


# ---------------------------------------------------------------- bounded stand-ins: every block of 1..64 transactions

_BLOCKS = {}
BLOCK_HEIGHT, FILE_SIZE = 5, 10


def block(n):
    """a block of n (input-less) transactions: (locktimes, leaves, header file with the block's root at BLOCK_HEIGHT)"""
    if n not in _BLOCKS:
        locktimes = [1000 * n + i for i in range(n)]
        leaves = [tx_leaf(1, lt) for lt in locktimes]
        _BLOCKS[n] = (locktimes, leaves, make_blob(FILE_SIZE, {BLOCK_HEIGHT: merkle_root(leaves)}))
    return _BLOCKS[n]


async def spv(version, locktime, height, blob, sib, pos):
    tx = Transaction(version=version, locktime=locktime)
    ledger = FakeLedger(header_store(blob, FILE_SIZE), FakeNetwork())
    try:
        await Ledger.maybe_verify_transaction(ledger, tx, height, {'merkle': sib, 'pos': pos, 'block_height': BLOCK_HEIGHT})
    except ValueError:
        pass
    return tx.is_verified, tx.position


def flip_hex(s, byte):
    b = bytearray(unhexlify(s))
    b[byte] ^= 1
    return hexlify(bytes(b)).decode()


def block_position_bit_is_blind(n, index, j):
    """known finding C08-P1 on a genuine proof of transaction `index` of an n-transaction block (bit j below the branch length)"""
    locktimes, leaves, blob = block(n)
    return position_bit_is_blind(leaves[index], merkle_branch(leaves, index), index, j)


def single_mutations(n, index):
    """every single mutation of the genuine proof except position bits: (label, version, locktime, height, branch, pos)"""
    locktimes, leaves, blob = block(n)
    lt = locktimes[index]
    branch = [wire(s) for s in merkle_branch(leaves, index)]
    k = len(branch)
    out = []
    for e in range(k):
        for byte in (0, 31):
            out.append((f"branch[{e}] byte {byte}", 1, lt, BLOCK_HEIGHT, branch[:e] + [flip_hex(branch[e], byte)] + branch[e + 1:], index))
        if e + 1 < k:
            out.append((f"branch[{e}] swapped with the next", 1, lt, BLOCK_HEIGHT,
                        branch[:e] + [branch[e + 1], branch[e]] + branch[e + 2:], index))
    if k:
        out.append(("last element dropped", 1, lt, BLOCK_HEIGHT, branch[:-1], index))
        out.append(("first element dropped", 1, lt, BLOCK_HEIGHT, branch[1:], index))
        out.append(("last element repeated", 1, lt, BLOCK_HEIGHT, branch + [branch[-1]], index))
    out.append(("zero hash appended", 1, lt, BLOCK_HEIGHT, branch + [wire(bytes(32))], index))
    out.append(("own hash appended", 1, lt, BLOCK_HEIGHT, branch + [wire(leaves[index])], index))
    for b in range(8):
        out.append((f"locktime bit {4 * b}", 1, lt ^ (1 << (4 * b)), BLOCK_HEIGHT, branch, index))
        out.append((f"version bit {4 * b}", 1 ^ (1 << (4 * b)), lt, BLOCK_HEIGHT, branch, index))
    for h in (BLOCK_HEIGHT - 1, BLOCK_HEIGHT + 1, FILE_SIZE - 1, FILE_SIZE, FILE_SIZE + 7, 0, -1):
        out.append((f"height {h}", 1, lt, h, branch, index))
    for j in list(range(k + 2)) + [64]:
        if not block_position_bit_is_blind(n, index, j):
            out.append((f"position bit {j}", 1, lt, BLOCK_HEIGHT, branch, flip_bit(index, j)))
    for alt in (index - 2 ** k, -1 - index, index + 3 * 2 ** k):
        out.append((f"position {alt}", 1, lt, BLOCK_HEIGHT, branch, alt))
    return out


@proof("C08", "blocks[1..64]")
class Blocks:
    """BOUNDED stand-in (real code, real SHA-256, no deductive part): for every block of 1..64 transactions and every index the
    genuine proof is accepted by maybe_verify_transaction over a header file holding the block's root, with the position
    recorded, and EVERY single mutation of it is rejected: each branch element (a bit in its first / last byte, neighbours
    swapped), branch truncated at either end or extended, 16 single-bit changes of the transaction, 7 other heights (next,
    previous, tip, beyond the tip, 0, negative), every position bit 0..branch length+1 and bit 64 that known finding C08-P1
    does not cover (bits at or above the branch length are NOT excluded), 3 positions shifted out of the tree by a multiple of
    2**length or complemented (negative ones included)"""
    bounded_only = True
    note = "all 2080 (block size 1..64, index) pairs x all single mutations listed in the doc string (about 50 per pair)"
    inputs = dict(n=TInt(1, 64), index=TInt(0, 63))

    def requires(n, index):
        return 1 <= n <= 64 and 0 <= index < n

    async def run(n, index):
        locktimes, leaves, blob = block(n)
        branch = [wire(s) for s in merkle_branch(leaves, index)]
        genuine = await spv(1, locktimes[index], BLOCK_HEIGHT, blob, branch, index)
        upper = await spv(1, locktimes[index], BLOCK_HEIGHT, blob, [s.upper() for s in branch], index)
        accepted = []
        for label, version, locktime, height, sib, pos in single_mutations(n, index):
            got = await spv(version, locktime, height, blob, sib, pos)
            if got[0]:
                accepted.append(label)
        return genuine, upper, accepted, len(branch)

    def ensures_genuine_proof_accepted_and_position_recorded(index, result):
        return result[0] == (True, index) and result[1] == (True, index)

    def ensures_every_single_mutation_rejected(result):
        return result[2] == []

    def ensures_branch_length_is_tree_height(n, result):
        return 2 ** result[3] >= n and (result[3] == 0 or 2 ** (result[3] - 1) < n)

    def samples():
        for n in range(1, 65):
            for index in range(n):
                yield dict(n=n, index=index)


@proof("C08", "position-bound[1..64]")
class PositionBound:
    """BOUNDED stand-in for the clause "altering the position makes verification fail", stated WITHOUT exclusion: for every block
    of 1..64 transactions, every index and every position bit 0..branch length (the last one is outside the tree), the genuine
    proof with that bit flipped is rejected.  The real code violates it exactly where `block_position_bit_is_blind` holds (a
    bit below the branch length at a level whose sibling is the duplicated node itself; 390 of the 13846 cases): KNOWN FINDING
    C08-P1 (the check prints KNOWN-FINDING; a violation outside the predicate — e.g. an accepted bit at or above the branch
    length, repaired by 5d0e8a6 — still alarms)"""
    bounded_only = True
    note = "all 2080 (block size, index) pairs x every bit 0..branch length (14 tsd. cases)"
    inputs = dict(n=TInt(1, 64), index=TInt(0, 63), j=TInt(0, 6))

    def requires(n, index, j):
        return 1 <= n <= 64 and 0 <= index < n and 0 <= j

    async def run(n, index, j):
        locktimes, leaves, blob = block(n)
        branch = [wire(s) for s in merkle_branch(leaves, index)]
        return await spv(1, locktimes[index], BLOCK_HEIGHT, blob, branch, flip_bit(index, j))

    def ensures_altered_position_fails(result):
        return result[0] == False    # noqa

    def samples():
        for n in range(1, 65):
            for index in range(n):
                for j in range(len(merkle_levels(block(n)[1]))):
                    yield dict(n=n, index=index, j=j)


# ---------------------------------------------------------------- reorganisation: nothing stays verified in the cache above the fork

class ScriptedHeaders:
    """the header store as update_headers sees it: connect() answers from a script (0 = refused, n > 0 = n headers written from
    `start` on, replacing whatever was stored there); len() follows Headers._write: max(old size, start + n)"""

    def __init__(self, size, script):
        self.size = size
        self.script = script
        self.done = 0
        self.calls = []

    def __len__(self):
        return self.size

    @property
    def height(self):
        return self.size - 1

    async def connect(self, start, headers):
        added = self.script[self.done]
        self.done += 1
        self.calls.append((start, added))
        if added > 0 and start + added > self.size:
            self.size = start + added
        return added


class ReorgNetwork:
    """serves headers as long as the script of the header store has answers left, then 'nothing newer'"""

    def __init__(self, headers):
        self.headers = headers
        self.header_requests = []

    async def retriable_call(self, function, *args, **kwargs):
        return await function(*args, **kwargs)

    async def get_headers(self, height, count=10000, b64=False):
        self.header_requests.append(height)
        return {'hex': '00' if self.headers.done < len(self.headers.script) else ''}


class RecordingDb:
    def __init__(self):
        self.rewinds = []

    async def rewind_blockchain(self, above_height):
        self.rewinds.append(above_height)
        return True


class RecordingController:
    def __init__(self):
        self.events = []

    def add(self, event):
        self.events.append(event)


class ReorgLedger:
    """duck-typed `self` for update_headers / request_transactions: exactly the attributes they touch; the transaction cache is
    the REAL class Ledger.__init__ uses (without the prometheus counters)"""
    get_root_of_merkle_tree = staticmethod(Ledger.get_root_of_merkle_tree)
    maybe_verify_transaction = Ledger.maybe_verify_transaction
    _single_batch = Ledger._single_batch
    request_transactions = Ledger.request_transactions
    update_headers = Ledger.update_headers

    def __init__(self, headers, network):
        self.headers = headers
        self.network = network
        self.db = RecordingDb()
        self._on_header_controller = RecordingController()
        self._tx_cache = LRUCacheWithMetrics(64)

    def get_id(self):
        return 'lbc_verif'


class _Flag:
    """stands for asyncio.Event inside TransactionCacheItem (only set() is reached)"""

    def __init__(self):
        self.flag = False

    def set(self):
        self.flag = True

    def is_set(self):
        return self.flag


@model_for(asyncio.Event)
def _event(interp, st, args, kwargs):
    from pyvc.ops import lift
    yield from interp.call(st, lift(_Flag), [], {})


def start_height(size, given):
    """where update_headers starts connecting: the announced height, or the local length when none / a future one is announced"""
    return size if given is None or given > size else given


async def reorg_harness(size, given, sub, k, n, ha, va, hb, vb):
    refusals = pick_in(k, 1, 2)
    headers = ScriptedHeaders(size, [0] * refusals + [n])
    ledger = ReorgLedger(headers, ReorgNetwork(headers))
    # any earlier history of the cache: two fetched transactions at arbitrary heights with arbitrary flags, one request in flight
    ledger._tx_cache['a'] = TransactionCacheItem(Transaction(version=1, locktime=1, is_verified=va, height=ha))
    ledger._tx_cache['b'] = TransactionCacheItem(Transaction(version=1, locktime=2, is_verified=vb, height=hb))
    ledger._tx_cache['c'] = TransactionCacheItem()
    raised = False
    try:
        if given is None:
            await Ledger.update_headers(ledger)
        else:
            await Ledger.update_headers(ledger, height=given, headers='00', subscription_update=sub)
    except IndexError:
        raised = True
    left = []
    for key in ('a', 'b', 'c'):
        if key in ledger._tx_cache:
            item = ledger._tx_cache.cache[key]
            if item.tx is not None:
                left.append((item.tx.height, item.tx.is_verified))
    return left, raised, headers.calls, len(headers)


@proof("C08", "reorg.update_headers")
class ReorgUpdateHeaders:
    """the real update_headers over a scripted header store: headers.connect refuses k = 1..2 times, then writes n >= 1 headers
    from height h = start - k on (headers at heights >= h replaced); the transaction cache (real LRUCacheWithMetrics holding real
    TransactionCacheItem / Transaction objects) held two transactions at ARBITRARY heights with arbitrary flags and a request
    in flight.  Afterwards no cached transaction recorded at a height >= h is still verified (it would be served by
    request_transactions(cached=True) without being checked against the new header); sync and subscription entry, announced
    height arbitrary; IndexError only when the rewind goes below genesis"""
    inputs = dict(size=TInt(0), given=TOpt(TInt(0)), sub=TBool(), k=TInt(1, 2), n=TInt(1), ha=TInt(), va=TBool(), hb=TInt(), vb=TBool())
    note = "local length 0..6 x sync / announced height 0..7 x k = 1, 2 x n = 1, 3 x cached heights around the fork x flags"
    timeout = QUICK_BUDGET
    run = reorg_harness

    def ensures_nothing_verified_at_or_above_the_lowest_replaced_height(size, given, k, result):
        h = start_height(size, given) - k
        ok = True
        for height, verified in result[0]:
            ok = ok and not (verified and height >= h)
        return result[1] or ok

    def ensures_replaced_from_start_minus_refusals(size, given, k, n, result):
        h = start_height(size, given) - k
        return result[1] or (len(result[2]) == k + 1 and result[2][k] == (h, n) and result[2][0] == (h + k, 0) and result[3] >= h + n)

    def ensures_raises_only_below_genesis(size, given, k, result):
        return result[1] == (start_height(size, given) - k < 0)

    def samples():
        for size in (0, 1, 2, 3, 6):
            for given in (None, 0, 1, 2, size - 1, size, size + 1):
                if given is not None and given < 0:
                    continue
                for k in (1, 2):
                    h = start_height(size, given) - k
                    for n in (1, 3):
                        for ha, hb in ((h, h - 1), (h + 1, h), (h - 1, h + k), (-2, 0)):
                            for va, vb in ((True, True), (True, False), (False, True)):
                                yield dict(size=size, given=given, sub=given is not None and size % 2 == 0, k=k, n=n, ha=ha, va=va, hb=hb, vb=vb)


class ChainHeaders(UnvalidatedHeaders):
    """the real header store with linkage validation only (the regtest configuration), any genesis block"""
    genesis_hash = None


CHAIN_LENGTH = 8
CHAIN_TXS = [_concrete_tx(i + 1) for i in range(CHAIN_LENGTH)]      # block i of the original chain holds CHAIN_TXS[i] alone


def chain_headers(length, fork, branch):
    """serialised linked headers 0..length-1; blocks below `fork` are the original chain (Merkle root = hash of CHAIN_TXS[i]),
    blocks from `fork` on belong to the competing branch and commit to something else"""
    out = []
    prev = b'0' * 64
    for i in range(length):
        b = branch if i >= fork else 0
        root = CHAIN_TXS[i].hash if b == 0 and i < CHAIN_LENGTH else dsha(bytes([i, b]))
        raw = Headers.serialize(dict(version=1, prev_block_hash=prev, merkle_root=hexlify(root[::-1]), claim_trie_root=hexlify(bytes(32)),
                                     timestamp=1500000000 + i, bits=0x207fffff, nonce=1000 * b + i))
        out.append(raw)
        prev = Headers.hash_header(raw)
    return out


class StaleServer:
    """a wallet server that keeps answering with the transactions' proofs from the ORIGINAL chain (one-transaction blocks: empty
    branch, position 0) while serving the headers of the chain it was told to serve"""

    def __init__(self):
        self.serve = []
        self.batches = []
        self.header_requests = []

    async def retriable_call(self, function, *args, **kwargs):
        return await function(*args, **kwargs)

    async def get_transaction_batch(self, txids, restricted=True):
        self.batches.append(list(txids))
        return {tx.id: (hexlify(tx.raw).decode(), {'merkle': [], 'pos': 0, 'block_height': i})
                for i, tx in enumerate(CHAIN_TXS) if tx.id in txids}

    async def get_headers(self, height, count=10000, b64=False):
        self.header_requests.append(height)
        return {'hex': hexlify(b''.join(self.serve[height:height + count])).decode()}


def tip_replaced_without_refusal(fork, newlen, mode):
    """predicate of known finding C08-P2: a subscription update announces a header at a height the wallet already has and that
    header links to the wallet's header below it, so headers.connect overwrites the stored header without any refusal — the
    reorganisation branch of update_headers (which drops the transaction cache) is never entered"""
    return mode == 'subscription' and newlen <= CHAIN_LENGTH and fork == newlen - 1


@proof("C08", "reorg.cached-lookup")
class ReorgCachedLookup:
    """BOUNDED stand-in (real request_transactions / _single_batch / maybe_verify_transaction / update_headers / Headers.connect
    with linkage validation / LRUCacheWithMetrics, real SHA-256): a wallet with a real chain of 8 linked headers looks up the
    transaction of every block through request_transactions(cached=True) (all verified and cached), then the chain is
    reorganised from height `fork` on to a competing chain of `newlen` headers (entry through a plain sync or through a
    subscription update announcing the new tip), then the same transactions are looked up again while the server still
    hands out the old proofs.  A transaction comes back verified iff the header NOW stored at its height still commits to it:
    every transaction of a replaced block — the lowest replaced one included — must come back unverified.
    Finding C08-P2 (`tip_replaced_without_refusal`, repaired by 2476d8e) was found here"""
    bounded_only = True
    note = "original chain of 8 blocks x fork height 1..8 x new chain length fork+1..10 x sync / subscription entry (about 75 scenarios)"
    inputs = dict(fork=TInt(1, 8), newlen=TInt(2, 10), mode=TStr())

    def requires(fork, newlen, mode):
        return 1 <= fork <= CHAIN_LENGTH and fork < newlen <= CHAIN_LENGTH + 2 and mode in ('sync', 'subscription')

    async def run(fork, newlen, mode):
        old, new = chain_headers(CHAIN_LENGTH, CHAIN_LENGTH, 0), chain_headers(newlen, fork, 1)
        store = ChainHeaders(':memory:')
        store.io = BytesIO()
        store._size = 0
        connected = await store.connect(0, b''.join(old))
        server = StaleServer()
        ledger = ReorgLedger(store, server)
        want = tuple((CHAIN_TXS[i].id, i) for i in range(1, CHAIN_LENGTH))
        first = {}
        async for txs in ledger.request_transactions(want, cached=True):
            first.update(txs)
        server.serve = new
        if mode == 'sync':
            await ledger.update_headers()
        else:
            await ledger.update_headers(height=newlen - 1, headers=hexlify(new[newlen - 1]).decode(), subscription_update=True)
        second = {}
        async for txs in ledger.request_transactions(want, cached=True):
            second.update(txs)
        committed = []
        for i in range(1, CHAIN_LENGTH):
            stored = await store.get(i)
            committed.append(stored['merkle_root'] == hexlify(CHAIN_TXS[i].hash[::-1]))
        return (connected, [first[CHAIN_TXS[i].id].is_verified for i in range(1, CHAIN_LENGTH)],
                [second[CHAIN_TXS[i].id].is_verified for i in range(1, CHAIN_LENGTH)], committed)

    def ensures_all_verified_before_the_reorganisation(result):
        return result[0] == CHAIN_LENGTH and result[1] == [True] * (CHAIN_LENGTH - 1)

    def ensures_verified_again_iff_the_header_now_stored_commits_to_it(result):
        return result[2] == result[3]

    def ensures_scenario_replaces_the_blocks_it_is_meant_to(fork, newlen, mode, result):
        # sanity of the scenario, not a clause of the statement: which stored headers stopped committing to their transaction
        # (Headers._write does not truncate: above a shorter new chain the old headers stay)
        if tip_replaced_without_refusal(fork, newlen, mode):
            return result[3] == [i != newlen - 1 for i in range(1, CHAIN_LENGTH)]
        if mode == 'sync' and newlen <= CHAIN_LENGTH:
            return result[3] == [True] * (CHAIN_LENGTH - 1)         # nothing newer on offer: nothing happens
        return result[3] == [i < fork or i >= newlen for i in range(1, CHAIN_LENGTH)]

    def samples():
        for mode in ('sync', 'subscription'):
            for fork in range(1, CHAIN_LENGTH + 1):
                for newlen in range(fork + 1, CHAIN_LENGTH + 3):
                    yield dict(fork=fork, newlen=newlen, mode=mode)


# ---------------------------------------------------------------- bounded stand-in: legacy claim-trie proof checker

def claim_value_hash(txhash, nout, takeover):
    """lbrycrd getValueHash: Hash(Hash(txid) | Hash(decimal nOut) | Hash(big-endian 64-bit takeover height))"""
    return dsha(dsha(txhash) + dsha(str(nout).encode()) + dsha(takeover.to_bytes(8, 'big')))


def trie_of(claims):
    """character trie (one node per byte of the UTF-8 name) of {name: (txhash, nout, takeover)}"""
    root = {'children': {}, 'value': None}
    for name, value in claims.items():
        node = root
        for ch in name.encode('utf-8'):
            node = node['children'].setdefault(ch, {'children': {}, 'value': None})
        node['value'] = value
    return root


def trie_hash(node):
    """legacy claim trie node hash: Hash(for each child in byte order: byte | child hash, then the value hash if any)"""
    s = b''
    for ch in sorted(node['children']):
        s += bytes([ch]) + trie_hash(node['children'][ch])
    if node['value'] is not None:
        s += claim_value_hash(*node['value'])
    return dsha(s)


def trie_proof(root, name):
    """proof of the claim stored under `name` in the format of lbrycrd getnameproof (nodes from the root down)"""
    path = name.encode('utf-8')
    nodes = []
    node = root
    for depth in range(len(path) + 1):
        nxt = path[depth] if depth < len(path) else None
        entry = {'children': []}
        for ch in sorted(node['children']):
            child = {'character': ch}
            if ch != nxt:
                child['nodeHash'] = wire(trie_hash(node['children'][ch]))
            entry['children'].append(child)
        if nxt is not None and node['value'] is not None:
            entry['valueHash'] = wire(claim_value_hash(*node['value']))
        nodes.append(entry)
        if nxt is not None:
            node = node['children'][nxt]
    txhash, nout, takeover = node['value']
    return {'nodes': nodes, 'txhash': wire(txhash), 'nOut': nout, 'last takeover height': takeover}


TRIES = [
    {'a': (dsha(b'1'), 0, 10)},
    {'a': (dsha(b'1'), 0, 10), 'b': (dsha(b'2'), 1, 5)},
    {'a': (dsha(b'1'), 0, 10), 'ab': (dsha(b'2'), 1, 5), 'abc': (dsha(b'3'), 2, 7), 'abd': (dsha(b'4'), 0, 8), 'x': (dsha(b'5'), 3, 1)},
    {'lbry': (dsha(b'6'), 7, 400000), 'lbc': (dsha(b'7'), 0, 3), 'l': (dsha(b'8'), 1, 2), 'm\xe9': (dsha(b'9'), 2, 2 ** 40)},
]


def claim_proof_mutations(proof, root_hex, name):
    import copy
    out = [("root hash", proof, flip_hex(root_hex, 0), name), ("root hash", proof, flip_hex(root_hex, 31), name),
           ("other name", proof, root_hex, name + 'z'), ("other name", proof, root_hex, 'q' + name[1:])]
    for field, alt in (('txhash', flip_hex(proof['txhash'], 5)), ('nOut', proof['nOut'] + 1),
                       ('last takeover height', proof['last takeover height'] + 1)):
        m = copy.deepcopy(proof)
        m[field] = alt
        out.append((field, m, root_hex, name))
    for i, node in enumerate(proof['nodes']):
        if 'valueHash' in node:
            m = copy.deepcopy(proof)
            m['nodes'][i]['valueHash'] = flip_hex(node['valueHash'], 9)
            out.append((f"valueHash of node {i}", m, root_hex, name))
            m = copy.deepcopy(proof)
            del m['nodes'][i]['valueHash']
            out.append((f"valueHash of node {i} removed", m, root_hex, name))
        for c, child in enumerate(node['children']):
            m = copy.deepcopy(proof)
            m['nodes'][i]['children'][c]['character'] = (child['character'] + 1) % 256
            out.append((f"character of child {c} of node {i}", m, root_hex, name))
            if 'nodeHash' in child:
                m = copy.deepcopy(proof)
                m['nodes'][i]['children'][c]['nodeHash'] = flip_hex(child['nodeHash'], 17)
                out.append((f"nodeHash of child {c} of node {i}", m, root_hex, name))
            m = copy.deepcopy(proof)
            del m['nodes'][i]['children'][c]
            out.append((f"child {c} of node {i} removed", m, root_hex, name))
    if len(proof['nodes']) > 1:
        m = copy.deepcopy(proof)
        del m['nodes'][-1]
        out.append(("last node removed", m, root_hex, name))
    # a proof that NAMES an outpoint must bind it to the root: naming another transaction / output while shipping the really
    # committed value as an opaque valueHash of the last node (with or without the takeover height) proves nothing about that outpoint
    committed = wire(claim_value_hash(unwire(proof['txhash']), proof['nOut'], proof['last takeover height']))
    for drop_takeover in (True, False):
        for field, alt in (('txhash', flip_hex(proof['txhash'], 5)), ('nOut', proof['nOut'] + 1)):
            m = copy.deepcopy(proof)
            m[field] = alt
            if drop_takeover:
                del m['last takeover height']
            m['nodes'][-1]['valueHash'] = committed
            out.append((f"forged {field} with the committed value as opaque valueHash" + (", takeover height omitted" if drop_takeover else ""),
                        m, root_hex, name))
    return out


def claim_proof_accepted(proof, root_hex, name):
    try:
        return claim_proofs.verify_proof(proof, root_hex, name) is True
    except claim_proofs.InvalidProofError:
        return False


@proof("C08", "claimtrie.verify_proof")
class ClaimTrie:
    """BOUNDED stand-in (legacy checker, not called by the wallet any more; loop-heavy over dicts, outside the generator's
    reach): on 4 small claim tries built from the lbrycrd definition every claim's genuine proof is accepted against the trie
    root, and every single mutation (root hash, name, txhash, nOut, takeover height, each node hash / value hash / child
    character, removed child / value hash / node) is refused with InvalidProofError — no other exception"""
    bounded_only = True
    note = "4 tries (1, 2, 5, 4 claims, names up to 4 bytes incl. a two-byte UTF-8 character), every claim, about 20-40 single mutations each"
    inputs = dict(t=TInt(0, 3), which=TInt(0, 4))

    def requires(t, which):
        return 0 <= t < len(TRIES) and 0 <= which < len(TRIES[t])

    def run(t, which):
        claims = TRIES[t]
        name = sorted(claims)[which]
        root = trie_of(claims)
        root_hex = wire(trie_hash(root))
        genuine = trie_proof(root, name)
        accepted = [label for label, m, r, nm in claim_proof_mutations(genuine, root_hex, name) if claim_proof_accepted(m, r, nm)]
        return claim_proof_accepted(genuine, root_hex, name), accepted

    def ensures_genuine_accepted(result):
        return result[0] is True

    def ensures_every_single_mutation_refused(result):
        return result[1] == []

    def samples():
        for t in range(len(TRIES)):
            for which in range(len(TRIES[t])):
                yield dict(t=t, which=which)



# ---------------------------------------------------------------- bounded stand-in: what the wallet database records

@proof("C08", "database.records-the-flag-it-is-given")
class DatabaseRecordsTheFlag:
    """BOUNDED stand-in on the real wallet Database (sqlite): the verified flag STORED for a transaction is the flag of the
    transaction object saved last, together with its height - a transaction once recorded as verified at one height and later
    saved again unverified (reported at another height, or at a height the wallet has no header for: maybe_verify_transaction
    left is_verified False) is recorded unverified at the new height; nothing sticks"""
    bounded_only = True
    inputs = dict(case=TInt())
    note = "first saved verified at height 5, then saved again as (7, unverified), (500, unverified), (9, verified), (0, unverified), in 4 orders"

    def run(case):
        import shutil
        from contracts.c03 import real_wallet, COIN
        orders = [((7, False), (500, False), (9, True), (0, False)), ((500, False), (7, False), (0, False), (9, True)),
                  ((9, True), (7, False), (9, True), (500, False)), ((0, False), (9, True), (500, False), (7, False))]

        async def go():
            d, ledger, account = await real_wallet('standard', [COIN], [])
            try:
                problems = []
                funding, utxos = ledger.verif_fundings[0]           # stored by real_wallet: verified at height 5
                for height, verified in orders[case % 4]:
                    funding.height, funding.is_verified = height, verified
                    for u in utxos:
                        await ledger.db.save_transaction_io(funding, ledger.hash160_to_address(u.script.values['pubkey_hash']),
                                                            u.script.values['pubkey_hash'], '')
                    rows = await ledger.db.db.execute_fetchall("select height, is_verified from tx where txid = ?", (funding.id,))
                    row = rows[0]
                    got = tuple(row.values()) if isinstance(row, dict) else tuple(row)
                    if (got[0], bool(got[1])) != (height, verified):
                        problems.append(f"saved as (height {height}, verified {verified}), recorded as {got}")
                return problems
            finally:
                await ledger.db.close()
                shutil.rmtree(d, ignore_errors=True)
        return asyncio.run(go())

    def ensures_recorded_as_saved(result):
        return result == []

    def samples():
        for case in range(4):
            yield dict(case=case)


TRUSTED = [
    "hashlib.sha256 is a function of the bytes fed (uninterpreted, 32-byte result); nothing else is assumed about it except, in "
    "the alter-* proofs only, the NAMED HYPOTHESIS no_collision: no SHA-256 collision between the corresponding strings hashed in "
    "the two runs compared (instances are listed in each proof's `requires`)",
    "binascii.hexlify / unhexlify: unhexlify(hexlify(x)) == x, len(hexlify(x)) == 2 len(x), hexlify(x) is lower-case hex; unhexlify "
    "raises (a ValueError subclass) exactly on strings that are not an even number of hex digits; bytes[::-1] is an involution",
    "struct.unpack('<I' / '<III') in Headers.deserialize: little-endian unsigned fields, struct.error unless the length fits; "
    "int.to_bytes(4, 'little') for the version / locktime of the harness transaction",
    "call-site contract of the network: retriable_call(f, *args) returns what f(*args) returns; get_merkle / "
    "get_transaction_batch return ARBITRARY replies (symbolic) — nothing a server sends is trusted",
    "reorg.update_headers: Headers.connect is replaced by its call-site contract (returns 0 when the first header does not link, "
    "else the number written from `start` on; len() becomes max(len, start + n) as Headers._write does) — the real connect runs "
    "in the bounded stand-in; asyncio.Event inside TransactionCacheItem is a plain flag",
    "asyncio.Lock() in Headers.__init__ is not touched by the functions under contract (no chunk_getter installed)",
]
NOT_DECIDED = [
    "reorganisations deeper than 2 refusals deductively (the loop of update_headers is unrolled by the script; the bounded stand-in "
    "goes to depth 7); that the wallet DATABASE forgets verified flags above the fork (Database.rewind_blockchain is a stub that "
    "returns True: transactions already saved keep is_verified in sqlite) — outside the cache clause, seen while reading",
    "that the header stored at a height is itself valid (proof of work, linkage): property C07; here the header file is arbitrary",
    "mutations deductively: only transaction hash / branch content for branch lengths 1..3 (quick), 4..6 (thorough) and position "
    "bits for lengths 1..2 (quick), 3..5 (thorough), under the no-collision hypothesis; branch-length mutations (they need more than collision-freeness: no hash "
    "equals a half of its own pre-image chain) and height mutations (they need distinct Merkle roots at distinct heights) are "
    "covered only by the bounded stand-in blocks[1..64]",
    "that a transaction's recorded id is the hash of its bytes for transactions with inputs and outputs (C05); the harness "
    "transaction has none; _single_batch is run on two concrete serialised transactions",
    "wallet/manager.py get_transaction (second caller of maybe_verify_transaction): read, it passes a freshly parsed transaction "
    "and the server's block_height as the height; not under contract",
    "completeness deductively for block sizes 18..30, 34..46, 49..62 (generation and solver cost; every size 1..64 and every index "
    "is exercised by the bounded stand-in blocks[1..64] with concrete leaves)",
    "genesis block (height 0): the wallet's height convention uses 0 for 'in mempool', such a transaction is never verified",
    "claim_proofs.verify_proof: bounded stand-in only (dead code in the wallet)",
    "64-byte transactions / inner nodes offered as leaves (the classic SPV leaf-node ambiguity) — outside the statement",
]
ASSUMPTIONS = [
    "the header file holds exactly `size` 112-byte headers (len(blob) == 112 * size), as Headers.open establishes",
    "completeness (a genuine proof is accepted) is stated for heights 1 .. number of headers - 1",
    "the flag before the call (`prior`) is arbitrary in verify[*]; 'never reported verified without header' is stated for prior "
    "False, which _single_batch establishes (proof single_batch) by parsing a fresh Transaction",
]
