"""C08 — SPV: a transaction is marked verified only with a Merkle proof to its header.

Deductive part (real code symbolically executed, SHA-256 an uninterpreted function):

* `Ledger.get_root_of_merkle_tree` equals the Merkle fold written from the definition (sibling on the left iff
  bit i of the position is set, double SHA-256 of the concatenation, siblings supplied as reversed hex, result as
  reversed hex) for branches of ANY length (loop invariant `_fold_inv`, proof `root[any]`) and, as unrolled
  counterexample finders with an independently written iterative oracle, for lengths 0..7 (`root[k]`), arbitrary
  strings as branch elements (a non-hex element raises ValueError, nothing else does) and any integer position.
* `Ledger.maybe_verify_transaction`, run on a duck-typed ledger whose header store is the REAL `Headers` object over
  an arbitrary symbolic header file of arbitrary size (`Headers.get/get_raw_header/_read/deserialize` are executed),
  a real `Transaction` and a recording fake network: after the call `is_verified` is EXACTLY
  "fold(txid, branch, pos) == bytes 36..68 of the 112-byte header at that height" whenever 0 < height < number of
  headers and a branch was supplied (directly or fetched), whatever the flag was before; a height without header, a
  reply without branch, or a non-hex branch never turn the flag on; the height and position recorded are the ones
  checked; the proof dict's own `block_height` is ignored.  Branch length arbitrary (`verify[any]`) and 0..4 unrolled
  for every reply shape (`verify[k]`).
* `Ledger._single_batch` (call-site precondition): every transaction of a batch reaches maybe_verify_transaction as a
  fresh object (flag off) with the height the wallet asked for and its own proof (`single_batch`).
* completeness: for every block of 1..16 transactions (quick tier; 17..64 in the thorough tier) with symbolic leaves and
  every index, the branch built by the Bitcoin Merkle-tree definition (odd levels duplicate the last node) folds to the
  tree root through the real function (`genuine[n]`).
* mutations, under the named hypothesis "SHA-256 has no collision on the strings hashed in the two runs" (instances
  in `requires`, see `no_collision`): with the same position, equal roots force equal transaction hash and equal
  branch (`alter-tx-or-branch[k]`); flipping position bit j < k changes the root unless the sibling at level j
  equals the running hash (`alter-pos[k]`).

Known finding C08-P1 (recorded in known_findings.d/C08.json, proof `blocks[1..64]`): the position is not bound by the
proof where it does not influence the fold: (a) bits at or above the branch length are ignored (a 1-transaction block
verifies with ANY position), (b) at a level where the last node was duplicated the sibling equals the running hash, so
flipping that bit gives the same root (3-transaction block, index 2, position 3 is accepted and recorded).  The clause
"altering the position makes verification fail" is kept; `alter-pos[k]` and the bounded stand-in exclude exactly the
predicate `position_bit_is_blind` and the witness is re-run on every check.

Bounded stand-ins (run-time contract checks on the real code with the real SHA-256, never counted as proved):
`blocks[1..64]` — every block size 1..64, every index, the genuine proof and every single mutation (each branch
element, each position bit 0..len, branch truncated / extended, transaction byte, height +-1 and a height without header)
through the real maybe_verify_transaction; `claimtrie.verify_proof` — the legacy claim-trie proof checker on small tries.
"""
import asyncio
import hashlib
from binascii import hexlify, unhexlify
from pyvc.api import *
from pyvc.speclib import implies, forall, exists, matches
from lbry.wallet.ledger import Ledger
from lbry.wallet.header import Headers
from lbry.wallet.transaction import Transaction, Output
from lbry.wallet import claim_proofs

H32 = TBytes(length=32)
U32 = TInt(0, 2 ** 32 - 1)
HEADER_SIZE = 112          # LBRY block header: version 4 | previous hash 32 | merkle root 32 | claim trie root 32 | time, bits, nonce 12
ROOT_OFFSET = 36


# ---------------------------------------------------------------- specification (Merkle tree / SPV definition)

def sha(x):
    return hashlib.sha256(x).digest()


def dsha(x):
    return sha(sha(x))


def bit(pos, i):
    return (pos // 2 ** i) % 2


def fold(leaf, siblings, pos):
    """hash `leaf` up the branch: at level i the sibling is the LEFT operand iff bit i of pos is set (siblings: bytes)"""
    h = leaf
    for i in range(len(siblings)):
        if bit(pos, i) == 1:
            h = dsha(siblings[i] + h)
        else:
            h = dsha(h + siblings[i])
    return h


def wire(h):
    """hashes travel as hex of the byte-reversed hash (Bitcoin display order)"""
    return hexlify(h[::-1]).decode()


def unwire(s):
    return unhexlify(s)[::-1]


def flat(x):
    """identity; symbolically it turns a segment-structured byte string into a plain one (engine gap C08_1)"""
    return x


@model_for(flat)
def _flat(interp, st, args, kwargs):
    from pyvc.segs import VSegs, to_vbytes
    v = args[0]
    yield st, (to_vbytes(v) if isinstance(v, VSegs) else v)


@rec_spec(result=TBytes())
def fold_n(leaf, branch, pos, n):
    """the same definition for the first n levels of a wire-format branch of any length"""
    if n <= 0:
        return leaf
    below = fold_n(leaf, branch, pos, n - 1)
    sibling = unwire(branch[n - 1])
    if bit(pos, n - 1) == 1:
        return flat(dsha(sibling + below))
    return flat(dsha(below + sibling))


def fold_wire(leaf, sib, pos):
    return fold(leaf, [unwire(s) for s in sib], pos)


def fold_any(leaf, sib, pos):
    return fold_n(flat(leaf), sib, pos, len(sib))


def is_hex(s):
    return matches(s, r'[0-9a-fA-F]*') and len(s) % 2 == 0


def all_hex(sib):
    return forall(0, len(sib), lambda j: is_hex(sib[j]))


def merkle_levels(leaves):
    """Bitcoin Merkle tree: pair adjacent nodes, an odd level duplicates its last node"""
    levels = [list(leaves)]
    while len(levels[-1]) > 1:
        cur = levels[-1]
        if len(cur) % 2 == 1:
            cur = cur + [cur[-1]]
        levels.append([dsha(cur[2 * j] + cur[2 * j + 1]) for j in range(len(cur) // 2)])
    return levels


def merkle_root(leaves):
    return merkle_levels(leaves)[-1][0]


def merkle_branch(leaves, index):
    """the siblings of leaf `index` from the bottom level up (what a server sends, before hex encoding)"""
    branch = []
    for level in merkle_levels(leaves)[:-1]:
        cur = level + [level[-1]] if len(level) % 2 == 1 else level
        branch.append(cur[index + 1] if index % 2 == 0 else cur[index - 1])
        index = index // 2
    return branch


def le(v, n):
    return v.to_bytes(n, 'little')


def tx_leaf(version, locktime):
    """transaction hash of the input-less, output-less transaction used by the harnesses: double SHA-256 of its
    Bitcoin serialisation (version, zero inputs, zero outputs, locktime) — the encoding itself is C05's subject"""
    return dsha(le(version, 4) + b'\x00' + b'\x00' + le(locktime, 4))


def root_at(blob, height):
    """Merkle-root field of the header stored at `height` in the header file"""
    return blob[HEADER_SIZE * height + ROOT_OFFSET: HEADER_SIZE * height + ROOT_OFFSET + 32]


# ---------------------------------------------------------------- branch folding: any length (loop invariant)

@invariant(Ledger.get_root_of_merkle_tree, loop=1,
           havoc=dict(working_branch=TBytes(), i=TInt(), branch=TStr(), other_branch=TBytes(), other_branch_on_left=TBool(),
                      combined=TBytes()))
def _fold_inv(_i, branches, branch_positions, working_branch, old_working_branch):
    return working_branch == fold_n(flat(old_working_branch), branches, branch_positions, _i)


@proof("C08", "root[any]")
class RootAny:
    """get_root_of_merkle_tree is the Merkle fold of the definition for a branch of ANY length (loop invariant), any
    integer position, arbitrary strings as elements; only a non-hex element makes it raise"""
    inputs = dict(leaf=H32, pos=TInt(), sib=TList(TStr()))
    raises = {ValueError: lambda sib: not all_hex(sib)}
    note = "branch lengths 0..8, positions -3..2**len+1, non-hex elements"

    def run(leaf, pos, sib):
        return Ledger.get_root_of_merkle_tree(sib, pos, leaf)

    def ensures_is_merkle_fold(leaf, pos, sib, result):
        return result == hexlify(fold_any(leaf, sib, pos)[::-1])

    def samples():
        for k in range(0, 9):
            sib = [wire(bytes([i + 1, k]) * 16) for i in range(k)]
            for pos in list(range(-3, 2 ** min(k, 5) + 2)) + [2 ** k - 1, 2 ** k, 2 ** k + 1]:
                yield dict(leaf=bytes([7]) * 32, pos=pos, sib=sib)
        yield dict(leaf=bytes(32), pos=0, sib=['zz'])
        yield dict(leaf=bytes(32), pos=1, sib=[wire(bytes(32)), 'abc'])


def make_root_proof(k):
    def run(leaf, pos, sib):
        return Ledger.get_root_of_merkle_tree(sib, pos, leaf)

    def ensures_is_merkle_fold(leaf, pos, sib, result):
        return result == hexlify(fold_wire(leaf, sib, pos)[::-1])

    def ensures_wire_form(result):
        return isinstance(result, bytes) and len(result) == 64

    def samples():
        for pos in list(range(-2, 2 ** k + 2)):
            yield dict(leaf=bytes([7]) * 32, pos=pos, sib=[wire(bytes([i + 1, pos % 256]) * 16) for i in range(k)])
            yield dict(leaf=bytes(range(32)), pos=pos, sib=[wire(bytes(range(i, i + 32))).upper() for i in range(k)])
        if k:
            yield dict(leaf=bytes(32), pos=0, sib=[wire(bytes(32))] * (k - 1) + ['0g'])

    body = dict(inputs=dict(leaf=H32, pos=TInt(), sib=TList(TStr(), n=k)), run=staticmethod(run),
                raises={ValueError: lambda sib: not all_hex(sib)},
                ensures_is_merkle_fold=staticmethod(ensures_is_merkle_fold), ensures_wire_form=staticmethod(ensures_wire_form),
                samples=staticmethod(samples),
                note=f"every position -2..2**{k}+1, lower- and upper-case hex, one non-hex element",
                __doc__=f"branch of length {k} unrolled: result is the reversed hex of the fold written iteratively from the definition "
                        f"(all positions, arbitrary strings as elements)")
    proof("C08", f"root[{k}]")(type('RootProof', (), body))


for _k in range(0, 8):
    make_root_proof(_k)


# ---------------------------------------------------------------- maybe_verify_transaction on the real header store

def engine_setup():
    """natively nothing; symbolically it installs a reader for struct format '<III' (three consecutive '<I' fields,
    struct.error unless 12 bytes) — Headers.deserialize needs it (engine gap C08_2)"""
    return None


@model_for(engine_setup)
def _engine_setup(interp, st, args, kwargs):
    import struct
    import z3
    from pyvc.values import VInt, VNone, VTuple, Raise
    from pyvc.ops import unlift
    from pyvc.segs import unpack_model, struct_error, to_vbytes, VSegs
    orig = interp.models[struct.unpack]
    if not getattr(orig, '_c08', False):
        def unpack(interp, st, args, kwargs):
            if unlift(args[0]) != '<III':
                yield from orig(interp, st, args, kwargs)
                return
            data = to_vbytes(args[1]) if isinstance(args[1], VSegs) else args[1]
            ok = z3.Length(data.term()) == 12

            def go(s, i, acc):
                if i == 3:
                    yield s, VTuple(acc)
                    return
                for s2, piece in interp.bm.getitem(interp, s, data, ('slice', VInt(4 * i), VInt(4 * i + 4), VNone)):
                    for s3, tup in unpack_model(interp, s2, '<I', piece):
                        if isinstance(tup, Raise):
                            yield s3, tup
                        else:
                            yield from go(s3, i + 1, acc + [tup.items[0]])
            for s1, r in interp.alts(st, [(ok, 'ok'), (z3.Not(ok), 'bad')]):
                if r == 'bad':
                    yield s1, struct_error()
                else:
                    yield from go(s1, 0, [])
        unpack._c08 = True
        interp.models[struct.unpack] = unpack
    yield st, VNone


@model_for(asyncio.Lock)
def _lock(interp, st, args, kwargs):
    from pyvc.values import VNone
    yield st, VNone     # Headers.check_chunk_lock: only touched when a chunk_getter is installed (never here)


class HeaderBuffer:
    """stands for the BytesIO behind Headers: getbuffer() is the whole header file"""

    def __init__(self, blob):
        self.blob = blob

    def getbuffer(self):
        return self.blob


class FakeNetwork:
    """records what is asked; answers with the (symbolic) replies it was given"""

    def __init__(self, merkle_reply=None, batch_reply=None):
        self.merkle_reply = merkle_reply
        self.batch_reply = batch_reply
        self.asked = []
        self.batches = []

    async def retriable_call(self, function, *args, **kwargs):
        return await function(*args, **kwargs)

    async def get_merkle(self, tx_hash, height):
        self.asked.append((tx_hash, height))
        return self.merkle_reply

    async def get_transaction_batch(self, txids, restricted=True):
        self.batches.append(list(txids))
        return self.batch_reply


class FakeLedger:
    """duck-typed `self` for the unbound Ledger methods: exactly the attributes they touch"""
    get_root_of_merkle_tree = staticmethod(Ledger.get_root_of_merkle_tree)
    maybe_verify_transaction = Ledger.maybe_verify_transaction

    def __init__(self, headers, network):
        self.headers = headers
        self.network = network


def header_store(blob, size):
    """the REAL Headers object over an arbitrary header file `blob` holding `size` headers"""
    hs = Headers(':memory:')
    hs.io = HeaderBuffer(blob)
    hs._size = size
    return hs


SHAPES = ('supplied', 'fetched', 'fetched-after-empty', 'no-branch', 'fetched-no-branch')


def has_branch(shape):
    return shape in ('supplied', 'fetched', 'fetched-after-empty')


async def verify_harness(version, locktime, prior, height, size, blob, sib, pos, bh, shape):
    engine_setup()
    tx = Transaction(version=version, locktime=locktime, is_verified=prior)     # `prior`: any earlier history of the flag
    full = {'merkle': sib, 'pos': pos, 'block_height': bh}
    bare = {'block_height': bh}
    if shape == 'supplied':
        merkle, reply = full, None
    elif shape == 'fetched':
        merkle, reply = None, full
    elif shape == 'fetched-after-empty':
        merkle, reply = {}, full
    elif shape == 'no-branch':
        merkle, reply = bare, None
    else:
        merkle, reply = None, bare
    net = FakeNetwork(merkle_reply=reply)
    ledger = FakeLedger(header_store(blob, size), net)
    raised = False
    try:
        await Ledger.maybe_verify_transaction(ledger, tx, height, merkle)
    except ValueError:
        raised = True
    return tx.is_verified, tx.height, tx.position, net.asked, raised, tx.id


def verify_clauses(fold_of):
    """clauses of the statement; fold_of(leaf, sib, pos) is the oracle fold (iterative or recursive form)"""

    def ensures_verified_iff_branch_folds_to_header_root(version, locktime, height, size, blob, sib, pos, shape, result):
        checkable = has_branch(shape) and 0 < height < size and not result[4]
        return (not checkable) or result[0] == (fold_of(tx_leaf(version, locktime), sib, pos) == root_at(blob, height))

    def ensures_never_turned_on_without_header_or_branch(prior, height, size, shape, result):
        unverifiable = (not 0 < height < size) or (not has_branch(shape)) or result[4]
        return (not (unverifiable and not prior)) or result[0] == False    # noqa

    def ensures_only_non_hex_raises(sib, result):
        return (not result[4]) or not all_hex(sib)

    def ensures_height_and_position_recorded(height, size, pos, shape, result):
        checked = has_branch(shape) and 0 < height < size and not result[4]
        return result[1] == height and ((not (result[0] and checked)) or result[2] == pos)

    def ensures_asks_only_for_this_transaction(version, locktime, height, shape, result):
        txid = wire(tx_leaf(version, locktime))
        asked = result[3]
        return (len(asked) <= 1 and forall(0, len(asked), lambda i: asked[i] == (txid, height))
                and result[5] == txid and ((shape != 'supplied' and shape != 'no-branch') or len(asked) == 0))

    return dict(ensures_verified_iff_branch_folds_to_header_root=staticmethod(ensures_verified_iff_branch_folds_to_header_root),
                ensures_never_turned_on_without_header_or_branch=staticmethod(ensures_never_turned_on_without_header_or_branch),
                ensures_only_non_hex_raises=staticmethod(ensures_only_non_hex_raises),
                ensures_height_and_position_recorded=staticmethod(ensures_height_and_position_recorded),
                ensures_asks_only_for_this_transaction=staticmethod(ensures_asks_only_for_this_transaction))


def make_blob(size, roots):
    """a header file of `size` headers; roots: {height: 32 bytes}; other fields arbitrary filler"""
    out = b''
    for h in range(size):
        root = roots.get(h, bytes([h % 251 + 1]) * 32)
        out += bytes([h % 256]) * 4 + bytes([0xAA]) * 32 + root + bytes([0xCC]) * 32 + bytes([h % 7]) * 12
    return out


def verify_samples(ks):
    for k in ks:
        for pos in sorted({0, 1, 2 ** k - 1, 2 ** k} | set(range(0, min(2 ** k, 8)))):
            sibs = [bytes([i + 3, pos % 256]) * 16 for i in range(k)]
            leaf = tx_leaf(1, pos)
            good = fold(leaf, sibs, pos)
            for size, height in ((10, 5), (10, 9), (10, 10), (10, 0), (10, -1), (6, 5), (5, 5), (0, 0), (1, 1), (2, 1)):
                for where in ('right', 'next', 'prev', 'nowhere'):
                    roots = {}
                    if where == 'right':
                        roots[height] = good
                    elif where == 'next':
                        roots[height + 1] = good
                    elif where == 'prev':
                        roots[height - 1] = good
                    for shape in SHAPES:
                        for prior in (False, True):
                            for bh in (height, height + 1, 3):
                                if bh != height and (shape != 'supplied' or where == 'right' or prior):
                                    continue
                                yield dict(version=1, locktime=pos, prior=prior, height=height, size=size,
                                           blob=make_blob(size, roots), sib=[wire(s) for s in sibs], pos=pos, bh=bh, shape=shape)
        # the proof's own block_height names a header that WOULD match: must not be used
        sibs = [bytes([9]) * 32] * k
        good = fold(tx_leaf(2, 0), sibs, 0)
        yield dict(version=2, locktime=0, prior=False, height=4, size=10, blob=make_blob(10, {7: good}), sib=[wire(s) for s in sibs],
                   pos=0, bh=7, shape='supplied')
        if k:
            yield dict(version=2, locktime=0, prior=False, height=4, size=10, blob=make_blob(10, {4: good}),
                       sib=[wire(s) for s in sibs[:-1]] + ['xy'], pos=0, bh=4, shape='fetched')


def _verify_any_samples():
    for s in verify_samples((5, 6)):
        if s['shape'] in ('supplied', 'fetched'):
            yield s


def _blob_matches_size(blob, size):
    return len(blob) == HEADER_SIZE * size


proof("C08", "verify[any]")(type('VerifyAny', (), dict(
    inputs=dict(version=U32, locktime=U32, prior=TBool(), height=TInt(), size=TInt(0), blob=TBytes(), sib=TList(TStr()),
                pos=TInt(), bh=TInt(), shape=TOneOf(TConst('supplied'), TConst('fetched'))),
    requires=staticmethod(_blob_matches_size), run=staticmethod(verify_harness), samples=staticmethod(_verify_any_samples),
    note="branch lengths 5..6 x header at the right / neighbouring / no height x heights inside, at and beyond the tip",
    __doc__="maybe_verify_transaction with a branch of ANY length (loop invariant inside), supplied or fetched, over an arbitrary "
            "header file of any size, any earlier value of the flag: verified iff the fold equals the Merkle root field of the "
            "header AT THAT HEIGHT; never turned on without header / after a non-hex branch; height and position recorded",
    **verify_clauses(fold_any))))


def make_verify_proof(k):
    def samples():
        yield from verify_samples((k,))

    proof("C08", f"verify[{k}]")(type('VerifyProof', (), dict(
        inputs=dict(version=U32, locktime=U32, prior=TBool(), height=TInt(), size=TInt(0), blob=TBytes(), sib=TList(TStr(), n=k),
                    pos=TInt(), bh=TInt(), shape=TOneOf(*[TConst(s) for s in SHAPES])),
        requires=staticmethod(_blob_matches_size), run=staticmethod(verify_harness), samples=staticmethod(samples),
        note="positions 0..7 and around 2**k x 10 (file size, height) pairs inside / at / beyond the tip and at height <= 0 x matching "
             "root at the right, next, previous or no height x 5 reply shapes x flag on/off before x proof dict naming another height",
        __doc__=f"maybe_verify_transaction, branch of length {k} unrolled, every reply shape (proof supplied, fetched because none or an "
                f"empty one was supplied, reply without branch): same clauses as verify[any] against the iterative oracle",
        **verify_clauses(fold_wire))))


for _k in range(0, 5):
    make_verify_proof(_k)
