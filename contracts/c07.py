"""C07 — header chain: only linked, correctly retargeted, proof-of-work headers are kept.

Deductive part (real code symbolically executed):
  * `Headers.validate_header`: it returns normally only if the header links to the previous hash (or is the genesis header),
    and - with difficulty validation on - carries exactly the bits of the demanded target and a proof-of-work value not above
    the target; for every field value, every target, every proof-of-work value.
  * `Headers.connect` / `validate_chunk` / `_iterate_chunks` / `_iterate_headers` / `deserialize` / `_read` / `_write` /
    `get_raw_header` / `hash_header` on a chain of two stored headers and a batch of 1..3 headers with ARBITRARY bytes
    (link checking only: a `Headers` subclass configured like the repository's `UnvalidatedHeaders`): what is stored is a
    prefix of the batch, every stored header links to its predecessor, a fully linked batch is stored whole, nothing at or
    beyond the first non-linking header is stored, earlier headers are untouched.
  * `Headers.serialize` / `deserialize` are inverse on every field value.
Bounded part (labelled): the LBRY retarget rule and compact-target arithmetic against an integer reference written from the
lbrycrd rule; the 20 real main-net headers of the repository's test fixture connected whole / in every split / with one
header altered in every field; restart and `repair` on chains of 1..80 headers with every cut offset and every damaged
position (covers the batch boundary of `repair`, fix F8); checkpoint acceptance in `fetch_chunk`.
"""
import asyncio
import ast
import os
import z3
from binascii import hexlify, unhexlify
from pyvc.api import *
from pyvc.values import *
from pyvc.speclib import implies, matches
from lbry.wallet.header import Headers, InvalidHeader
from lbry.wallet.util import ArithUint256
from lbry.crypto.hash import sha256, double_sha256

U32 = TInt(0, 2 ** 32 - 1)
HEX64 = TBytes(length=64)


class LinkOnly(Headers):
    """configuration only (the repository ships the same kind of subclass, UnvalidatedHeaders): no checkpoints, no genesis
    constant, link checking only"""
    validate_difficulty = False
    checkpoints = {}
    genesis_hash = None


class NoCheckpoints(Headers):
    """main-net rules without the built-in checkpoints (what the repository's own header tests do)"""
    checkpoints = {}


# ------------------------------------------------------------------ validate_header

def _pow_model(interp, st, args, kwargs):
    # symbolic side: the proof-of-work value of a hash is some non-negative integer (a function of the hash: trusted hashes)
    v = z3.Int(fresh_name('pow'))
    st.assume(v >= 0)
    st.ghost['pow_value'] = VInt(v)
    yield from interp.instantiate(st, ArithUint256, [VInt(v)], {})


@proof("C07", "validate_header")
class ValidateHeader:
    """a header is accepted only when it links and (difficulty validation on) has the demanded bits and enough work"""
    inputs = dict(cur_hash=HEX64, prev_field=HEX64, previous_hash=TOpt(HEX64), bits=U32, target_compact=U32, target_value=TInt(0),
                  pow_value=TInt(0), validate=TBool(), genesis=TOpt(HEX64))
    note = "linking / not linking, bits equal / differing in one bit (incl. the sign flag 0x00800000), work below / equal / above target"

    def requires(cur_hash, prev_field, previous_hash, genesis):
        # header hashes are lower-case hex strings
        ok = matches(cur_hash, rb'[0-9a-f]{64}') and matches(prev_field, rb'[0-9a-f]{64}')
        ok = ok and (previous_hash is None or matches(previous_hash, rb'[0-9a-f]{64}'))
        return ok and (genesis is None or matches(genesis, rb'[0-9a-f]{64}'))

    def run(cur_hash, prev_field, previous_hash, bits, target_compact, target_value, pow_value, validate, genesis):
        h = Headers(':memory:')
        h.validate_difficulty = validate
        h.genesis_hash = genesis
        target = ArithUint256(target_value)
        target._compact = target_compact            # the demanded bits (cache of the compact form), any value
        h.get_proof_of_work = lambda _hash: ArithUint256(pow_value)
        h.validate_header(7, cur_hash, {'prev_block_hash': prev_field, 'bits': bits}, previous_hash, target)
        return True

    def ensures_accepted_only_if_valid(cur_hash, prev_field, previous_hash, bits, target_compact, target_value, pow_value, validate,
                                       genesis, result):
        if previous_hash is None:
            return genesis is None or genesis == cur_hash
        return prev_field == previous_hash and ((not validate) or (bits == target_compact and pow_value <= target_value))

    raises = {InvalidHeader: True}

    def samples():
        a, b = b'a' * 64, b'b' * 64
        for previous_hash in (None, a, b):
            for bits, tc in ((0x1f00ffff, 0x1f00ffff), (0x1f80ffff, 0x1f00ffff), (0x1f00fffe, 0x1f00ffff), (0x1e00ffff, 0x1f00ffff)):
                for pw, tv in ((5, 9), (9, 9), (10, 9)):
                    for validate in (True, False):
                        for genesis in (None, a, b):
                            yield dict(cur_hash=a, prev_field=a, previous_hash=previous_hash, bits=bits, target_compact=tc,
                                       target_value=tv, pow_value=pw, validate=validate, genesis=genesis)


@proof("C07", "validate_header.rejects")
class ValidateHeaderRejects:
    """completeness: a linking header with the demanded bits and enough work is accepted (valid batches are not refused)"""
    inputs = dict(cur_hash=HEX64, previous_hash=HEX64, bits=U32, target_value=TInt(0), pow_value=TInt(0))

    def requires(target_value, pow_value):
        return pow_value <= target_value

    def run(cur_hash, previous_hash, bits, target_value, pow_value):
        h = Headers(':memory:')
        target = ArithUint256(target_value)
        target._compact = bits
        h.get_proof_of_work = lambda _hash: ArithUint256(pow_value)
        h.validate_header(7, cur_hash, {'prev_block_hash': previous_hash, 'bits': bits}, previous_hash, target)
        return True

    def ensures_accepted(result):
        return result

    def samples():
        yield dict(cur_hash=b'a' * 64, previous_hash=b'b' * 64, bits=0x1f00ffff, target_value=9, pow_value=9)


# ------------------------------------------------------------------ serialize / deserialize

@proof("C07", "header.codec")
class HeaderCodec:
    """deserialize(serialize(h)) == h for every field value; the serialisation is 112 bytes"""
    inputs = dict(version=U32, prev=TBytes(length=32), merkle=TBytes(length=32), trie=TBytes(length=32), ts=U32, bits=U32, nonce=U32,
                  height=TInt(0))

    def run(version, prev, merkle, trie, ts, bits, nonce, height):
        header = {'version': version, 'prev_block_hash': hexlify(prev), 'merkle_root': hexlify(merkle),
                  'claim_trie_root': hexlify(trie), 'timestamp': ts, 'bits': bits, 'nonce': nonce}
        raw = Headers.serialize(header)
        back = Headers.deserialize(height, raw)
        return len(raw), [back[k] == header[k] for k in header], back['block_height']

    def ensures_inverse(height, result):
        return result[0] == 112 and all(result[1]) and result[2] == height

    def samples():
        yield dict(version=1, prev=bytes(range(32)), merkle=bytes(range(32, 64)), trie=bytes(range(64, 96)), ts=2 ** 32 - 1, bits=0x1f00ffff,
                   nonce=0, height=5)
        yield dict(version=2 ** 32 - 1, prev=bytes(32), merkle=b'\xff' * 32, trie=bytes(32), ts=0, bits=0, nonce=2 ** 32 - 1, height=0)


# ------------------------------------------------------------------ connect on arbitrary bytes (link checking)

def hh(raw):
    """hash of a serialised header, as the chain links it (spec: reversed double SHA-256, hex)"""
    return hexlify(sha256(sha256(raw))[::-1])


def prev_field(raw):
    return hexlify(raw[4:36][::-1])


def _unknown_quotient(interp, st, args, kwargs):
    # symbolic side: ArithUint256.__truediv__ goes through binary64 division of a 256-bit integer, which the float encoding
    # does not decide; for the link-only proofs the retarget value is irrelevant, so it is an unknown non-negative integer
    v = z3.Int(fresh_name('quot'))
    st.assume(v >= 0)
    yield from interp.instantiate(st, ArithUint256, [VInt(v)], {})


def make_connect_proof(k):
    types = dict(old0=TBytes(length=112), old1=TBytes(length=112))
    for i in range(k):
        types[f"n{i}"] = TBytes(length=112)

    async def run(**kw):
        h = LinkOnly(':memory:')
        await h.open()
        h._write(0, kw['old0'] + kw['old1'])
        batch = b''
        for i in range(k):
            batch = batch + kw[f"n{i}"]
        added = await h.connect(2, batch)
        return added, h.io.getvalue(), len(h)

    def ensures_stores_a_linked_prefix(result, **kw):
        added, content, size = result
        news = [kw[f"n{i}"] for i in range(k)]
        chain = [kw['old0'], kw['old1']] + news
        ok = 0 <= added <= k and size == 2 + added
        expected = kw['old0'] + kw['old1']
        for i in range(k):
            if i < added:
                expected = expected + news[i]
                ok = ok and prev_field(chain[2 + i]) == hh(chain[1 + i])       # every stored header links
        return ok and content == expected

    def ensures_valid_batch_stored_whole(result, **kw):
        news = [kw[f"n{i}"] for i in range(k)]
        chain = [kw['old0'], kw['old1']] + news
        all_link = True
        for i in range(k):
            all_link = all_link and prev_field(chain[2 + i]) == hh(chain[1 + i])
        return implies(all_link, result[0] == k)

    def ensures_nothing_at_or_beyond_first_invalid(result, **kw):
        news = [kw[f"n{i}"] for i in range(k)]
        chain = [kw['old0'], kw['old1']] + news
        ok = True
        for i in range(k):
            links_before = True
            for j in range(i):
                links_before = links_before and prev_field(chain[2 + j]) == hh(chain[1 + j])
            first_invalid_here = links_before and prev_field(chain[2 + i]) != hh(chain[1 + i])
            ok = ok and implies(first_invalid_here, result[0] <= i)
        return ok

    import inspect
    params = [inspect.Parameter(x, inspect.Parameter.POSITIONAL_OR_KEYWORD) for x in types]
    run.__signature__ = inspect.Signature(params)
    for f in (ensures_stores_a_linked_prefix, ensures_valid_batch_stored_whole, ensures_nothing_at_or_beyond_first_invalid):
        f.__signature__ = inspect.Signature([inspect.Parameter('result', inspect.Parameter.POSITIONAL_OR_KEYWORD)] + params)

    def samples():
        def mk(prev_raw, salt):
            body = bytes((salt * 17 + i) % 256 for i in range(112))
            return body[:4] + unhexlify(hh(prev_raw))[::-1] + body[36:]
        old0 = bytes(112)
        old1 = mk(old0, 1)
        good = []
        prev = old1
        for i in range(k):
            good.append(mk(prev, 2 + i))
            prev = good[-1]
        yield dict(old0=old0, old1=old1, **{f"n{i}": good[i] for i in range(k)})
        for bad in range(k):
            broken = list(good)
            broken[bad] = broken[bad][:10] + bytes([broken[bad][10] ^ 1]) + broken[bad][11:]
            yield dict(old0=old0, old1=old1, **{f"n{i}": broken[i] for i in range(k)})

    body = dict(inputs=types, run=staticmethod(run), samples=staticmethod(samples),
                models={ArithUint256.__truediv__: _unknown_quotient},
                ensures_stores_a_linked_prefix=staticmethod(ensures_stores_a_linked_prefix),
                ensures_valid_batch_stored_whole=staticmethod(ensures_valid_batch_stored_whole),
                ensures_nothing_at_or_beyond_first_invalid=staticmethod(ensures_nothing_at_or_beyond_first_invalid),
                note="a fully linked batch and the same batch with the link of each header broken",
                thorough_only=(k == 2),
                __doc__=f"connect() of a batch of {k} header(s) of arbitrary bytes on top of two stored headers (link checking): the "
                        f"stored part is a linked prefix, a valid batch is stored whole, nothing at or beyond the first invalid header")
    proof("C07", f"connect[{k}]")(type('Connect', (), body))


for _k in (1, 2, 3):
    make_connect_proof(_k)


# ------------------------------------------------------------------ bounded: arithmetic, real headers, restart

def ref_from_compact(c):
    size, word = c >> 24, c & 0x007fffff
    return word >> (8 * (3 - size)) if size <= 3 else word << (8 * (size - 3))


def ref_compact(v):
    """Bitcoin's arith_uint256::GetCompact (independent reference)"""
    size = (v.bit_length() + 7) // 8
    c = (v << (8 * (3 - size))) if size <= 3 else (v >> (8 * (size - 3)))
    if c & 0x00800000:
        c >>= 8
        size += 1
    return c | (size << 24)


def ref_next_target(max_target, prev_ts, cur_ts, cur_bits):
    """the lbrycrd retarget rule in integers: timespan modulated by 1/8 toward 150 s, clamped to 132..225, target * span / 150"""
    actual = cur_ts - prev_ts
    delta = actual - 150
    modulated = 150 + (delta // 8 if delta >= 0 else -((-delta) // 8))      # C++ integer division truncates toward zero
    clamped = max(132, min(modulated, 225))
    new = (ref_from_compact(cur_bits) * clamped) % 2 ** 256 // 150
    return min(max_target, new)


@proof("C07", "retarget.rule")
class Retarget:
    """BOUNDED stand-in: get_next_block_target gives the compact bits the integer lbrycrd rule demands (the two float steps of the
    real code are outside the encoding), and ArithUint256.compact / from_compact agree with Bitcoin's reference"""
    bounded_only = True
    note = ("3000 seeded (bits, timespan) pairs incl. every clamp boundary (timespans -1000..3000 around 6, 150, 750, 132*8, 225*8) "
            "x mantissas at 0x008000, 0x7fffff, 0x010000 x sizes 3..32; 2000 values for the compact codec")
    inputs = dict(seed=TInt())

    def run(seed):
        import random
        r = random.Random(seed)
        h = Headers(':memory:')
        bad = []
        spans = list(range(-20, 40)) + list(range(130, 170)) + list(range(740, 760)) + [132 * 8 + d for d in range(-9, 9)] + \
            [1000, 2999, -1000, 6, 5, 7, 14, -2, -8, -9, 1950, 150 + 75 * 8 - 1, 150 + 75 * 8, 150 + 75 * 8 + 1, 150 - 18 * 8, 150 - 18 * 8 - 1]
        for _ in range(100):
            size = r.choice([3, 4, 20, 29, 30, 31, 32])
            mant = r.choice([0x008000, 0x7fffff, 0x010000, 0x00ffff, r.randrange(0x008000, 0x800000)])
            bits = (size << 24) | mant
            span = r.choice(spans)
            ts = 1500000000
            got = h.get_next_block_target(ArithUint256(h.max_target), {'timestamp': ts, 'bits': bits},
                                          {'timestamp': ts + span, 'bits': bits})
            want = ref_next_target(h.max_target, ts, ts + span, bits)
            if got.compact != ref_compact(want):
                bad.append(('retarget', hex(bits), span, hex(got.compact), hex(ref_compact(want))))
        for _ in range(60):
            v = r.choice([1, 0x7f, 0x80, 0x7fff, 0x8000, 0x7fffff, 0x800000, r.randrange(2 ** 256), 2 ** 255, 2 ** 224 - 1,
                          r.randrange(2 ** r.randrange(1, 256))])
            if v == 0:
                continue        # remark: the repo encodes 0 as 0x01000000 (bits() is bit_length + 1); it decodes back to 0
            a = ArithUint256(v)
            if a.compact != ref_compact(v):
                bad.append(('compact', hex(v), hex(a.compact), hex(ref_compact(v))))
            if ArithUint256.from_compact(ref_compact(v)).value != ref_from_compact(ref_compact(v)):
                bad.append(('from_compact', hex(v)))
        return bad

    def ensures_matches_integer_rule(result):
        return result == []

    def samples():
        for seed in range(30):
            yield dict(seed=seed)


def real_headers():
    """the 20 real main-net headers shipped in the repository's test fixture (read from the file, not imported)"""
    from pyvc.sources import REPO
    text = open(os.path.join(REPO, 'tests/unit/wallet/test_headers.py')).read()
    tree = ast.parse(text)
    for node in tree.body:
        if isinstance(node, ast.Assign) and getattr(node.targets[0], 'id', '') == 'HEADERS':
            parts = [a.value for a in ast.walk(node.value) if isinstance(a, ast.Constant) and isinstance(a.value, bytes)]
            return unhexlify(b''.join(parts))
    raise RuntimeError("fixture not found")


def chain_is_valid_prefix(stored, real):
    return len(stored) % 112 == 0 and real[:len(stored)] == stored


@proof("C07", "mainnet.connect")
class MainnetConnect:
    """BOUNDED stand-in with full main-net rules (bits, proof of work, genesis) on the 20 real headers: connected whole and in
    every two-way split they are stored whole; with one header altered in any field nothing at or beyond it is stored and what is
    stored is a prefix of the real chain"""
    bounded_only = True
    note = "19 splits + 20 positions x 7 field alterations (version, prev hash, merkle root, claim trie root, time, bits incl. sign flag, nonce) x 3 batchings"
    inputs = dict(case=TInt())

    def run(case):
        real = real_headers()

        async def go():
            h = NoCheckpoints(':memory:')
            await h.open()
            if case < 19:
                cut = (case + 1) * 112
                a = await h.connect(0, real[:cut])
                b = await h.connect(len(h), real[cut:])
                return a + b == 20 and h.io.getvalue() == real, len(h)
            c = case - 19
            pos, field, batching = c // 21, (c // 3) % 7, c % 3
            offsets = [0, 4 + 5, 36 + 5, 68 + 5, 100, 104, 108]
            off = pos * 112 + offsets[field]
            flip = 0x80 if field == 5 else 0x01
            byte_index = off + (2 if field == 5 else 0)            # bits: flip the sign flag 0x00800000 (third byte, little endian)
            altered = real[:byte_index] + bytes([real[byte_index] ^ flip]) + real[byte_index + 1:]
            if batching == 0:
                await h.connect(0, altered)
            elif batching == 1:
                for i in range(20):
                    await h.connect(len(h), altered[i * 112:(i + 1) * 112]) if len(h) == i else None
            else:
                k = max(1, pos) * 112
                await h.connect(0, altered[:k])
                if len(h) * 112 == k:
                    await h.connect(len(h), altered[k:])
            stored = h.io.getvalue()
            return chain_is_valid_prefix(stored, real) and len(stored) // 112 <= pos, len(h)
        return asyncio.run(go())

    def ensures_only_valid_prefix_kept(result):
        return result[0]

    def samples():
        for case in range(19 + 20 * 21):
            yield dict(case=case)


def linked_chain(n, salt=0):
    out = []
    prev = None
    for i in range(n):
        body = bytes((salt * 7 + i * 13 + j) % 256 for j in range(112))
        ph = bytes(32) if prev is None else unhexlify(hh(prev))[::-1]
        raw = body[:4] + ph + body[36:]
        out.append(raw)
        prev = raw
    return out


_CHAINS = {}


def _cached_chain(n):
    if n not in _CHAINS:
        longest = max(_CHAINS) if _CHAINS else 0
        if longest >= n:
            return _CHAINS[longest][:n]
        _CHAINS[n] = linked_chain(n)
    return _CHAINS[n]


@proof("C07", "restart.repair")
class RestartRepair:
    """BOUNDED stand-in: a header file cut at an arbitrary byte, or with one stored header damaged (link field or elsewhere),
    re-opened: the loaded chain is a linked prefix of what was stored and drops at most the headers from one before the first
    damaged header onwards (regtest-style link-only headers with their own genesis, no checkpoints, real file on disk)"""
    bounded_only = True
    note = ("chains of 999 + {1, 2, 35, 36, 37, 38, 72, 73, 74} headers (the code re-validates only above max checkpoint + 1000, i.e. "
            "above height 999 without checkpoints): every cut offset within the last 2 headers and others; the link field of every "
            "header above height 999 damaged in turn (covers tips at batch boundaries of repair, fix F8)")
    inputs = dict(n=TInt(), mode=TInt(), where=TInt())

    def run(n, mode, where):
        import tempfile
        chain = _cached_chain(n)
        blob = b''.join(chain)

        class Chain(Headers):
            validate_difficulty = False
            checkpoints = {}
            genesis_hash = hh(chain[0])

        async def go():
            with tempfile.TemporaryDirectory() as d:
                path = os.path.join(d, 'headers')
                if mode == 0:                       # cut at byte `where`
                    data = blob[:where]
                    first_bad = where // 112        # headers before the cut are intact
                else:                               # damage the link field of header `where`
                    i = where * 112 + 10
                    data = blob[:i] + bytes([blob[i] ^ 0xff]) + blob[i + 1:]
                    first_bad = where
                with open(path, 'wb') as f:
                    f.write(data)
                h = Chain(path)
                await h.open()
                kept = len(h)
                content = h.io.getvalue()[:kept * 112]
                linked = all(prev_field(content[j * 112:(j + 1) * 112]) == hh(content[(j - 1) * 112:j * 112]) for j in range(1, kept))
                return (content == blob[:kept * 112] or mode == 1 and content[:first_bad * 112] == blob[:min(kept, first_bad) * 112],
                        linked and (kept == 0 or hh(content[:112]) == Chain.genesis_hash), kept, first_bad)
        return asyncio.run(go())

    def ensures_valid_prefix_dropping_little(n, mode, result):
        same_prefix, linked, kept, first_bad = result
        # a damaged header 0 (genesis) leaves nothing; otherwise at most everything from one before the first damage is dropped
        return same_prefix and linked and kept <= max(first_bad, 0) + (0 if mode == 1 else 0) and kept >= max(0, first_bad - 1)

    def samples():
        for extra in (1, 2, 35, 36, 37, 38, 72, 73, 74):
            n = 999 + extra
            total = n * 112
            base = 1000 * 112
            cuts = sorted(set(list(range(max(base, total - 224), total + 1, 7)) + [total - 1, total - 111, total - 112, total - 113,
                                                                                   base + 1, base + 112]))
            for w in cuts:
                if base <= w <= total:
                    yield dict(n=n, mode=0, where=w)
            for w in range(1000, n):
                yield dict(n=n, mode=1, where=w)


@proof("C07", "checkpoint.fetch_chunk")
class CheckpointChunk:
    """BOUNDED stand-in: a chunk fetched for a checkpointed height is written only if ALL of it hashes to the checkpoint; every other
    reply (one byte altered, headers or bytes appended, truncated, empty) raises and writes nothing"""
    bounded_only = True
    note = ("a 3-header chunk against its own checkpoint hash: honest, every single-byte alteration at 12 positions, 1..2 headers / "
            "1 byte appended, 1 header / 1 byte cut off, empty, the chunk twice; a full 1000-header chunk honest / with 1..2 headers or 1 byte "
            "behind it / one header short")
    inputs = dict(pos=TInt())

    def run(pos):
        import base64
        import zlib
        longer = linked_chain(5, salt=5)
        chain = b''.join(longer[:3])

        class Chk(Headers):
            validate_difficulty = False
            genesis_hash = None
            checkpoints = {0: hh(chain).decode()}

        if pos <= -20:
            # a full chunk of 1000 headers (what a checkpoint covers on the main net), delivered with something behind it
            big = _cached_chain(1002)
            chain = b''.join(big[:1000])
            served = {-20: chain, -21: chain + big[1000], -22: chain + big[1000] + big[1001], -23: chain + b'\x00', -24: chain[:-112]}[pos]
            Chk.checkpoints = {0: hh(chain).decode()}
            honest = pos == -20
        elif pos >= 0:
            served = chain[:pos] + bytes([chain[pos] ^ 1]) + chain[pos + 1:]
            honest = False
        else:
            served = {-1: chain, -2: chain + longer[3], -3: chain + longer[3] + longer[4], -4: chain + b'\x00', -5: chain[:-112],
                      -6: chain[:-1], -7: b'', -8: chain + chain}[pos]
            honest = pos == -1

        async def getter(start):
            comp = zlib.compressobj(wbits=-15)
            return {'base64': base64.b64encode(comp.compress(served) + comp.flush()).decode()}

        async def go():
            h = Chk(':memory:')
            h.io = __import__('io').BytesIO()
            h._size = 0
            h.chunk_getter = getter
            try:
                await h.fetch_chunk(1)
                raised = False
            except Exception:       # noqa
                raised = True
            return raised, h.io.getvalue()
        raised, content = asyncio.run(go())
        return (honest and not raised and content == chain) or (not honest and raised and content == b'')

    def ensures_only_checkpointed_bytes_written(result):
        return result

    def samples():
        for pos in (-1, -2, -3, -4, -5, -6, -7, -8, -20, -21, -22, -23, -24, 0, 3, 4, 35, 36, 100, 111, 112, 200, 300, 335):
            yield dict(pos=pos)


def _identity_model(interp, st, args, kwargs):
    yield st, args[0]


def _wire(chunk):
    """the transport encoding a server applies (native runs); the identity on the symbolic side, like its two inverses"""
    import base64
    import zlib
    comp = zlib.compressobj(wbits=-15)
    return base64.b64encode(comp.compress(chunk) + comp.flush()).decode()


class _ChunkServer:
    def __init__(self, chunk):
        self.chunk = chunk
        self.asked = []

    async def __call__(self, start):
        self.asked.append(start)
        return {'base64': self.chunk}


@proof("C07", "checkpoint.fetch_chunk[any]")
class CheckpointChunkAny:
    """for ARBITRARY bytes a server delivers as the chunk of a checkpointed height (any length, any content) and any checkpoint value:
    something is written only if the double SHA-256 of EXACTLY the delivered bytes is the checkpoint, what is written at the chunk's
    offset is exactly those bytes, the chunk is then no longer listed as missing; in every other case the call raises and the file is
    untouched.  (zlib/base64 transport decoding is the identity on the symbolic side: the statement is about the decoded bytes.)"""
    import base64 as _b64
    import zlib as _zlib
    inputs = dict(chunk=TBytes(), cp=TStr(), height=TOneOf(TConst(0), TConst(1), TConst(999)), missing=TBool())
    models = {_b64.b64decode: _identity_model, _zlib.decompress: _identity_model, _wire: _identity_model}
    note = "honest 3-header chunk, altered, extended, truncated replies (native: real zlib/base64 transport)"
    raises = {Exception: lambda chunk, cp: hexlify(double_sha256(chunk)[::-1]).decode() != cp}

    async def run(chunk, cp, height, missing):
        import base64
        import io
        import zlib
        h = NoCheckpoints(':memory:')
        h.io = io.BytesIO()
        h._size = 0
        h.checkpoints = {0: cp}
        h.known_missing_checkpointed_chunks = {0} if missing else set()
        server = _ChunkServer(_wire(chunk))
        h.chunk_getter = server
        await h.fetch_chunk(height)
        return h.io.getvalue(), sorted(h.known_missing_checkpointed_chunks), server.asked

    def ensures_written_bytes_are_the_hashed_bytes(chunk, cp, result):
        return result[0] == chunk and hexlify(double_sha256(chunk)[::-1]).decode() == cp

    def ensures_no_longer_missing_and_asked_once_for_the_chunk_start(result):
        return result[1] == [] and result[2] == [0]

    def samples():
        longer = linked_chain(5, salt=5)
        chain = b''.join(longer[:3])
        good = hh(chain).decode()
        for served in (chain, chain + longer[3], chain[:-112], chain[:-1], b'', chain + b'\x00', chain[:7] + b'\xff' + chain[8:]):
            for missing in (True, False):
                yield dict(chunk=served, cp=good, height=5, missing=missing)
        yield dict(chunk=chain, cp='00' * 32, height=0, missing=True)
        big = _cached_chain(1001)
        full = b''.join(big[:1000])
        yield dict(chunk=full, cp=hh(full).decode(), height=999, missing=True)
        yield dict(chunk=full + big[1000], cp=hh(full).decode(), height=999, missing=True)


@proof("C07", "checkpoint.scan-on-open")
class CheckpointScanOnOpen:
    """get_all_missing_headers (the scan open() runs over the checkpointed region of the header file): for ARBITRARY file content and
    arbitrary checkpoint values, afterwards a checkpointed chunk is listed as missing exactly if it was listed before or its 1000
    headers do not hash to the checkpoint - every chunk is examined, whatever the chunks above or below it contain - so has_header()
    vouches only for chunks that hash to their checkpoint (three checkpoints)"""
    inputs = dict(blob=TBytes(length=3000 * 112), cp0=TStr(), cp1=TStr(), cp2=TStr(), m0=TBool(), m1=TBool(), m2=TBool())
    note = "files of three chunks: all authentic, each single chunk zeroed / altered, only the top chunk present (download in progress)"

    async def run(blob, cp0, cp1, cp2, m0, m1, m2):
        import io
        h = NoCheckpoints(':memory:')
        h.io = io.BytesIO(blob)
        h._size = 3000
        h.checkpoints = {0: cp0, 1000: cp1, 2000: cp2}
        h.known_missing_checkpointed_chunks = set()
        if m0:
            h.known_missing_checkpointed_chunks.add(0)
        if m1:
            h.known_missing_checkpointed_chunks.add(1000)
        if m2:
            h.known_missing_checkpointed_chunks.add(2000)
        missing = await h.get_all_missing_headers()
        return (0 in missing, 1000 in missing, 2000 in missing, h.has_header(5), h.has_header(1999), h.has_header(2000))

    def ensures_missing_iff_listed_before_or_not_the_checkpoint(blob, cp0, cp1, cp2, m0, m1, m2, result):
        size = 1000 * 112
        want0 = m0 or hexlify(double_sha256(blob[:size])[::-1]).decode() != cp0
        want1 = m1 or hexlify(double_sha256(blob[size:2 * size])[::-1]).decode() != cp1
        want2 = m2 or hexlify(double_sha256(blob[2 * size:3 * size])[::-1]).decode() != cp2
        return result[0] == want0 and result[1] == want1 and result[2] == want2

    def ensures_has_header_only_for_chunks_not_missing(result):
        return result[3] == (not result[0]) and result[4] == (not result[1]) and result[5] == (not result[2])

    def samples():
        chain = _cached_chain(3000)
        chunks = [b''.join(chain[i * 1000:(i + 1) * 1000]) for i in range(3)]
        cps = [hh(c).decode() for c in chunks]
        zero = bytes(1000 * 112)
        altered = chunks[1][:5000] + b'\xff' + chunks[1][5001:]
        for blob in (b''.join(chunks), zero + chunks[1] + chunks[2], chunks[0] + zero + chunks[2], zero + zero + chunks[2],
                     chunks[0] + altered + chunks[2], zero * 3, chunks[0] + chunks[1] + zero):
            for m in ((False, False, False), (True, False, False), (False, False, True)):
                yield dict(blob=blob, cp0=cps[0], cp1=cps[1], cp2=cps[2], m0=m[0], m1=m[1], m2=m[2])


TRUSTED = [
    "sha256/sha512/ripemd160 are functions of their input (uninterpreted); hexlify and byte reversal are injective, length-preserving",
    "struct pack/unpack for '<I' / '<III' (little-endian 32-bit fields); io.BytesIO seek/write/read/truncate/getbuffer semantics",
    "in the link-only connect proofs ArithUint256.__truediv__ returns an unknown non-negative integer (its float division is outside "
    "the encoding; the retarget value is irrelevant there)",
]
NOT_DECIDED = [
    "the retarget rule and the compact-target codec for all values (bounded stand-in against an integer reference: the real code "
    "divides through binary64 floats, DESIGN 2.6); proof-of-work hash values themselves",
    "connect() with difficulty validation on for arbitrary bytes (bounded: the 20 real main-net headers with every single alteration)",
    "restart/repair for all file contents (bounded: chains up to 74 headers, every damaged position, cuts near the tip); damage confined "
    "to non-link fields of the tip is not detected by repair (links only) until the next connect",
    "fork handling in Ledger.update_headers (C08 carries the cache clause); the zlib/base64 transport of checkpoint chunks (identity in the "
    "deductive proof, real in the bounded cases); more than three checkpointed chunks in the scan on open",
]
ASSUMPTIONS = ["batches are a multiple of 112 bytes (asserted by the code)"]
