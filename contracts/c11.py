"""C11 — DHT routing table stays a well-formed Kademlia tree; closest-K is exact.

The real `KBucket` and `TreeRoutingTable` methods are symbolically executed from ARBITRARY well-formed table states of a
bounded shape, built by state injection (bucket boundaries and contact distances are symbolic 384-bit integers, so every
earlier history leading to such a shape is covered): `__init__`, `_kbucket_index`, `KBucket.add_peer`, `_split_bucket`,
`_join_buckets`, `remove_peer`, `find_close_peers`, `add_peer` (including its ping-eviction branch and a probe during
which another task changes the table).  The class invariant WF is written from the statement: buckets cover
[0, 2**384) exactly once, every contact sits in the bucket covering its distance, no bucket exceeds its capacity, no
node id and no (address, port) appears twice.
W.l.o.g. the own node id is all zeros: the code uses node ids only through `Distance(own)(id) = own XOR id`, a bijection
of the id space, so distances ARE the ids (stated as an assumption; the bounded stand-in uses random own ids).
Full-bucket branches are proved on buckets whose capacity field is injected as 2 (the code is parametric in the capacity
field); buckets of K = 8 contacts, long histories and random own ids are exercised by the bounded stand-in.
"""
import asyncio
from pyvc.api import *
from pyvc.speclib import implies
from lbry.dht import constants
from lbry.dht.error import RemoteException
from lbry.dht.peer import make_kademlia_peer
from lbry.dht.protocol.routing_table import KBucket, TreeRoutingTable

TOP = 2 ** 384
OWN = bytes(48)
DIST = TInt(0, TOP - 1)
ADDRS = ['8.8.%d.%d' % (i // 200 + 1, i % 200 + 1) for i in range(40)]


def nid(d):
    return d.to_bytes(48, 'big')


def mkpeer(d, k):
    """contact at distance d from the (all-zero) own id, at the k-th distinct public address"""
    return make_kademlia_peer(nid(d), ADDRS[k], 4000 + k)


def dist(peer):
    return int.from_bytes(peer.node_id, 'big')


class PM:
    """peer manager seen by the routing table: every liveness answer is an input of the proof"""

    def __init__(self, good=None, last_replied=None):
        self.good = good
        self.last_replied = last_replied

    def contact_triple_is_good(self, node_id, address, udp_port):
        return self.good

    def get_last_replied(self, address, udp_port):
        return self.last_replied


class Loop:
    def __init__(self, now=1000):
        self.now = now

    def time(self):
        return self.now


def table_of(bounds, contents, capacities=None, pm=None):
    """state injection: a table whose buckets are [bounds[i], bounds[i+1]) holding the given contacts"""
    pm = pm or PM()
    t = TreeRoutingTable(Loop(), pm, OWN)
    buckets = []
    for i in range(len(contents)):
        b = KBucket(pm, bounds[i], bounds[i + 1], OWN)
        b.peers = list(contents[i])
        if capacities is not None:
            b.capacity = capacities[i]
        buckets.append(b)
    t.buckets = buckets
    return t


def wf(t):
    """the class invariant, from the statement"""
    bs = t.buckets
    ok = len(bs) >= 1 and bs[0].range_min == 0 and bs[len(bs) - 1].range_max == TOP
    everyone = []
    for i in range(len(bs)):
        b = bs[i]
        ok = ok and b.range_min < b.range_max and len(b.peers) <= b.capacity
        if i + 1 < len(bs):
            ok = ok and b.range_max == bs[i + 1].range_min
        for p in b.peers:
            ok = ok and b.range_min <= dist(p) and dist(p) < b.range_max
            everyone.append(p)
    for i in range(len(everyone)):
        for j in range(i + 1, len(everyone)):
            ok = ok and everyone[i].node_id != everyone[j].node_id
            ok = ok and (everyone[i].address, everyone[i].udp_port) != (everyone[j].address, everyone[j].udp_port)
    return ok


def members(t):
    return [dist(p) for b in t.buckets for p in b.peers]


def shape(t):
    return [(b.range_min, b.range_max, [dist(p) for p in b.peers]) for b in t.buckets]


def same_members(a, b):
    ok = len(a) == len(b)
    for x in a:
        ok = ok and x in b
    return ok


# ------------------------------------------------------------------ constructor, index

@proof("C11", "init")
class Init:
    """a fresh table is well formed: one bucket covering the whole distance space"""
    inputs = dict(bootstrap=TBool())

    def run(bootstrap):
        t = TreeRoutingTable(Loop(), PM(), OWN, is_bootstrap_node=bootstrap)
        return wf(t), shape(t), t.buckets[0].capacity

    def ensures_wf(bootstrap, result):
        return result[0] and result[1] == [(0, TOP, [])] and result[2] == ((1 << 32) if bootstrap else constants.K)

    def samples():
        yield dict(bootstrap=False)
        yield dict(bootstrap=True)


@proof("C11", "kbucket_index")
class KBucketIndex:
    """on a well-formed table the index returned for a key is the unique bucket covering its distance (never past the end)"""
    inputs = dict(r1=DIST, r2=DIST, d=DIST)

    def requires(r1, r2):
        return 0 < r1 < r2 < TOP

    def run(r1, r2, d):
        t = table_of([0, r1, r2, TOP], [[], [], []])
        return t._kbucket_index(nid(d))

    def ensures_unique_covering_bucket(r1, r2, d, result):
        return result == (0 if d < r1 else (1 if d < r2 else 2))

    def samples():
        r1, r2 = 2 ** 382, 2 ** 383
        for d in (0, 1, r1 - 1, r1, r1 + 1, r1 + 2 ** 381 - 1, r1 + 2 ** 381, r2 - 1, r2, TOP - 1):
            yield dict(r1=r1, r2=r2, d=d)


# ------------------------------------------------------------------ KBucket.add_peer

@proof("C11", "kbucket.add_peer")
class KBucketAdd:
    """a bucket never exceeds its capacity and never holds a node id twice; a re-added contact moves to the tail"""
    inputs = dict(d1=DIST, d2=DIST, dn=DIST, cap=TInt(2, 8), same_address=TBool())
    note = "capacities 2, 3 and 8; new contact distinct / re-added / same id from a new address"

    def requires(d1, d2):
        return d1 != d2

    def run(d1, d2, dn, cap, same_address):
        b = KBucket(PM(), 0, TOP, OWN, cap)
        p1, p2 = mkpeer(d1, 1), mkpeer(d2, 2)
        b.peers = [p1, p2]
        new = mkpeer(dn, 1 if same_address else 3)
        added = b.add_peer(new)
        return added, [(dist(p), p.address) for p in b.peers], new.address

    def ensures_no_duplicate_ids_and_capacity(cap, result):
        ps = result[1]
        ok = len(ps) <= cap
        for i in range(len(ps)):
            for j in range(i + 1, len(ps)):
                ok = ok and ps[i][0] != ps[j][0]
        return ok

    def ensures_outcome(d1, d2, dn, cap, result):
        added, ps, addr = result
        known = dn == d1 or dn == d2
        if known:
            # refreshed: same ids, the refreshed one last, carrying the new contact's address
            return added and len(ps) == 2 and ps[1] == (dn, addr) and ps[0][0] == (d2 if dn == d1 else d1)
        if cap > 2:
            return added and [p[0] for p in ps] == [d1, d2, dn]
        return (not added) and [p[0] for p in ps] == [d1, d2]

    def samples():
        for cap in (2, 3, 8):
            for dn in (5, 7, 9):
                for same in (False, True):
                    yield dict(d1=5, d2=7, dn=dn, cap=cap, same_address=same)


# ------------------------------------------------------------------ split / join / remove

@proof("C11", "split")
class Split:
    """splitting any bucket of a well-formed table gives a well-formed table with one more bucket and the same contacts"""
    inputs = dict(r1=DIST, which=TOneOf(TConst(0), TConst(1)), a=DIST, b=DIST, c=DIST, other=DIST)
    note = "split points at powers of two and odd ranges, contacts on both sides and exactly at the split point"

    def requires(r1, which, a, b, c, other):
        lo, hi = (0, r1) if which == 0 else (r1, TOP)
        olo, ohi = (r1, TOP) if which == 0 else (0, r1)
        return (0 < r1 < TOP and hi - lo >= 2 and lo <= a < hi and lo <= b < hi and lo <= c < hi and a != b and b != c and a != c
                and olo <= other < ohi)

    def run(r1, which, a, b, c, other):
        mine = [mkpeer(a, 1), mkpeer(b, 2), mkpeer(c, 3)]
        rest = [mkpeer(other, 4)]
        t = table_of([0, r1, TOP], [mine, rest] if which == 0 else [rest, mine])
        before = shape(t)
        t._split_bucket(which)
        return wf(t), shape(t), before

    def ensures_wf(result):
        return result[0]

    def ensures_same_contacts_one_more_bucket(which, a, b, c, other, result):
        sh = result[1]
        ms = [d for (lo, hi, ds) in sh for d in ds]
        return len(sh) == 3 and same_members(ms, [a, b, c, other])

    def ensures_other_bucket_untouched(which, result):
        sh, before = result[1], result[2]
        return sh[2 if which == 0 else 0] == before[1 if which == 0 else 0]

    def ensures_split_covers_old_range(which, result):
        sh, before = result[1], result[2]
        i = which
        return sh[i][0] == before[i][0] and sh[i][1] == sh[i + 1][0] and sh[i + 1][1] == before[i][1]

    def samples():
        for r1 in (2 ** 383, 2 ** 383 + 1, 7):
            for which in (0, 1):
                lo, hi = (0, r1) if which == 0 else (r1, TOP)
                mid = hi - (hi - lo) // 2
                if hi - lo < 4:
                    continue
                olo = r1 if which == 0 else 0
                yield dict(r1=r1, which=which, a=lo, b=mid - 1, c=mid, other=olo)
                yield dict(r1=r1, which=which, a=lo + 1, b=mid, c=hi - 1, other=olo)
                yield dict(r1=r1, which=which, a=lo, b=lo + 1, c=lo + 2, other=olo)


@proof("C11", "join")
class Join:
    """merging away empty buckets keeps the table well formed (no gap, no overlap) and keeps every contact"""
    inputs = dict(r1=DIST, r2=DIST, r3=DIST, e0=TBool(), e1=TBool(), e2=TBool(), e3=TBool(), a=DIST, b=DIST, c=DIST, d=DIST)
    note = "4 buckets with every subset empty, boundaries at powers of two and odd points"

    def requires(r1, r2, r3, e0, e1, e2, e3, a, b, c, d):
        return (0 < r1 < r2 < r3 < TOP and 0 <= a < r1 and r1 <= b < r2 and r2 <= c < r3 and r3 <= d < TOP)

    def run(r1, r2, r3, e0, e1, e2, e3, a, b, c, d):
        contents = [[] if e0 else [mkpeer(a, 1)], [] if e1 else [mkpeer(b, 2)], [] if e2 else [mkpeer(c, 3)],
                    [] if e3 else [mkpeer(d, 4)]]
        t = table_of([0, r1, r2, r3, TOP], contents)
        before = members(t)
        t._join_buckets()
        return wf(t), members(t), before, len(t.buckets), [len(b.peers) for b in t.buckets]

    def ensures_wf_and_same_contacts(result):
        return result[0] and result[1] == result[2]

    def ensures_no_empty_bucket_left_unless_alone(result):
        n, sizes = result[3], result[4]
        return n == 1 or 0 not in sizes

    def samples():
        import itertools
        for r1, r2, r3 in ((2 ** 381, 2 ** 382, 2 ** 383), (5, 11, 2 ** 200 + 1)):
            for es in itertools.product([False, True], repeat=4):
                yield dict(r1=r1, r2=r2, r3=r3, e0=es[0], e1=es[1], e2=es[2], e3=es[3], a=r1 - 1, b=r1, c=r3 - 1, d=TOP - 1)


@proof("C11", "remove_peer")
class RemovePeer:
    """removing a contact (known or unknown) keeps the table well formed and removes exactly that contact"""
    inputs = dict(r1=DIST, r2=DIST, a=DIST, b=DIST, c=DIST, victim=TInt(0, 3), ghost=DIST)

    def requires(r1, r2, a, b, c, ghost):
        return 0 < r1 < r2 < TOP and 0 <= a < r1 and r1 <= b < r2 and r2 <= c < TOP and ghost != a and ghost != b and ghost != c

    def run(r1, r2, a, b, c, victim, ghost):
        ps = [mkpeer(a, 1), mkpeer(b, 2), mkpeer(c, 3)]
        t = table_of([0, r1, r2, TOP], [[ps[0]], [ps[1]], [ps[2]]])
        target = ps[victim] if victim < 3 else mkpeer(ghost, 9)
        t.remove_peer(target)
        return wf(t), members(t)

    def ensures_wf_and_exactly_one_gone(a, b, c, victim, result):
        expected = [x for i, x in enumerate([a, b, c]) if i != victim]
        return result[0] and result[1] == expected

    def samples():
        for victim in range(4):
            yield dict(r1=2 ** 382, r2=2 ** 383, a=1, b=2 ** 382, c=TOP - 1, victim=victim, ghost=77)
            yield dict(r1=2 ** 382, r2=2 ** 383, a=2 ** 382 - 1, b=2 ** 382 + 2 ** 381 - 1, c=2 ** 383, victim=victim, ghost=2 ** 382 + 2 ** 381)


# ------------------------------------------------------------------ closest contacts

def make_find_proof(n):
    types = dict(key=TBytes(length=48), r1=DIST, count=TOneOf(TNone(), TInt(1, 6)), sender=TInt(-1, n))
    for i in range(n):
        types[f"d{i}"] = DIST

    def run(**kw):
        ds = [kw[f"d{i}"] for i in range(n)]
        r1 = kw['r1']
        low = [mkpeer(d, i + 1) for i, d in enumerate(ds) if d < r1]
        high = [mkpeer(d, i + 1) for i, d in enumerate(ds) if not d < r1]
        t = table_of([0, r1, TOP], [low, high])
        s = kw['sender']
        sender_id = None if s < 0 else (OWN if s == n else nid(ds[s]))
        found = t.find_close_peers(kw['key'], kw['count'], sender_id)
        k = int.from_bytes(kw['key'], 'big')
        return [dist(p) for p in found], [(k ^ dist(p)) for p in found], sender_id

    def requires(**kw):
        ds = [kw[f"d{i}"] for i in range(n)]
        ok = 0 < kw['r1'] < TOP
        for i in range(n):
            ok = ok and ds[i] != 0
            for j in range(i + 1, n):
                ok = ok and ds[i] != ds[j]
        return ok

    def ensures_exact_closest(result, **kw):
        ds = [kw[f"d{i}"] for i in range(n)]
        found, keyed, sender_id = result
        k = int.from_bytes(kw['key'], 'big')
        eligible = [d for d in ds if sender_id is None or nid(d) != sender_id]
        want = min(kw['count'] or constants.K, len(eligible))
        ok = len(found) == want
        for i in range(len(found)):
            ok = ok and found[i] in eligible and (i == 0 or keyed[i - 1] < keyed[i])      # ascending, hence no duplicates
        for d in eligible:
            ok = ok and (d in found or len(found) == 0 or (k ^ d) > keyed[len(keyed) - 1])   # nothing closer was left out
        return ok

    import inspect
    params = [inspect.Parameter(x, inspect.Parameter.POSITIONAL_OR_KEYWORD) for x in types]
    run.__signature__ = inspect.Signature(params)
    requires.__signature__ = inspect.Signature(params)
    ensures_exact_closest.__signature__ = inspect.Signature([inspect.Parameter('result', inspect.Parameter.POSITIONAL_OR_KEYWORD)] + params)

    def samples():
        import random
        r = random.Random(11)
        for _ in range(40):
            d = dict(key=bytes(r.randrange(256) for _ in range(48)), r1=2 ** 383, count=r.choice([None, 1, 2, 3, 6]), sender=r.randrange(-1, n + 1))
            for i in range(n):
                d[f"d{i}"] = r.choice([1, 2, 3, 2 ** 383 - 1, 2 ** 383, 2 ** 383 + 1, TOP - 1, r.randrange(1, TOP)]) + i * 16
            yield d

    body = dict(inputs=types, run=staticmethod(run), requires=staticmethod(requires), samples=staticmethod(samples),
                ensures_exact_closest=staticmethod(ensures_exact_closest),
                note="40 seeded random keys / counts / senders over contacts at bucket boundaries",
                __doc__=f"find_close_peers over {n} contacts in two buckets: exactly the min(count or K, eligible) contacts nearest the key "
                        f"by XOR distance, ascending, never the node itself or the requester (XOR is uninterpreted: exactness only needs order)")
    proof("C11", f"find_close_peers[{n}]")(type('Find', (), body))


for _n in (0, 1, 3):
    make_find_proof(_n)


# ------------------------------------------------------------------ TreeRoutingTable.add_peer

async def never_probe(peer):
    raise AssertionError("probe must not be called")


def located(t, d):
    """index of the bucket holding the contact at distance d, -1 if absent"""
    for i in range(len(t.buckets)):
        if d in [dist(p) for p in t.buckets[i].peers]:
            return i
    return -1


@proof("C11", "add_peer.room")
class AddPeerRoom:
    """adding an unknown contact where its bucket has room: admitted, placed in the bucket covering its distance, table well formed"""
    inputs = dict(r1=DIST, a=DIST, b=DIST, dn=DIST)

    def requires(r1, a, b, dn):
        return 0 < r1 < TOP and 0 < a < r1 and r1 <= b < TOP and dn != a and dn != b and dn != 0

    async def run(r1, a, b, dn):
        t = table_of([0, r1, TOP], [[mkpeer(a, 1)], [mkpeer(b, 2)]])
        ok = await t.add_peer(mkpeer(dn, 3), never_probe)
        return ok, wf(t), members(t), located(t, dn), shape(t)

    def ensures_admitted_in_covering_bucket(r1, a, b, dn, result):
        ok, good, ms, where, sh = result
        return ok and good and same_members(ms, [a, b, dn]) and where >= 0 and sh[where][0] <= dn < sh[where][1]

    def samples():
        for dn in (1, 2 ** 383 - 1, 2 ** 383, TOP - 1):
            yield dict(r1=2 ** 383, a=5, b=2 ** 383 + 5, dn=dn)


@proof("C11", "add_peer.same-address")
class AddPeerSameAddress:
    """a contact arriving from the (address, port) of a known contact with another id replaces it; when that empties a bucket
    and buckets are merged, the newcomer still lands in the bucket covering its distance"""
    inputs = dict(r1=DIST, r2=DIST, q=DIST, x=DIST, y=DIST, dn=DIST)
    note = "newcomer in each of the three ranges, boundaries at powers of two"

    def requires(r1, r2, q, x, y, dn):
        return (0 < r1 < r2 < TOP and 0 < q < r1 and r1 <= x < r2 and r2 <= y < TOP and dn != q and dn != x and dn != y and dn != 0)

    async def run(r1, r2, q, x, y, dn):
        t = table_of([0, r1, r2, TOP], [[mkpeer(q, 1)], [mkpeer(x, 2)], [mkpeer(y, 3)]])
        ok = await t.add_peer(mkpeer(dn, 1), never_probe)        # same address and port as the contact q, different id
        where = located(t, dn)
        return ok, wf(t), members(t), where, shape(t)

    def ensures_replaced_and_well_placed(q, x, y, dn, result):
        ok, good, ms, where, sh = result
        return ok and good and same_members(ms, [x, y, dn]) and where >= 0 and sh[where][0] <= dn < sh[where][1]

    def samples():
        r1, r2 = 2 ** 382, 2 ** 383
        for dn in (1, r1 - 1, r1, r1 + 2 ** 381, r2 - 1, r2, TOP - 1):
            yield dict(r1=r1, r2=r2, q=7, x=r1 + 1, y=r2 + 1, dn=dn)


class ProbeLog:
    def __init__(self):
        self.probed = []


@proof("C11", "add_peer.full-bucket")
class AddPeerFullBucket:
    """full bucket that may not be split (the newcomer is farther than every known contact): the newcomer is admitted only by
    replacing a contact whose liveness probe FAILED; a contact that answers the probe is never displaced and the table is
    unchanged; whatever the peer manager reports (liveness answers are inputs)"""
    inputs = dict(r1=DIST, a=DIST, b=DIST, c=DIST, dn=DIST, good=TOneOf(TNone(), TConst(True), TConst(False)),
                  last_replied=TOpt(TInt(0)), now=TInt(0), outcome=TInt(0, 2))
    note = "capacity-2 bucket (injected), probe answering / timing out / remote error, 3 liveness reports x 3 reply ages"

    def requires(r1, a, b, c, dn):
        return 0 < r1 < TOP and 0 < a < r1 and r1 <= b < c < dn < TOP

    async def run(r1, a, b, c, dn, good, last_replied, now, outcome):
        pm = PM(good, last_replied)
        t = table_of([0, r1, TOP], [[mkpeer(a, 1)], [mkpeer(b, 2), mkpeer(c, 3)]], capacities=[8, 2], pm=pm)
        t._loop.now = now
        log = ProbeLog()

        async def probe(peer):
            log.probed.append(dist(peer))
            if outcome == 1:
                raise asyncio.TimeoutError()
            if outcome == 2:
                raise RemoteException("down")
        before = shape(t)
        ok = await t.add_peer(mkpeer(dn, 4), probe)
        return ok, wf(t), shape(t), before, log.probed, members(t)

    def ensures_wf(result):
        return result[1]

    def ensures_answering_contact_never_displaced(outcome, result):
        ok, good, sh, before, probed, ms = result
        return implies(outcome == 0 or len(probed) == 0, (not ok) and sh == before)

    def ensures_only_the_probed_dead_contact_is_replaced(a, b, c, dn, outcome, result):
        ok, good, sh, before, probed, ms = result
        return implies(outcome != 0 and len(probed) > 0,
                       ok and len(probed) == 1 and probed[0] in (b, c)
                       and same_members(ms, [a, dn, c if probed[0] == b else b]))

    def samples():
        for good in (None, True, False):
            for last, now in ((None, 100), (10, 100), (90, 100)):
                for outcome in range(3):
                    yield dict(r1=2 ** 383, a=3, b=2 ** 383, c=2 ** 383 + 9, dn=TOP - 1, good=good, last_replied=last, now=now,
                               outcome=outcome)


@proof("C11", "add_peer.closer-is-admitted")
class AddPeerCloser:
    """a contact closer than the K-th closest known contact is always admitted: the full bucket is split instead of pinging"""
    inputs = dict(r1=DIST, a=DIST, b=DIST, c=DIST, dn=DIST, late=TBool())

    def requires(r1, a, b, c, dn):
        # newcomer in the lower half of the full high bucket, the farthest resident in its upper half, the other one anywhere below
        # it (so one split makes room); the newcomer is closer than the farthest = K-th closest known contact
        mid = TOP - (TOP - r1) // 2
        return 0 < r1 < TOP - 4 and 0 < a < r1 and r1 <= dn < mid and mid <= c < TOP and r1 <= b < c and b != dn

    async def run(r1, a, b, c, dn, late):
        # inside a bucket contacts stand in the order they were learned, not in distance order: `late` = the nearer one came last
        residents = [mkpeer(c, 3), mkpeer(b, 2)] if late else [mkpeer(b, 2), mkpeer(c, 3)]
        t = table_of([0, r1, TOP], [[mkpeer(a, 1)], residents], capacities=[8, 2])
        ok = await t.add_peer(mkpeer(dn, 4), never_probe)
        where = located(t, dn)
        return ok, wf(t), members(t), where, shape(t)

    def ensures_admitted(a, b, c, dn, result):
        ok, good, ms, where, sh = result
        return ok and good and same_members(ms, [a, b, c, dn]) and where >= 0 and sh[where][0] <= dn < sh[where][1]

    def samples():
        r1 = 2 ** 383
        mid = TOP - (TOP - r1) // 2
        for late in (False, True):
            for dn in (r1, r1 + 1, mid - 1):
                yield dict(r1=r1, a=3, b=mid, c=TOP - 1, dn=dn, late=late)
                yield dict(r1=r1, a=3, b=r1 + 5, c=TOP - 1, dn=dn + 9, late=late)       # the other resident nearer than the newcomer


@proof("C11", "add_peer.table-changes-during-probe")
class AddPeerDuringProbe:
    """rely/guarantee at the await: while the liveness probe is pending another task admits a closer contact (which splits the
    bucket and shifts indices); the probe then fails.  The table is well formed afterwards and the newcomer, if admitted, sits
    in the bucket covering its distance"""
    inputs = dict(r1=DIST, a=DIST, b=DIST, c=DIST, dn=DIST, y=DIST)

    def requires(r1, a, b, c, dn, y):
        mid = TOP - (TOP - r1) // 2
        # residents b (lower half) and c (upper half) of the full high bucket; newcomer dn farthest of all (no split for it);
        # the concurrent contact y is closer than the farthest known contact and falls into the lower half
        return 0 < r1 < TOP - 4 and 0 < a < r1 and r1 <= b < mid and mid <= c < dn < TOP and r1 <= y < mid and y != b

    async def run(r1, a, b, c, dn, y):
        t = table_of([0, r1, TOP], [[mkpeer(a, 1)], [mkpeer(b, 2), mkpeer(c, 3)]], capacities=[8, 2])

        async def probe(peer):
            await t.add_peer(mkpeer(y, 5), never_probe)      # the other task, running while this probe is pending
            raise asyncio.TimeoutError()
        ok = await t.add_peer(mkpeer(dn, 4), probe)
        where = located(t, dn)
        return ok, wf(t), where, shape(t), members(t)

    def ensures_wf_and_well_placed(dn, result):
        ok, good, where, sh, ms = result
        return good and implies(where >= 0, sh[where][0] <= dn < sh[where][1]) and implies(ok, where >= 0)

    def samples():
        r1 = 2 ** 383
        mid = TOP - (TOP - r1) // 2
        yield dict(r1=r1, a=3, b=r1 + 1, c=mid + 1, dn=TOP - 1, y=r1 + 7)
        yield dict(r1=r1, a=3, b=mid - 1, c=mid, dn=mid + 9, y=r1)


# ------------------------------------------------------------------ bounded: long random histories on K = 8 buckets, random own ids

@proof("C11", "histories")
class Histories:
    """BOUNDED stand-in: seeded random histories (add / re-add / re-add from a used address / remove, probes answering or failing,
    some probes interleaved with a concurrent add) on the real table with K = 8 and random own ids; after every operation the
    table is well formed and find_close_peers is exact"""
    bounded_only = True
    note = "60 seeds x 120 operations over 40 contacts sharing 28 addresses, ids sharing 0..383 prefix bits with the own id"
    inputs = dict(seed=TInt())

    def run(seed):
        import random
        from lbry.dht.peer import PeerManager
        from lbry.dht.protocol.distance import Distance
        r = random.Random(seed)

        async def go():
            loop = asyncio.get_event_loop()
            own = bytes(r.randrange(256) for _ in range(48))
            own_int = int.from_bytes(own, 'big')
            pm = PeerManager(loop)
            t = TreeRoutingTable(loop, pm, own)
            pool = []
            for i in range(40):
                bits = r.choice([0, 1, 2, 3, 8, 100, 380, 383, r.randrange(384)])
                d = (1 << (383 - bits)) | r.randrange(1 << (383 - bits)) if bits < 383 else 1
                if r.random() < 0.2:
                    d = (1 << (383 - bits))         # exactly on a bucket boundary
                pool.append(make_kademlia_peer((own_int ^ d).to_bytes(48, 'big'), ADDRS[i % 28], 4000 + i % 28))
            bad = []

            def check(step):
                bs = t.buckets
                ok = bs[0].range_min == 0 and bs[-1].range_max == TOP
                seen_ids, seen_addr = set(), set()
                for i, b in enumerate(bs):
                    ok = ok and b.range_min < b.range_max and len(b.peers) <= constants.K
                    if i + 1 < len(bs):
                        ok = ok and b.range_max == bs[i + 1].range_min
                    for p in b.peers:
                        dd = own_int ^ int.from_bytes(p.node_id, 'big')
                        ok = ok and b.range_min <= dd < b.range_max
                        ok = ok and p.node_id not in seen_ids and (p.address, p.udp_port) not in seen_addr
                        seen_ids.add(p.node_id)
                        seen_addr.add((p.address, p.udp_port))
                key = bytes(r.randrange(256) for _ in range(48))
                cnt = r.choice([None, 1, 3, 8, 20])
                sender = r.choice([None] + [p.node_id for p in t.get_peers()][:3])
                got = t.find_close_peers(key, cnt, sender)
                kk = int.from_bytes(key, 'big')
                elig = sorted((p for p in t.get_peers() if p.node_id not in (own, sender)),
                              key=lambda p: kk ^ int.from_bytes(p.node_id, 'big'))
                ok = ok and got == elig[:min(cnt or constants.K, len(elig))]
                if not ok:
                    bad.append(step)

            for step in range(120):
                op = r.random()
                p = r.choice(pool)
                answers = r.random() < 0.5

                async def probe(peer, answers=answers, step=step):
                    if r.random() < 0.3:
                        other = r.choice(pool)
                        await t.add_peer(other, lambda _p: asyncio.sleep(0))
                    await asyncio.sleep(0)
                    if not answers:
                        raise asyncio.TimeoutError()
                if op < 0.7:
                    try:
                        await t.add_peer(p, probe)
                    except IndexError:
                        bad.append(('IndexError', step))
                else:
                    t.remove_peer(p)
                check(step)
            return bad
        return asyncio.run(go())

    def ensures_always_well_formed_and_exact(result):
        return result == []

    def samples():
        for seed in range(60):
            yield dict(seed=seed)


TRUSTED = [
    "list.sort(key=...) is a stable sort (modelled as an insertion sort over the symbolic keys); dataclass equality of KademliaPeer "
    "compares (address, node id, udp port)",
    "int.to_bytes/from_bytes (big endian) are inverse on 384-bit values; XOR is uninterpreted with injectivity/commutativity facts "
    "(exactness of closest-K only needs the order)",
    "prometheus metric calls and logging are effect-free; functools.lru_cache on make_kademlia_peer is transparent",
]
NOT_DECIDED = [
    "tables of more than 4 buckets / buckets of K = 8 contacts symbolically (shape-bounded state injection; the bounded stand-in "
    "runs long histories with K = 8)",
    "which contact is chosen for eviction among several bad ones (policy quality) beyond 'only a contact whose probe failed is replaced'",
    "refresh ids (get_refresh_list) and timing",
]
ASSUMPTIONS = ["w.l.o.g. own node id = 0 in the deductive proofs (ids enter only through own XOR id); the bounded stand-in uses random own ids",
               "full-bucket branches are proved on buckets with an injected capacity of 2 (the code is parametric in the capacity field)"]
