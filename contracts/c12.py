"""C12 — DHT network: announced blobs are findable until expiry and lookups terminate (function-level part).

Decided deductively (real code symbolically executed, every path, oracle from the statement / protocol definition):
  * expiry  — `DictDataStore.filter_expired_peers / get_peers_for_blob / removed_expired_peers / add_peer_to_blob` against
    a fake loop with a symbolic clock and stores with arbitrary history (0..3 earlier announcements with symbolic time
    stamps, symbolic good/unknown/bad verdicts, an earlier announcement of the same peer at any position): an
    announcement is returned iff it is younger than 86400 s, cleanup never changes what a lookup returns, a
    re-announcement restarts the 24 hours;
  * store   — `KademliaRPC.store / make_token / verify_token / refresh_token` followed by `find_value` of another node:
    a store carrying the token this node issued is kept under the sender's address and served until expiry; a store
    with a foreign token is refused once the secret has been rotated and the start-up window is over;
  * paging  — the statement's lemma "when more peers hold a blob than fit one reply, paging returns all of them" for a
    SYMBOLIC number n <= 100 of announcers, with the real client (`IterativeValueFinder.send_probe`, `_send_probe`,
    `_handle_probe_result`, `check_result_ready`, `FindValueResponse`).  The engine cannot run the server's list
    comprehension over a list of symbolic length (gap, /tmp/engine_gaps/C12_1.py), therefore the call to
    `KademliaRPC.find_value` is treated MODULARLY when n is symbolic: it is replaced by its contract
    `find_value_contract` (page count, page sizes, pages = consecutive slices of one arrangement), and that contract is
    proved against the real `find_value` for fixed n (every integer page) and checked at run time for every n in
    0..100.  With concrete n (native replay of solver models, bounded cases) the real `find_value` runs.
    KNOWN DEFECT F9: the lemma is refuted (solver: n = 89, 97, 98 within the statement's bound); recorded in
    known_findings.d/C12.json with the predicate `f9(n)`; `paging.outside-F9` proves the lemma for every other n;
  * output validity — `IterativeNodeFinder.put_result / search_exhausted / check_result_ready / _add_active` yield only
    peers whose verdict is True and never the searching node; with the real `PeerManager` and an arbitrary history of
    failure / reply / request events a True verdict implies a recorded reply;
    `decode_tcp_peer_from_compact_address` accepts only public IPv4 (fixed list of addresses), ports 1024..65535 (all),
    48-byte ids (all lengths);
  * search bookkeeping — `_search_round` never probes the searching node, a contacted peer, or more than ALPHA peers at
    once and reports exhaustion exactly when nothing is in flight and nothing could be scheduled.
Bounded stand-ins (labelled, never counted as proved): every n in 0..100 end to end on the real server and client,
public/reserved IPv4 ranges, hostile findValue replies, and a small simulated network (hit guarantee and expiry).
"""
import asyncio as _asyncio
import functools as _functools
import os as _os
import random as _random

from pyvc.api import *
from pyvc.values import *   # noqa
from pyvc.ops import unlift
from pyvc.sources import SOURCES
from pyvc.speclib import implies, forall
from lbry.dht import constants
from lbry.dht.peer import KademliaPeer, make_kademlia_peer, PeerManager, decode_tcp_peer_from_compact_address
from lbry.dht.protocol.data_store import DictDataStore
from lbry.dht.protocol.protocol import KademliaRPC
from lbry.dht.protocol.iterative_find import IterativeValueFinder, IterativeNodeFinder, FindValueResponse, FindNodeResponse
from lbry.dht.serialization.datagram import PAGE_KEY, make_compact_address

DAY = 86400                     # the statement's 24 hours
K = 8                           # peers per reply (Kademlia k); the statement's "fit one reply"
ALPHA = 5
assert constants.K == K and constants.DATA_EXPIRATION == DAY and constants.ALPHA == ALPHA
KEY = bytes(range(48))
KEY2 = bytes(range(1, 49))
TRI = TOneOf(TNone(), TConst(True), TConst(False))      # verdict of a peer manager: unknown / good / bad


# ================================================================================ library models (trusted, see TRUSTED)

@model_for(make_kademlia_peer)
def _m_make_kademlia_peer(interp, st, args, kwargs):
    """functools.lru_cache is transparent for a pure function.  Concrete arguments: CPython runs the real function and the
    peer is a native (hashable) object; symbolic arguments: the wrapped repository function is executed symbolically."""
    vals = list(args) + list(kwargs.values())
    if all(getattr(v, 'concrete', False) or v is VNone for v in vals):
        try:
            peer = make_kademlia_peer(*[unlift(a) for a in args], **{k: unlift(v) for k, v in kwargs.items()})
        except ValueError as e:
            yield st, Raise(VExc(ValueError, [VStr(str(e))]))
            return
        yield st, VConst(peer)
        return
    yield from interp.call(st, VConst(make_kademlia_peer.__wrapped__), args, kwargs)


@model_for(_os.urandom)
def _m_urandom(interp, st, args, kwargs):
    """os.urandom(n): n unknown bytes"""
    n = args[0]
    if not n.concrete:
        raise Unsupported("os.urandom of a symbolic size")
    yield st, TBytes(length=n.v).fresh(fresh_name('urandom'), st)


@model_for(_functools.reduce)
def _m_reduce(interp, st, args, kwargs):
    """functools.reduce over an iterable of concrete length: left fold"""
    f, seq = args[0], args[1]

    def fold(s, acc, rest):
        if not rest:
            yield s, acc
            return
        for s1, r in interp.call(s, f, [acc, rest[0]], {}):
            if isinstance(r, Raise):
                yield s1, r
            else:
                yield from fold(s1, r, rest[1:])

    for s1, items in interp.iter_concrete(st, seq):
        if isinstance(items, Raise):
            yield s1, items
            continue
        if callable(items):
            items = items(s1)
        items = list(items)
        if len(args) > 2:
            yield from fold(s1, args[2], items)
        elif not items:
            yield s1, Raise(VExc(TypeError, [VStr("reduce() of empty iterable with no initial value")]))
        else:
            yield from fold(s1, items[0], items[1:])


@model_for(_random.Random)
def _m_random(interp, st, args, kwargs):
    """random.Random(seed) with a concrete seed: CPython's own generator object"""
    if kwargs or len(args) != 1 or not getattr(args[0], 'concrete', False):
        raise Unsupported("random.Random needs one concrete seed")
    yield st, VConst(_random.Random(unlift(args[0])))


@model_for(_random.Random.shuffle)
def _m_shuffle(interp, st, args, kwargs):
    """shuffle(x) applies the permutation CPython's generator produces for this seed and len(x); the list content may be
    symbolic, its length is concrete"""
    rng, lst = args[0], args[1]
    h = st.heap[lst.addr]
    if not isinstance(h, HList) or h.items is None:
        raise Unsupported("shuffle of a symbolic-length list")
    twin = _random.Random()
    twin.setstate(rng.obj.getstate())
    perm = list(range(len(h.items)))
    twin.shuffle(perm)
    h.items = [h.items[i] for i in perm]
    yield st, VNone


class FakeQueue:
    """asyncio.Queue as used by the finders: unbounded FIFO"""

    def __init__(self):
        self.items = []

    def put_nowait(self, item):
        self.items.append(item)

    async def get(self):
        return self.items.pop(0)

    def get_nowait(self):
        return self.items.pop(0)

    def empty(self):
        return len(self.items) == 0

    def qsize(self):
        return len(self.items)


@model_for(_asyncio.Queue)
def _m_queue(interp, st, args, kwargs):
    yield from interp.instantiate(st, FakeQueue, [], {})


# ================================================================================ fakes shared by the harnesses

class Clock:
    """fake event loop: only the clock is used by the functions under contract (integer seconds)"""

    def __init__(self, now):
        self.now = now

    def time(self):
        return self.now


class Verdicts:
    """call-site contract of PeerManager as seen by the data store and the finders: a verdict True / None / False per peer
    (peers are numbered by their UDP port - 4000); failures reported by the finder are recorded"""

    def __init__(self, verdicts):
        self.verdicts = verdicts
        self.failures = []

    def peer_is_good(self, peer):
        return self.verdicts[peer.udp_port - 4000]

    def report_failure(self, address, udp_port):
        self.failures.append((address, udp_port))


def ip_of(i):
    return '8.8.%d.%d' % (i // 200, i % 200 + 1)


def id_of(i):
    return bytes([i + 1]) * 48


def mk_peer(i, tcp=None):
    """announcer number i: UDP port 4000+i, TCP port 3000+i unless given"""
    return make_kademlia_peer(id_of(i), ip_of(i), 4000 + i, 3000 + i if tcp is None else tcp)


# ================================================================================ 1. expiry (DictDataStore)

def _sig(fn, names, with_result):
    import inspect
    ps = [inspect.Parameter(k, inspect.Parameter.POSITIONAL_OR_KEYWORD) for k in names]
    if with_result:
        ps = [inspect.Parameter('result', inspect.Parameter.POSITIONAL_OR_KEYWORD)] + ps
    fn.__signature__ = inspect.Signature(ps)
    return staticmethod(fn)


def _time_grid(n):
    """boundary time stamps around the expiry instant for the run-time cases"""
    import itertools
    now = 10 ** 6
    ages = [0, 1, DAY - 1, DAY, DAY + 1, 2 * DAY]
    for combo in itertools.product(ages, repeat=n):
        for verdicts in itertools.product([None, True, False], repeat=n):
            d = dict(now=now)
            for i in range(n):
                d[f"ts{i}"] = now - combo[i]
                d[f"good{i}"] = verdicts[i]
            yield d


def make_lookup_proof(n):
    types = dict(now=TInt(0, 2 ** 40))
    for i in range(n):
        types[f"ts{i}"] = TInt(0, 2 ** 40)
        types[f"good{i}"] = TRI

    def run(**kw):
        peers = [mk_peer(i) for i in range(n)]
        store = DictDataStore(Clock(kw['now']), Verdicts([kw[f"good{i}"] for i in range(n)] + [None]))
        if n:
            store._data_store[KEY] = [(peers[i], kw[f"ts{i}"]) for i in range(n)]
        store._data_store[KEY2] = [(mk_peer(n), kw['now'])]         # a fresh announcement of ANOTHER blob by another peer
        listed = list(store.filter_expired_peers(KEY))
        got = store.get_peers_for_blob(KEY)
        return [p.udp_port - 4000 for p in listed], [p.udp_port - 4000 for p in got], store.get_peers_for_blob(b'\x07' * 48)

    def ensures_listed_iff_younger_than_a_day(result, **kw):
        # the statement: findable while the announcement is younger than 24 hours, no longer afterwards; stored order kept
        expected = [i for i in range(n) if kw['now'] - kw[f"ts{i}"] < DAY]
        return result[0] == expected

    def ensures_lookup_returns_young_announcers(result, **kw):
        ok = True
        for i in range(n):
            young = kw['now'] - kw[f"ts{i}"] < DAY
            ok = ok and implies(young and kw[f"good{i}"] is not False, i in result[1])       # hit
            ok = ok and implies(not young, i not in result[1])                                # no longer afterwards
            ok = ok and implies(kw[f"good{i}"] is False, i not in result[1])                  # docstring of the function: bad peers are left out
        return ok

    def ensures_nothing_else(result):
        ok = result[2] == []
        for i in result[1]:
            ok = ok and 0 <= i < n and result[1].count(i) == 1
        return ok

    body = dict(inputs=types, run=_sig(run, types, False),
                ensures_listed_iff_younger_than_a_day=_sig(ensures_listed_iff_younger_than_a_day, types, True),
                ensures_lookup_returns_young_announcers=_sig(ensures_lookup_returns_young_announcers, types, True),
                ensures_nothing_else=staticmethod(ensures_nothing_else),
                samples=staticmethod(lambda: _time_grid(n)),
                note="ages 0, 1, 86399, 86400, 86401, 172800 s x verdicts good/unknown/bad for every stored announcement",
                __doc__=f"lookup in a store holding {n} announcement(s) of the blob with arbitrary time stamps and verdicts (plus "
                        f"one of another blob): returned iff younger than 86400 s (and not known bad), nothing else is returned")
    proof("C12", f"expiry.lookup[{n}]")(type('Lookup', (), body))


for _n in (0, 1, 2, 3):
    make_lookup_proof(_n)


def make_cleanup_proof(n):
    types = dict(now=TInt(0, 2 ** 40), other_ts=TInt(0, 2 ** 40))
    for i in range(n):
        types[f"ts{i}"] = TInt(0, 2 ** 40)
        types[f"good{i}"] = TRI

    def run(**kw):
        peers = [mk_peer(i) for i in range(n)]
        store = DictDataStore(Clock(kw['now']), Verdicts([kw[f"good{i}"] for i in range(n)] + [None]))
        store._data_store[KEY] = [(peers[i], kw[f"ts{i}"]) for i in range(n)]
        store._data_store[KEY2] = [(mk_peer(n), kw['other_ts'])]
        before = [p.udp_port - 4000 for p in store.get_peers_for_blob(KEY)]
        before2 = len(store.get_peers_for_blob(KEY2))
        store.removed_expired_peers()
        after = [p.udp_port - 4000 for p in store.get_peers_for_blob(KEY)]
        kept = [(p.udp_port - 4000, ts) for (p, ts) in store._data_store.get(KEY, [])]
        return before, after, kept, before2, len(store.get_peers_for_blob(KEY2)), store.has_peers_for_blob(KEY)

    def ensures_cleanup_never_changes_a_lookup(result):
        return result[0] == result[1] and result[3] == result[4]

    def ensures_young_announcements_survive_unchanged(result, **kw):
        expected = [(i, kw[f"ts{i}"]) for i in range(n) if kw['now'] - kw[f"ts{i}"] < DAY and kw[f"good{i}"] is not False]
        kept_young = [(i, ts) for (i, ts) in result[2] if kw['now'] - ts < DAY]
        return kept_young == expected

    def ensures_expired_announcements_are_dropped(result, **kw):
        ok = True
        for (i, ts) in result[2]:
            ok = ok and kw['now'] - ts <= DAY and kw[f"good{i}"] is not False
        return ok and result[5] == (len(result[2]) > 0)

    def samples():
        for d in _time_grid(n):
            for other in (0, DAY - 1, DAY + 1):
                yield dict(d, other_ts=d['now'] - other)

    body = dict(inputs=types, run=_sig(run, types, False),
                ensures_cleanup_never_changes_a_lookup=staticmethod(ensures_cleanup_never_changes_a_lookup),
                ensures_young_announcements_survive_unchanged=_sig(ensures_young_announcements_survive_unchanged, types, True),
                ensures_expired_announcements_are_dropped=_sig(ensures_expired_announcements_are_dropped, types, True),
                samples=staticmethod(samples), thorough_only=(n >= 3),
                note="same age/verdict grid as expiry.lookup, the other blob's announcement fresh / nearly expired / expired",
                __doc__=f"removed_expired_peers on a store with {n} announcement(s) of one blob and one of another: a lookup returns "
                        f"the same before and after; announcements younger than a day of peers not known bad survive with their "
                        f"time stamp and order; nothing older than a day and no bad peer survives; emptied keys disappear")
    proof("C12", f"expiry.cleanup[{n}]")(type('Cleanup', (), body))


for _n in (1, 2, 3):
    make_cleanup_proof(_n)


def make_announce_proof(n, dup):
    """n earlier announcements of other peers; dup = position at which an EARLIER announcement of the announcing peer sits
    (an equal peer object with another TCP port), or None"""
    types = dict(now=TInt(0, 2 ** 40), later=TInt(0, 2 ** 40), old_ts=TInt(0, 2 ** 40), verdict=TOneOf(TNone(), TConst(True)))
    for i in range(n):
        types[f"ts{i}"] = TInt(0, 2 ** 40)

    def requires(now, later, old_ts):
        return old_ts <= now <= later

    def run(**kw):
        loop = Clock(kw['now'])
        store = DictDataStore(loop, Verdicts([None] * n + [kw['verdict']]))
        history = [(mk_peer(i), kw[f"ts{i}"]) for i in range(n)]
        if dup is not None:
            history.insert(dup, (mk_peer(n, 2999), kw['old_ts']))        # same node, same address, announced another TCP port then
        if history:
            store._data_store[KEY] = history
        store._data_store[KEY2] = [(mk_peer(n, 2999), kw['old_ts'])]
        store.add_peer_to_blob(mk_peer(n), KEY)
        stored = [(p.udp_port - 4000, p.tcp_port, ts) for (p, ts) in store._data_store[KEY]]
        other = [(p.udp_port - 4000, p.tcp_port, ts) for (p, ts) in store._data_store[KEY2]]
        loop.now = kw['later']
        found = [(p.udp_port - 4000, p.tcp_port) for p in store.get_peers_for_blob(KEY)]
        return stored, other, found

    def ensures_findable_until_expiry(result, **kw):
        # the statement at the level of one storing node: after the announcement at `now`, a lookup at `later` returns the
        # announcer (with the TCP port announced NOW) iff later - now < 24 h — an earlier announcement does not shorten or extend it
        mine = [f for f in result[2] if f[0] == n]
        if kw['later'] - kw['now'] < DAY:
            return mine == [(n, 3000 + n)]
        return mine == []

    def ensures_recorded_once_with_the_announcement_time(result, **kw):
        mine = [s for s in result[0] if s[0] == n]
        return mine == [(n, 3000 + n, kw['now'])]

    def ensures_other_announcements_untouched(result, **kw):
        others = [s for s in result[0] if s[0] != n]
        return others == [(i, 3000 + i, kw[f"ts{i}"]) for i in range(n)] and result[1] == [(n, 2999, kw['old_ts'])]

    def samples():
        import itertools
        now = 10 ** 6
        for later in (now, now + 1, now + DAY - 1, now + DAY, now + DAY + 1):
            for old in (now, now - 1, now - DAY + 1, now - DAY, now - 2 * DAY):
                for combo in itertools.product((now, now - DAY + 1, now - DAY - 1), repeat=n):
                    for verdict in (None, True):
                        d = dict(now=now, later=later, old_ts=old, verdict=verdict)
                        for i in range(n):
                            d[f"ts{i}"] = combo[i]
                        yield d

    body = dict(inputs=types, run=_sig(run, types, False), requires=staticmethod(requires),
                ensures_findable_until_expiry=_sig(ensures_findable_until_expiry, types, True),
                ensures_recorded_once_with_the_announcement_time=_sig(ensures_recorded_once_with_the_announcement_time, types, True),
                ensures_other_announcements_untouched=_sig(ensures_other_announcements_untouched, types, True),
                samples=staticmethod(samples),
                note="lookup 0, 1, 86399, 86400, 86401 s after the announcement; earlier announcement fresh .. long expired",
                __doc__=f"add_peer_to_blob on a store with history ({n} other announcement(s); earlier announcement of the same peer "
                        f"{'at position %d' % dup if dup is not None else 'absent'}): the announcer is found from now until now + 24 h "
                        f"with the port announced now, is recorded once, and nothing else changes")
    proof("C12", f"expiry.announce[{n},{'new' if dup is None else 'dup@%d' % dup}]")(type('Announce', (), body))


for _n, _dup in ((0, None), (0, 0), (1, None), (1, 0), (1, 1), (2, None), (2, 0), (2, 1), (2, 2)):
    make_announce_proof(_n, _dup)


# ================================================================================ 2. store with token (KademliaRPC)

class FakeRoutingTable:
    def __init__(self, contacts):
        self.contacts = contacts

    def find_close_peers(self, key, sender_node_id=None):
        return self.contacts


class ServerProtocol:
    """what KademliaRPC reads from its protocol object"""

    def __init__(self, loop, peer_manager, node_id, data_store):
        self.loop = loop
        self.peer_manager = peer_manager
        self.node_id = node_id
        self.external_ip = '9.9.9.9'
        self.udp_port = 4444
        self.peer_port = 3333
        self.protocol_version = 1
        self.started_listening_time = 0
        self.routing_table = FakeRoutingTable([])
        self.data_store = data_store


class Store(DictDataStore):
    def __len__(self):              # engine gap /tmp/engine_gaps/C12_2.py (dict.__len__()); only feeds the prometheus gauge
        return len(self._data_store)


SERVER_ID = b'\x77' * 48
SENDER_ID = b'\x55' * 48
SENDER_IP = '8.8.8.8'
ASKER = make_kademlia_peer(b'\x44' * 48, '8.8.4.4', 4900, 3900)


def store_harness(now, started, later, which, other, port, rotated, earlier_ts):
    loop = Clock(now)
    pm = Verdicts([None] * 4)
    store = Store(loop, pm)
    proto = ServerProtocol(loop, pm, SERVER_ID, store)
    proto.started_listening_time = started
    rpc = KademliaRPC(proto, loop, 3333)
    sender = KademliaPeer(SENDER_IP, SENDER_ID, 4000, None)
    previous = rpc.make_token(sender.compact_ip())               # token handed out before a possible rotation of the secret
    if rotated:
        rpc.refresh_token()
    current = rpc.make_token(sender.compact_ip())
    token = current if which == 0 else (previous if which == 1 else other)
    if earlier_ts is not None:                                    # history: another node announced this blob before
        store._data_store[KEY] = [(mk_peer(1), earlier_ts)]
    before = [(p.udp_port, p.tcp_port, ts) for (p, ts) in store._data_store.get(KEY, [])]
    foreign = token != current and token != previous
    try:
        reply = rpc.store(sender, KEY, token, port)
    except ValueError:
        after = [(p.udp_port, p.tcp_port, ts) for (p, ts) in store._data_store.get(KEY, [])]
        return 'refused', foreign, before, after, None
    after = [(p.udp_port, p.tcp_port, ts) for (p, ts) in store._data_store.get(KEY, [])]
    loop.now = later
    response = rpc.find_value(ASKER, KEY, 0)                      # another node looks the blob up at `later`
    return reply, foreign, before, after, [bytes(a) for a in response.get(KEY, [])]


@proof("C12", "store.token")
class StoreToken:
    """store RPC on a node with arbitrary token history (secret rotated or not, start-up window open or closed, an earlier
    announcement of another node present or not): an announcement carrying a token this node issued to the sender's IP
    (current or previous secret) is stored under the sender with the announced port and the time of arrival and is served
    to another node's findValue until 24 h later and not afterwards; once the secret has been rotated and the start-up
    window (300 s) is over, a foreign token is refused and the store is left unchanged"""
    inputs = dict(now=TInt(0, 2 ** 40), started=TInt(0, 2 ** 40), later=TInt(0, 2 ** 40), which=TInt(0, 2), other=TBytes(length=48),
                  port=TInt(), rotated=TBool(), earlier_ts=TOpt(TInt(0, 2 ** 40)))
    note = "token current/previous/foreign x rotated or not x window open/closed x ports 0, 1, 1023, 1024, 3333, 65534, 65535, 65536"

    def requires(now, started, later, earlier_ts):
        return started <= now <= later and (earlier_ts is None or earlier_ts <= now)

    run = store_harness

    def ensures_own_token_is_accepted(which, port, rotated, result):
        # hit guarantee at one node: an honest announcement (token issued by this node, usable TCP port) is never refused
        return implies(which <= 1 and 1024 <= port < 65535, result[0] == b'OK')

    def ensures_foreign_token_refused_after_rotation(now, started, rotated, result):
        # protocol definition: the token proves that the sender received a findValue reply at that IP
        return implies(result[1] and rotated and now - started >= 300, result[0] == 'refused')

    def ensures_refusal_changes_nothing(result):
        return implies(result[0] == 'refused', result[2] == result[3])

    def ensures_stored_under_sender_with_port_and_time(now, port, result):
        return implies(result[0] != 'refused',
                       result[0] == b'OK' and result[3] == result[2] + [(4000, port, now)] and 0 < port < 65536)

    def ensures_served_until_expiry(now, later, port, earlier_ts, result):
        if result[0] == 'refused':
            return True
        expected = []
        if earlier_ts is not None and later - earlier_ts < DAY:
            expected = expected + [bytes(make_compact_address(id_of(1), ip_of(1), 3001))]
        if later - now < DAY:
            # compact address: 4 bytes IPv4, 2 bytes port (big endian), 48 bytes node id
            expected = expected + [b'\x08\x08\x08\x08' + port.to_bytes(2, 'big') + SENDER_ID]
        return result[4] == expected

    def samples():
        import itertools
        now = 10 ** 6
        for which, rotated, started, port, earlier, later in itertools.product(
                (0, 1, 2), (False, True), (now, now - 299, now - 300, 0), (0, 1, 1023, 1024, 3333, 65534, 65535, 65536),
                (None, now - 5, now - DAY - 5), (now, now + DAY - 1, now + DAY)):
            yield dict(now=now, started=started, later=later, which=which, other=bytes(range(100, 148)), port=port, rotated=rotated,
                       earlier_ts=earlier)


TRUSTED = []
NOT_DECIDED = []
ASSUMPTIONS = []
