"""C12 — DHT network: announced blobs are findable until expiry and lookups terminate.  FUNCTION-LEVEL part only: the
network-wide clauses (hit guarantee, termination) are NOT decided (see NOT_DECIDED).

Decided deductively (real code, every path; oracle from the statement):
  * expiry — `DictDataStore.filter_expired_peers / get_peers_for_blob / removed_expired_peers / add_peer_to_blob`, symbolic
    clock, stores with arbitrary history (0..2 earlier announcements, 3 in the thorough tier, symbolic time stamps and
    verdicts, an earlier announcement of the same peer at any position): an announcement is returned iff younger than
    86400 s, cleanup never changes a lookup, a re-announcement restarts the 24 hours;
  * store — `KademliaRPC.store / make_token / verify_token / refresh_token`, then `find_value` by another node: a store
    with a token this node issued is kept under the sender's address and served until expiry; a foreign token is refused
    once the secret was rotated and the start-up window is over;
  * paging — the statement's lemma "when more peers hold a blob than fit one reply, paging returns all of them" for a
    SYMBOLIC number n <= 100 of announcers with the real client (`IterativeValueFinder.send_probe / check_result_ready`).  The server's list comprehension over a
    symbolic-length list is outside the engine, so for symbolic n the call to
    `KademliaRPC.find_value` is MODULAR: replaced by its contract `find_value_contract` (page count, page sizes, pages =
    slices of one arrangement), which is proved against the real function for fixed n (every integer page) and checked at
    run time for every n in 0..100.  With concrete n (replay of solver models, bounded cases) the real function runs.
    KNOWN DEFECT F9: the lemma is refuted (solver: n = 89, 97; also 98); recorded in known_findings.d/C12.json with the
    predicate `f9(n)`; `paging.outside-F9` (requires `not f9(n)`) proves it for every other n: other defects still alarm;
  * output validity — `IterativeNodeFinder.put_result / search_exhausted / check_result_ready`, `_add_active` yield only
    peers whose verdict is True, never the searching node; with the real `PeerManager` and an arbitrary history of
    failure / reply / request events a contact is yielded only if it replied;
    `decode_tcp_peer_from_compact_address` accepts only public IPv4 (44 fixed addresses), ports 1024..65535, 48-byte ids;
  * `_search_round` never probes the searching node, a contacted peer, or more than ALPHA peers at once, and reports
    exhaustion exactly when nothing is in flight and nothing was scheduled;
  * blob announcer — `BlobAnnouncer._run_consumer`: every queued blob is attempted once, recorded as announced only if stored;
  * refresh stability — `add_peer_to_blob` on an entry that is already listed (1..3 entries, the refreshed one at any index)
    keeps the position of every entry (clause a_refresh_keeps_every_position of expiry.announce[*]); `paging.refreshed[n,gap]`:
    with 9 / 17 announcers stored through the real `KademliaRPC.store`, the store datagram of ANY announcer delivered a second
    time between two page requests of one lookup (9: the only gap; 17: the second gap, the first one and 25 announcers in the
    thorough tier; any time before expiry) leaves the union of the pages complete and repetition-free (real store /
    add_peer_to_blob / find_value / value finder);
  * RPC failure accounting — the real `KademliaProtocol.send_request / _send / handle_response_datagram /
    handle_error_datagram` with the real `PeerManager` and `DictDataStore`, one request, outcome scripted at the
    `asyncio.wait_for` (reply, reply from another address, error datagram, time-out, waiting task CANCELLED): a cancelled or
    answered request records no failure and the peer's announcement is still served; a timed-out / remotely failed request
    records exactly one failure for that peer; the response future never stays registered (send_request.accounting).
Bounded stand-ins (not proofs): paging lemma and find_value contract for every n in 0..100 on the real
server, data store and client; paging with a duplicated store datagram for every n in 9..40 x announcer x page gap; IPv4
ranges; 25 hostile findValue replies; 8 simulated networks of real Nodes (hit guarantee, storage on close nodes, expiry);
5 simulated networks with latency in which every node abandons a lookup while its probe to the announcer is in flight
(real asyncio cancellation) and the announcer must still be found by everybody afterwards.
"""
import asyncio as _asyncio
import functools as _functools
import os as _os
import random as _random

from pyvc.api import *
from pyvc.values import *   # noqa
from pyvc.ops import unlift
from pyvc.sources import SOURCES
from pyvc.speclib import implies
from lbry.dht import constants
from lbry.dht.peer import KademliaPeer, make_kademlia_peer, PeerManager, decode_tcp_peer_from_compact_address
from lbry.dht.protocol.data_store import DictDataStore
from lbry.dht.protocol.protocol import KademliaRPC
from lbry.dht.protocol.iterative_find import IterativeValueFinder, IterativeNodeFinder, FindValueResponse, FindNodeResponse
from lbry.dht.serialization.datagram import PAGE_KEY, make_compact_address

DAY = 86400                     # the statement's 24 hours
K = 8                           # peers per reply (Kademlia k): the statement's "fit one reply"
ALPHA = 5                       # probes in flight (Kademlia alpha)
KEY = bytes(range(48))
KEY2 = bytes(range(1, 49))
TRI = TOneOf(TNone(), TConst(True), TConst(False))      # verdict of a peer manager: unknown / good / bad


# ================================================================================ library models (trusted, see TRUSTED)

@model_for(make_kademlia_peer)
def _m_make_kademlia_peer(interp, st, args, kwargs):
    """functools.lru_cache is transparent for a pure function.  Concrete arguments: CPython runs the real function and the
    peer is a native (hashable) object; symbolic arguments: the wrapped repository function is executed symbolically."""
    vals = list(args) + list(kwargs.values())
    if all(getattr(v, 'concrete', False) or v is VNone for v in vals):
        try:
            peer = make_kademlia_peer(*[unlift(a) for a in args], **{k: unlift(v) for k, v in kwargs.items()})
        except ValueError as e:
            yield st, Raise(VExc(ValueError, [VStr(str(e))]))
            return
        yield st, VConst(peer)
        return
    yield from interp.call(st, VConst(make_kademlia_peer.__wrapped__), args, kwargs)


@model_for(_os.urandom)
def _m_urandom(interp, st, args, kwargs):
    """os.urandom(n): n unknown bytes"""
    n = args[0]
    if not n.concrete:
        raise Unsupported("os.urandom of a symbolic size")
    yield st, TBytes(length=n.v).fresh(fresh_name('urandom'), st)


@model_for(_functools.reduce)
def _m_reduce(interp, st, args, kwargs):
    """functools.reduce over an iterable of concrete length: left fold"""
    f, seq = args[0], args[1]

    def fold(s, acc, rest):
        if not rest:
            yield s, acc
            return
        for s1, r in interp.call(s, f, [acc, rest[0]], {}):
            if isinstance(r, Raise):
                yield s1, r
            else:
                yield from fold(s1, r, rest[1:])

    for s1, items in interp.iter_concrete(st, seq):
        if isinstance(items, Raise):
            yield s1, items
            continue
        if callable(items):
            items = items(s1)
        items = list(items)
        if len(args) > 2:
            yield from fold(s1, args[2], items)
        elif not items:
            yield s1, Raise(VExc(TypeError, [VStr("reduce() of empty iterable with no initial value")]))
        else:
            yield from fold(s1, items[0], items[1:])


@model_for(_random.Random)
def _m_random(interp, st, args, kwargs):
    """random.Random(seed) with a concrete seed: CPython's own generator object"""
    if kwargs or len(args) != 1 or not getattr(args[0], 'concrete', False):
        raise Unsupported("random.Random needs one concrete seed")
    yield st, VConst(_random.Random(unlift(args[0])))


@model_for(_random.Random.shuffle)
def _m_shuffle(interp, st, args, kwargs):
    """shuffle(x) applies the permutation CPython's generator produces for this seed and len(x); the list content may be
    symbolic, its length is concrete"""
    rng, lst = args[0], args[1]
    h = st.heap[lst.addr]
    if not isinstance(h, HList) or h.items is None:
        raise Unsupported("shuffle of a symbolic-length list")
    perm = list(range(len(h.items)))
    rng.obj.shuffle(perm)                                   # CPython's generator (its state advances as it would natively)
    h.items = [h.items[i] for i in perm]
    yield st, VNone


class FakeQueue:
    """asyncio.Queue as used by the finders: unbounded FIFO"""

    def __init__(self):
        self.items = []

    def put_nowait(self, item):
        self.items.append(item)

    async def get(self):
        return self.items.pop(0)

    def get_nowait(self):
        return self.items.pop(0)

    def empty(self):
        return len(self.items) == 0

    def qsize(self):
        return len(self.items)


@model_for(_asyncio.Queue)
def _m_queue(interp, st, args, kwargs):
    yield from interp.instantiate(st, FakeQueue, [], {})


# ================================================================================ fakes shared by the harnesses

class Clock:
    """fake event loop: only the clock is used by the functions under contract (integer seconds)"""

    def __init__(self, now):
        self.now = now

    def time(self):
        return self.now


class Verdicts:
    """call-site contract of PeerManager as seen by the data store and the finders: a verdict True / None / False per peer
    (peers are numbered by their UDP port - 4000); failures reported by the finder are recorded"""

    def __init__(self, verdicts):
        self.verdicts = verdicts
        self.failures = []

    def peer_is_good(self, peer):
        return self.verdicts[peer.udp_port - 4000]

    def report_failure(self, address, udp_port):
        self.failures.append((address, udp_port))


def ip_of(i):
    return '8.8.%d.%d' % (i // 200, i % 200 + 1)


def id_of(i):
    return bytes([i + 1]) * 48


def mk_peer(i, tcp=None):
    """announcer number i: UDP port 4000+i, TCP port 3000+i unless given"""
    return make_kademlia_peer(id_of(i), ip_of(i), 4000 + i, 3000 + i if tcp is None else tcp)


# ================================================================================ 1. expiry (DictDataStore)

def _sig(fn, names, with_result):
    import inspect
    ps = [inspect.Parameter(k, inspect.Parameter.POSITIONAL_OR_KEYWORD) for k in names]
    if with_result:
        ps = [inspect.Parameter('result', inspect.Parameter.POSITIONAL_OR_KEYWORD)] + ps
    fn.__signature__ = inspect.Signature(ps)
    return staticmethod(fn)


def _time_grid(n):
    """boundary time stamps around the expiry instant for the run-time cases"""
    import itertools
    now = 10 ** 6
    ages = [0, 1, DAY - 1, DAY, DAY + 1, 2 * DAY]
    for combo in itertools.product(ages, repeat=n):
        for verdicts in itertools.product([None, True, False], repeat=n):
            d = dict(now=now)
            for i in range(n):
                d[f"ts{i}"] = now - combo[i]
                d[f"good{i}"] = verdicts[i]
            yield d


def make_lookup_proof(n):
    types = dict(now=TInt(0, 2 ** 40))
    for i in range(n):
        types[f"ts{i}"] = TInt(0, 2 ** 40)
        types[f"good{i}"] = TRI

    def run(**kw):
        peers = [mk_peer(i) for i in range(n)]
        store = DictDataStore(Clock(kw['now']), Verdicts([kw[f"good{i}"] for i in range(n)] + [None]))
        if n:
            store._data_store[KEY] = [(peers[i], kw[f"ts{i}"]) for i in range(n)]
        store._data_store[KEY2] = [(mk_peer(n), kw['now'])]         # a fresh announcement of ANOTHER blob by another peer
        listed = list(store.filter_expired_peers(KEY))
        got = store.get_peers_for_blob(KEY)
        return [p.udp_port - 4000 for p in listed], [p.udp_port - 4000 for p in got], store.get_peers_for_blob(b'\x07' * 48)

    def ensures_listed_iff_younger_than_a_day(result, **kw):
        # the statement: findable while the announcement is younger than 24 hours, no longer afterwards; stored order kept
        expected = [i for i in range(n) if kw['now'] - kw[f"ts{i}"] < DAY]
        return result[0] == expected

    def ensures_lookup_returns_young_announcers(result, **kw):
        ok = True
        for i in range(n):
            young = kw['now'] - kw[f"ts{i}"] < DAY
            ok = ok and implies(young and kw[f"good{i}"] is not False, i in result[1])       # hit
            ok = ok and implies(not young, i not in result[1])                                # no longer afterwards
            ok = ok and implies(kw[f"good{i}"] is False, i not in result[1])                  # docstring of the function: bad peers are left out
        return ok

    def ensures_nothing_else(result):
        ok = result[2] == []
        for i in result[1]:
            ok = ok and 0 <= i < n and result[1].count(i) == 1
        return ok

    body = dict(inputs=types, run=_sig(run, types, False),
                ensures_listed_iff_younger_than_a_day=_sig(ensures_listed_iff_younger_than_a_day, types, True),
                ensures_lookup_returns_young_announcers=_sig(ensures_lookup_returns_young_announcers, types, True),
                ensures_nothing_else=staticmethod(ensures_nothing_else),
                samples=staticmethod(lambda: _time_grid(n)), thorough_only=(n >= 3),
                note="ages 0, 1, 86399, 86400, 86401, 172800 s x verdicts good/unknown/bad for every stored announcement",
                __doc__=f"lookup in a store holding {n} announcement(s) of the blob with arbitrary time stamps and verdicts (plus "
                        f"one of another blob): returned iff younger than 86400 s (and not known bad), nothing else is returned")
    proof("C12", f"expiry.lookup[{n}]")(type('Lookup', (), body))


for _n in (0, 1, 2, 3):
    make_lookup_proof(_n)


def make_cleanup_proof(n):
    types = dict(now=TInt(0, 2 ** 40), other_ts=TInt(0, 2 ** 40) if n == 1 else TInt(0, 0))       # TInt(0, 0): the other blob expired
    for i in range(n):
        types[f"ts{i}"] = TInt(0, 2 ** 40)
        types[f"good{i}"] = TRI

    def run(**kw):
        peers = [mk_peer(i) for i in range(n)]
        store = DictDataStore(Clock(kw['now']), Verdicts([kw[f"good{i}"] for i in range(n)] + [None]))
        store._data_store[KEY] = [(peers[i], kw[f"ts{i}"]) for i in range(n)]
        store._data_store[KEY2] = [(mk_peer(n), kw['other_ts'])]
        before = [p.udp_port - 4000 for p in store.get_peers_for_blob(KEY)]
        before2 = len(store.get_peers_for_blob(KEY2))
        store.removed_expired_peers()
        after = [p.udp_port - 4000 for p in store.get_peers_for_blob(KEY)]
        kept = [(p.udp_port - 4000, ts) for (p, ts) in store._data_store.get(KEY, [])]
        return before, after, kept, before2, len(store.get_peers_for_blob(KEY2)), store.has_peers_for_blob(KEY)

    def ensures_cleanup_never_changes_a_lookup(result):
        return result[0] == result[1] and result[3] == result[4]

    def ensures_young_announcements_survive_unchanged(result, **kw):
        expected = [(i, kw[f"ts{i}"]) for i in range(n) if kw['now'] - kw[f"ts{i}"] < DAY and kw[f"good{i}"] is not False]
        kept_young = [(i, ts) for (i, ts) in result[2] if kw['now'] - ts < DAY]
        return kept_young == expected

    def ensures_expired_announcements_are_dropped(result, **kw):
        ok = True
        for (i, ts) in result[2]:
            ok = ok and kw['now'] - ts <= DAY and kw[f"good{i}"] is not False
        return ok and result[5] == (len(result[2]) > 0)

    def samples():
        for d in _time_grid(n):
            for other in ((0, DAY - 1, DAY + 1) if n == 1 else (d['now'],)):
                yield dict(d, other_ts=d['now'] - other)

    body = dict(inputs=types, run=_sig(run, types, False),
                ensures_cleanup_never_changes_a_lookup=staticmethod(ensures_cleanup_never_changes_a_lookup),
                ensures_young_announcements_survive_unchanged=_sig(ensures_young_announcements_survive_unchanged, types, True),
                ensures_expired_announcements_are_dropped=_sig(ensures_expired_announcements_are_dropped, types, True),
                samples=staticmethod(samples), thorough_only=(n >= 3),
                note="same age/verdict grid as expiry.lookup, the other blob's announcement fresh / nearly expired / expired",
                __doc__=f"removed_expired_peers on a store with {n} announcement(s) of one blob and one of another: a lookup returns "
                        f"the same before and after; announcements younger than a day of peers not known bad survive with their "
                        f"time stamp and order; nothing older than a day and no bad peer survives; emptied keys disappear")
    proof("C12", f"expiry.cleanup[{n}]")(type('Cleanup', (), body))


for _n in (1, 2, 3):
    make_cleanup_proof(_n)


def make_announce_proof(n, dup):
    """n earlier announcements of other peers; dup = position at which an EARLIER announcement of the announcing peer sits
    (an equal peer object with another TCP port), or None"""
    types = dict(now=TInt(0, 2 ** 40), later=TInt(0, 2 ** 40), old_ts=TInt(0, 2 ** 40), verdict=TOneOf(TNone(), TConst(True)))
    for i in range(n):
        types[f"ts{i}"] = TInt(0, 2 ** 40)

    def requires(now, later, old_ts):
        return old_ts <= now <= later

    def run(**kw):
        loop = Clock(kw['now'])
        store = DictDataStore(loop, Verdicts([None] * n + [kw['verdict']]))
        history = [(mk_peer(i), kw[f"ts{i}"]) for i in range(n)]
        if dup is not None:
            history.insert(dup, (mk_peer(n, 2999), kw['old_ts']))        # same node, same address, announced another TCP port then
        if history:
            store._data_store[KEY] = history
        store._data_store[KEY2] = [(mk_peer(n, 2999), kw['old_ts'])]
        store.add_peer_to_blob(mk_peer(n), KEY)
        stored = [(p.udp_port - 4000, p.tcp_port, ts) for (p, ts) in store._data_store[KEY]]
        other = [(p.udp_port - 4000, p.tcp_port, ts) for (p, ts) in store._data_store[KEY2]]
        loop.now = kw['later']
        found = [(p.udp_port - 4000, p.tcp_port) for p in store.get_peers_for_blob(KEY)]
        return stored, other, found

    def ensures_findable_until_expiry(result, **kw):
        # the statement at the level of one storing node: after the announcement at `now`, a lookup at `later` returns the
        # announcer (with the TCP port announced NOW) iff later - now < 24 h — an earlier announcement does not shorten or extend it
        mine = [f for f in result[2] if f[0] == n]
        if kw['later'] - kw['now'] < DAY:
            return mine == [(n, 3000 + n)]
        return mine == []

    def ensures_recorded_once_with_the_announcement_time(result, **kw):
        mine = [s for s in result[0] if s[0] == n]
        return mine == [(n, 3000 + n, kw['now'])]

    def ensures_other_announcements_untouched(result, **kw):
        others = [s for s in result[0] if s[0] != n]
        return others == [(i, 3000 + i, kw[f"ts{i}"]) for i in range(n)] and result[1] == [(n, 2999, kw['old_ts'])]

    def ensures_a_refresh_keeps_every_position(result):
        # the storing node serves the announcers of a blob page by page (statement: "paging returns all of them"); the pages of
        # ONE lookup are cut from the stored sequence, and a re-announcement / duplicated store datagram may arrive between two
        # page requests (quantifier: duplication, arbitrary delay) — so refreshing an existing entry must leave the sequence of
        # contacts as it was (only that entry's time stamp and port change).  Nothing is demanded here about where a NEW
        # announcer goes (the relative order of the others is part of other_announcements_untouched)
        if dup is None:
            return True
        before = list(range(n))
        before.insert(dup, n)
        return [s[0] for s in result[0]] == before

    def samples():
        import itertools
        now = 10 ** 6
        for later in (now, now + 1, now + DAY - 1, now + DAY, now + DAY + 1):
            for old in (now, now - 1, now - DAY + 1, now - DAY, now - 2 * DAY):
                for combo in itertools.product((now, now - DAY + 1, now - DAY - 1), repeat=n):
                    for verdict in (None, True):
                        d = dict(now=now, later=later, old_ts=old, verdict=verdict)
                        for i in range(n):
                            d[f"ts{i}"] = combo[i]
                        yield d

    body = dict(inputs=types, run=_sig(run, types, False), requires=staticmethod(requires),
                ensures_findable_until_expiry=_sig(ensures_findable_until_expiry, types, True),
                ensures_recorded_once_with_the_announcement_time=_sig(ensures_recorded_once_with_the_announcement_time, types, True),
                ensures_other_announcements_untouched=_sig(ensures_other_announcements_untouched, types, True),
                ensures_a_refresh_keeps_every_position=staticmethod(ensures_a_refresh_keeps_every_position),
                samples=staticmethod(samples),
                note="lookup 0, 1, 86399, 86400, 86401 s after the announcement; earlier announcement fresh .. long expired",
                __doc__=f"add_peer_to_blob on a store with history ({n} other announcement(s); earlier announcement of the same peer "
                        f"{'at position %d' % dup if dup is not None else 'absent'}): the announcer is found from now until now + 24 h "
                        f"with the port announced now, is recorded once, and nothing else changes")
    proof("C12", f"expiry.announce[{n},{'new' if dup is None else 'dup@%d' % dup}]")(type('Announce', (), body))


for _n, _dup in ((0, None), (0, 0), (1, None), (1, 0), (1, 1), (2, None), (2, 0), (2, 1), (2, 2)):
    make_announce_proof(_n, _dup)


# ================================================================================ 2. store with token (KademliaRPC)

class FakeRoutingTable:
    def __init__(self, contacts):
        self.contacts = contacts

    def find_close_peers(self, key, sender_node_id=None):
        return self.contacts


class ServerProtocol:
    """what KademliaRPC reads from its protocol object"""

    def __init__(self, loop, peer_manager, node_id, data_store):
        self.loop = loop
        self.peer_manager = peer_manager
        self.node_id = node_id
        self.external_ip = '9.9.9.9'
        self.udp_port = 4444
        self.peer_port = 3333
        self.protocol_version = 1
        self.started_listening_time = 0
        self.routing_table = FakeRoutingTable([])
        self.data_store = data_store


class Store(DictDataStore):
    def __len__(self):              # engine gap /tmp/engine_gaps/C12_2.py (dict.__len__()); only feeds the prometheus gauge
        return len(self._data_store)


SERVER_ID = b'\x77' * 48
SENDER_ID = b'\x55' * 48
SENDER_IP = '8.8.8.8'
ASKER = make_kademlia_peer(b'\x44' * 48, '8.8.4.4', 4900, 3900)


def store_harness(now, started, later, which, other, port, rotated, earlier_ts):
    loop = Clock(now)
    pm = Verdicts([None] * 4)
    store = Store(loop, pm)
    proto = ServerProtocol(loop, pm, SERVER_ID, store)
    proto.started_listening_time = started
    rpc = KademliaRPC(proto, loop, 3333)
    sender = KademliaPeer(SENDER_IP, SENDER_ID, 4000, None)
    previous = rpc.make_token(sender.compact_ip())               # token handed out before a possible rotation of the secret
    if rotated:
        rpc.refresh_token()
    current = rpc.make_token(sender.compact_ip())
    token = current if which == 0 else (previous if which == 1 else other)
    if earlier_ts is not None:                                    # history: another node announced this blob before
        store._data_store[KEY] = [(mk_peer(1), earlier_ts)]
    before = [(p.udp_port, p.tcp_port, ts) for (p, ts) in store._data_store.get(KEY, [])]
    foreign = token != current and token != previous
    try:
        reply = rpc.store(sender, KEY, token, port)
    except ValueError:
        after = [(p.udp_port, p.tcp_port, ts) for (p, ts) in store._data_store.get(KEY, [])]
        return 'refused', foreign, before, after, None
    after = [(p.udp_port, p.tcp_port, ts) for (p, ts) in store._data_store.get(KEY, [])]
    loop.now = later
    response = rpc.find_value(ASKER, KEY, 0)                      # another node looks the blob up at `later`
    return reply, foreign, before, after, [bytes(a) for a in response.get(KEY, [])]


@proof("C12", "store.token")
class StoreToken:
    """store RPC on a node with arbitrary token history (secret rotated or not, start-up window open or closed, an earlier
    announcement of another node present or not): an announcement carrying a token this node issued to the sender's IP
    (current or previous secret) is stored under the sender with the announced port and the time of arrival and is served
    to another node's findValue until 24 h later and not afterwards; once the secret has been rotated and the start-up
    window (300 s) is over, a foreign token is refused and the store is left unchanged"""
    inputs = dict(now=TInt(0, 2 ** 40), started=TInt(0, 2 ** 40), later=TInt(0, 2 ** 40), which=TInt(0, 2), other=TBytes(length=48),
                  port=TInt(), rotated=TBool(), earlier_ts=TOpt(TInt(0, 2 ** 40)))
    note = "token current/previous/foreign x rotated or not x window open/closed x ports 0, 1, 1023, 1024, 3333, 65534, 65535, 65536"

    def requires(now, started, later, earlier_ts):
        return started <= now <= later and (earlier_ts is None or earlier_ts <= now)

    run = store_harness

    def ensures_own_token_is_accepted(which, port, rotated, result):
        # hit guarantee at one node: an honest announcement (token issued by this node, TCP port that clients accept) is never
        # refused.  Port 65535 is left out: the code refuses it on both sides (remark R3 in NOT_DECIDED, DESIGN.md section 5)
        return implies(which <= 1 and 1024 <= port < 65535, result[0] == b'OK')

    def ensures_foreign_token_refused_after_rotation(now, started, rotated, result):
        # protocol definition: the token proves that the sender received a findValue reply at that IP
        return implies(result[1] and rotated and now - started >= 300, result[0] == 'refused')

    def ensures_refusal_changes_nothing(result):
        return implies(result[0] == 'refused', result[2] == result[3])

    def ensures_stored_under_sender_with_port_and_time(now, port, result):
        return implies(result[0] != 'refused',
                       result[0] == b'OK' and result[3] == result[2] + [(4000, port, now)] and 0 < port < 65536)

    def ensures_served_until_expiry(now, later, port, earlier_ts, result):
        if result[0] == 'refused':
            return True
        expected = []
        if earlier_ts is not None and later - earlier_ts < DAY:
            expected = expected + [bytes(make_compact_address(id_of(1), ip_of(1), 3001))]
        if later - now < DAY:
            # compact address: 4 bytes IPv4, 2 bytes port (big endian), 48 bytes node id
            expected = expected + [b'\x08\x08\x08\x08' + port.to_bytes(2, 'big') + SENDER_ID]
        return result[4] == expected

    def samples():
        import itertools
        now = 10 ** 6
        for which, rotated, started, port, earlier, later in itertools.product(
                (0, 1, 2), (False, True), (now, now - 299, now - 300, 0), (0, 1, 1023, 1024, 3333, 65534, 65535, 65536),
                (None, now - 5, now - DAY - 5), (now, now + DAY - 1, now + DAY)):
            yield dict(now=now, started=started, later=later, which=which, other=bytes(range(100, 148)), port=port, rotated=rotated,
                       earlier_ts=earlier)


# ================================================================================ 3. findValue paging

N_MAX = 100                                                     # the statement: up to 100 announcers
PEERS = [mk_peer(i) for i in range(N_MAX + 20)]
ADDRS = [bytes(make_compact_address(id_of(i), ip_of(i), 3000 + i)) for i in range(N_MAX + 20)]
SERVER_PEER = make_kademlia_peer(SERVER_ID, '9.9.9.9', 4444)
CLIENT_ID = b'\x66' * 48
OUTSIDER = make_kademlia_peer(CLIENT_ID, '7.7.7.7', 4445)       # the looking-up node: not an announcer, no TCP port known


def f9(n):
    """KNOWN DEFECT F9 (DESIGN.md section 5): numbers of announcers for which the page count announced by the server
    (n // (K+1) + 1) makes the client stop before it has asked for every page: (n // 9 + 2) * 8 < n"""
    return (n // (K + 1) + 2) * K < n


def announced_pages(n):
    """CONTRACT of KademliaRPC.find_value, part 1: the page-count field for n servable peers (helper contract taken from the
    code and PROVED against it by find_value.contract[*]; the statement does not fix this number)"""
    return n // (K + 1) + 1 if n > 0 else 0


def page_len(n, page):
    """CONTRACT part 2: number of peers in page `page` (pages hold K peers, the last one the remainder; negative = page 0)"""
    page = page if page > 0 else 0
    left = n - page * K
    return K if left >= K else (left if left > 0 else 0)


def find_value_contract(n, key, page):
    """CONTRACT part 3, as a response object: pages are consecutive K-slices of ONE arrangement of the n stored compact
    addresses (the real server uses a shuffle seeded with its node id; the arrangement used here is the stored order).
    `page` is concrete, n may be symbolic (one fork per page size)."""
    page = page if page > 0 else 0
    response = {b'token': b'\x00' * 48, b'protocolVersion': 1, PAGE_KEY: announced_pages(n)}
    if page == 0:
        response[b'contacts'] = []
    left = n - page * K
    if left >= K:
        count = K
    elif left <= 0:
        count = 0
    elif left == 1:
        count = 1
    elif left == 2:
        count = 2
    elif left == 3:
        count = 3
    elif left == 4:
        count = 4
    elif left == 5:
        count = 5
    elif left == 6:
        count = 6
    else:
        count = 7
    if count > 0:
        response[key] = ADDRS[page * K:page * K + count]
    return response


class AnnouncedTo:
    """data store of a node to which the first n of PEERS announced KEY (all fresh, none known bad)"""

    def __init__(self, n):
        self.n = n
        self.completed_blobs = set()

    def get_peers_for_blob(self, key):
        return [PEERS[i] for i in range(self.n)] if key == KEY else []


def _announced_count(st, rpc):
    """engine side: the `n` of the AnnouncedTo store behind a KademliaRPC object, or None"""
    try:
        proto = st.heap[rpc.addr].fields['protocol']
        ds = st.heap[proto.addr].fields['data_store']
        h = st.heap[ds.addr]
        return h.fields['n'] if h.cls is AnnouncedTo else None
    except (AttributeError, KeyError):
        return None


@model_for(KademliaRPC.find_value)
def _m_find_value(interp, st, args, kwargs):
    """MODULAR STEP (symbolic side only).  The real function is executed whenever the number of stored peers is concrete;
    for a symbolic n (the engine cannot run the list comprehension over a symbolic-length list) the call is replaced by
    `find_value_contract`, which is proved against the real function by find_value.contract[*]."""
    n = _announced_count(st, args[0])
    if n is None or n.concrete:
        fn = KademliaRPC.find_value
        yield from interp.call_ast(st, SOURCES.node_of(fn), fn.__globals__, [], [lift(d) for d in fn.__defaults__], {},
                                   fn.__qualname__, fn.__code__.co_filename, args, kwargs)
        return
    if getattr(args[1], 'obj', None) is not OUTSIDER:
        raise Unsupported("find_value contract is stated for a requester that is not one of the announcers")
    page = args[3] if len(args) > 3 else kwargs.get('page', VInt(0))
    if not page.concrete:
        raise Unsupported("find_value contract with symbolic n needs a concrete page")
    interp.assumptions.add("KademliaRPC.find_value with a symbolic number of stored peers is replaced by find_value_contract "
                           "(proved for fixed n by C12/find_value.contract[*], run-time checked for every n <= 100)")
    yield from interp.call(st, lift(find_value_contract), [n, args[2], page], {})


class ServerStub:
    """what get_rpc_peer(peer) returns on the client: forwards findValue to the remote node's KademliaRPC (loss-free wire)"""

    def __init__(self, rpc, asker):
        self.rpc = rpc
        self.asker = asker
        self.requested = []

    async def find_value(self, key, page=0):
        self.requested.append(page)
        response = self.rpc.find_value(self.asker, key, page)
        if key in response:
            response[key] = [bytes(a) for a in response[key]]       # the wire (bencode/bdecode, property C17) delivers bytes
        return response


class ClientProtocol:
    """what the finders read from their protocol object"""

    def __init__(self, loop, peer_manager, node_id, stub):
        self.loop = loop
        self.peer_manager = peer_manager
        self.node_id = node_id
        self.external_ip = '7.7.7.7'
        self.udp_port = 4445
        self.stub = stub
        self.data_store = None

    def get_rpc_peer(self, peer):
        return self.stub


async def drive_value_lookup(stub, max_probes):
    """the part of an iterative value lookup that concerns ONE storing node: probe it (real _send_probe, which feeds the real
    send_probe / _handle_probe_result / check_result_ready) as long as the finder puts it back among the peers to contact,
    exactly as _search_round / _schedule_probe do; returns what the finder yields"""
    loop = Clock(1000)
    finder = IterativeValueFinder(loop, ClientProtocol(loop, Verdicts([None] * 500), CLIENT_ID, stub), KEY, -1, [])
    probes = 0
    while SERVER_PEER not in finder.contacted and probes < max_probes:
        finder.contacted.add(SERVER_PEER)                       # IterativeFinder._schedule_probe
        await finder._send_probe(SERVER_PEER)
        probes += 1
    got = []
    while not finder.iteration_queue.empty():
        batch = finder.iteration_queue.get_nowait()
        for p in batch:
            got.append(p.tcp_port - 3000)
    return got, stub.requested, probes


async def paging_harness(n):
    loop = Clock(1000)
    server = KademliaRPC(ServerProtocol(loop, Verdicts([None] * 500), SERVER_ID, AnnouncedTo(n)), loop, 3333)
    return await drive_value_lookup(ServerStub(server, OUTSIDER), 40)


def all_announcers_delivered(n, result):
    # the statement: "when more peers hold a blob than fit one reply, paging returns all of them" — each exactly once
    got = result[0]
    return len(got) == n and sorted(got) == list(range(len(got)))


def paging_is_bounded(n, result):
    # the lookup stops asking this node: never more requests than pages that can hold n peers, plus one empty page
    return result[2] == len(result[1]) and len(result[1]) * K <= n + 2 * K


@proof("C12", "paging")
class Paging:
    """THE PAGING LEMMA OF THE STATEMENT for a symbolic number n <= 100 of announcers stored on one node: the peers yielded
    by the real value finder while paging through that node are exactly the n announcers.  EXPECTED REFUTED on the
    unchanged tree (known finding F9, predicate f9(n)): the solver finds n in {89, 97, 98}, the model is replayed with the
    real KademliaRPC.find_value (concrete n) and reported as KNOWN-FINDING."""
    inputs = dict(n=TInt(0, N_MAX))
    note = "n = 0, 1, 7, 8, 9, 16, 17, 72, 80, 81, 88, 89, 90, 96, 97, 98, 99, 100 with the real find_value"
    run = paging_harness
    ensures_all_announcers_delivered = all_announcers_delivered
    ensures_paging_is_bounded = paging_is_bounded

    def samples():
        for n in (0, 1, 7, 8, 9, 16, 17, 72, 80, 81, 88, 89, 90, 96, 97, 98, 99, 100):
            yield dict(n=n)


@proof("C12", "paging.outside-F9")
class PagingOutsideF9:
    """the same lemma with the known finding excluded from the precondition (`not f9(n)`): proves that F9's predicate
    describes ALL failing n <= 100, so that any other paging defect still alarms"""
    inputs = dict(n=TInt(0, N_MAX))

    def requires(n):
        return not f9(n)

    run = paging_harness
    ensures_all_announcers_delivered = all_announcers_delivered
    ensures_paging_is_bounded = paging_is_bounded


async def real_paging_harness(n):
    """everything real: DictDataStore filled by add_peer_to_blob, KademliaRPC.find_value, IterativeValueFinder"""
    loop = Clock(1000)
    pm = Verdicts([None] * 500)
    store = DictDataStore(loop, pm)
    for i in range(n):
        store.add_peer_to_blob(PEERS[i], KEY)
    server = KademliaRPC(ServerProtocol(loop, pm, SERVER_ID, store), loop, 3333)
    return await drive_value_lookup(ServerStub(server, OUTSIDER), 40)


@proof("C12", "paging.every-n")
class PagingEveryN:
    """BOUNDED stand-in (run-time contract check on the real server, real data store and real client; no deductive part):
    the paging lemma for EVERY n in 0..100 (the statement's bound on announcers).  n = 89, 97, 98 fail (known finding F9)."""
    bounded_only = True
    note = "every n in 0..100 (the whole range of the statement), stored through add_peer_to_blob, served by the real find_value"
    inputs = dict(n=TInt(0, N_MAX))
    run = real_paging_harness
    ensures_all_announcers_delivered = all_announcers_delivered
    ensures_paging_is_bounded = paging_is_bounded

    def samples():
        for n in range(0, N_MAX + 1):
            yield dict(n=n)


def contract_harness(n, page, asker):
    """asker 0: a node that is not an announcer and whose TCP port is unknown; 1: not an announcer, TCP port known;
    2: announcer number 0 itself (the server knows its TCP port from the store) — it is served the OTHER announcers"""
    loop = Clock(1000)
    server = KademliaRPC(ServerProtocol(loop, Verdicts([None] * 500), SERVER_ID, AnnouncedTo(n)), loop, 3333)
    contact = OUTSIDER if asker == 0 else (ASKER if asker == 1 else PEERS[0])
    response = server.find_value(contact, KEY, page)
    everything = []                                             # the whole sequence of pages, to compare the arrangement
    for p in range(n // K + 2):
        everything = everything + [bytes(a) for a in server.find_value(contact, KEY, p).get(KEY, [])]
    return response[PAGE_KEY], response.get(KEY, []), KEY in response, everything, b'contacts' in response, len(response[b'token'])


def servable(n, asker):
    """number of announcers the reply may contain: all n, minus the requester if it is one of them"""
    return n - 1 if asker == 2 and n > 0 else n


def contract_page_count(n, asker, result):
    return result[0] == announced_pages(servable(n, asker))


def contract_page_size(n, page, asker, result):
    m = servable(n, asker)
    return len(result[1]) == page_len(m, page) and result[2] == (page_len(m, page) > 0)


def contract_arrangement(n, page, asker, result):
    everything = result[3]
    p = page if page > 0 else 0
    expected = ADDRS[1:n] if asker == 2 else ADDRS[:n]
    if len(expected) == 0:
        return everything == [] and len(result[1]) == 0
    return (sorted(everything) == sorted(expected)
            and implies(p <= n // K + 1, result[1] == everything[p * K:p * K + K]))


def contract_first_page(page, result):
    return result[4] == (page <= 0) and result[5] == 48


def make_contract_proof(n):
    def samples():
        for page in range(-2, n // K + 4):
            for asker in (0, 1, 2):
                yield dict(page=page, asker=asker)

    body = dict(inputs=dict(page=TInt(), asker=TInt(0, 2)),
                run=staticmethod(lambda page, asker: contract_harness(n, page, asker)),
                ensures_page_count_as_contract=staticmethod(lambda asker, result: contract_page_count(n, asker, result)),
                ensures_page_size_as_contract=staticmethod(lambda page, asker, result: contract_page_size(n, page, asker, result)),
                ensures_pages_are_slices_of_one_arrangement_of_the_announcers=staticmethod(
                    lambda page, asker, result: contract_arrangement(n, page, asker, result)),
                ensures_first_page_carries_contacts_and_token=staticmethod(contract_first_page),
                samples=staticmethod(samples), thorough_only=(n > 20),
                note=f"pages -2..{n // K + 3}, requester: outsider without / with a known TCP port, or one of the announcers",
                __doc__=f"the real KademliaRPC.find_value on a node storing {n} announcers satisfies find_value_contract for EVERY "
                        f"integer page: page-count field, page size, pages are consecutive slices of one fixed arrangement of "
                        f"exactly the stored announcers — all of them for a requester that is not an announcer, all others for a "
                        f"requester that is (justifies the modular step of C12/paging for n = {n})")
    proof("C12", f"find_value.contract[{n}]")(type('FindValueContract', (), body))


for _n in (0, 1, 7, 8, 9, 18, 27, 89):
    make_contract_proof(_n)


@proof("C12", "find_value.contract.every-n")
class ContractEveryN:
    """BOUNDED stand-in for the link between find_value_contract and the real find_value for ALL n (the deductive
    find_value.contract[n] proofs cover fixed n only; engine gap /tmp/engine_gaps/C12_1.py): run-time check of the same four
    clauses on the real function"""
    bounded_only = True
    note = "every n in 0..100 x pages -1, 0, 1 and the last four x the three kinds of requester in turn"
    inputs = dict(n=TInt(0, N_MAX), page=TInt(), asker=TInt(0, 2))
    run = contract_harness
    ensures_page_count_as_contract = contract_page_count
    ensures_page_size_as_contract = contract_page_size
    ensures_pages_are_slices_of_one_arrangement_of_the_announcers = contract_arrangement
    ensures_first_page_carries_contacts_and_token = contract_first_page

    def samples():
        for n in range(0, N_MAX + 1):
            for page in sorted({-1, 0, 1, n // K - 1, n // K, n // K + 1, n // K + 2}):
                yield dict(n=n, page=page, asker=(n + page) % 3)


# -------------------------------------------------------------------------------- 3b. paging while announcements are refreshed

def store_datagram(rpc, i):
    """a store request of announcer i as KademliaProtocol.handle_request_datagram hands it to KademliaRPC.store: the contact
    is built from the datagram's source address, the token is the one this node issued to that address"""
    contact = KademliaPeer(ip_of(i), id_of(i), 4000 + i, None)
    return rpc.store(contact, KEY, rpc.make_token(contact.compact_ip()), 3000 + i)


class DuplicatedStore:
    """environment of one paged lookup: the store datagram of announcer `who` reaches the storing node a second time (network
    duplication, or a re-announcement) between the lookup's page requests number `when` - 1 and `when`, at clock `at`"""

    def __init__(self, rpc, loop, n, who, when, at):
        self.rpc, self.loop, self.n, self.who, self.when, self.at = rpc, loop, n, who, when, at
        self.delivered = 0

    def between_pages(self, probes):
        if probes == self.when:
            self.loop.now = self.at
            for j in range(self.n):                     # (one fork per announcer on the symbolic side)
                if j == self.who:
                    store_datagram(self.rpc, j)
                    self.delivered += 1


async def drive_paged_lookup(stub, environment):
    """drive_value_lookup, with the rest of the network acting between two page requests of the lookup"""
    loop = Clock(1000)
    finder = IterativeValueFinder(loop, ClientProtocol(loop, Verdicts([None] * 500), CLIENT_ID, stub), KEY, -1, [])
    probes = 0
    while SERVER_PEER not in finder.contacted and probes < 40:
        environment.between_pages(probes)
        finder.contacted.add(SERVER_PEER)                       # IterativeFinder._schedule_probe
        await finder._send_probe(SERVER_PEER)
        probes += 1
    got = []
    while not finder.iteration_queue.empty():
        batch = finder.iteration_queue.get_nowait()
        for p in batch:
            got.append(p.tcp_port - 3000)
    return got, stub.requested, probes, environment.delivered


async def refreshed_paging_harness(n, who, when, at):
    """everything real: n announcers stored through KademliaRPC.store (DictDataStore.add_peer_to_blob), pages served by
    KademliaRPC.find_value, asked for by the real value finder; one store datagram is delivered twice"""
    loop = Clock(1000)
    pm = Verdicts([None] * 500)
    server = KademliaRPC(ServerProtocol(loop, pm, SERVER_ID, Store(loop, pm)), loop, 3333)
    for i in range(n):
        store_datagram(server, i)
    return await drive_paged_lookup(ServerStub(server, OUTSIDER), DuplicatedStore(server, loop, n, who, when, at))


def pages_for(n):
    """number of page requests a lookup needs for n announcers (K per page)"""
    return (n + K - 1) // K


def make_refreshed_paging_proof(n, first_gap, last_gap, thorough):
    def run(who, when, at):
        return refreshed_paging_harness(n, who, when, at)

    def requires(who, when, at):
        return not f9(n)                                        # known finding F9 stays excluded exactly as in `paging`

    def ensures_the_duplicate_was_delivered_between_two_pages(when, result):
        return result[3] == 1 and result[2] > when

    def samples():
        for who in range(n):
            for when in range(first_gap, last_gap + 1):
                for at in (1000, 1060, 1000 + DAY - 1):
                    yield dict(who=who, when=when, at=at)

    gaps = f"page {first_gap - 1} and page {first_gap}" if first_gap == last_gap else f"ANY two of the pages {first_gap - 1}..{last_gap}"
    body = dict(inputs=dict(who=TInt(0, n - 1), when=TInt(first_gap, last_gap), at=TInt(1000, 1000 + DAY - 1)),
                run=staticmethod(run), requires=staticmethod(requires),
                ensures_all_announcers_delivered=staticmethod(lambda result: all_announcers_delivered(n, result)),
                ensures_paging_is_bounded=staticmethod(lambda result: paging_is_bounded(n, result)),
                ensures_the_duplicate_was_delivered_between_two_pages=staticmethod(ensures_the_duplicate_was_delivered_between_two_pages),
                samples=staticmethod(samples), thorough_only=thorough,
                note="every announcer x the stated gap(s) between two page requests x duplicate 0 s, 60 s, 86399 s after the announcements",
                __doc__=f"the paging lemma while announcements are refreshed: {n} announcers stored through the real KademliaRPC.store "
                        f"({pages_for(n)} pages); during ONE paged lookup (real find_value, real value finder) the store datagram of "
                        f"ANY announcer is delivered a second time between the requests for {gaps}, at ANY time before the "
                        f"announcements expire: the pages served before and after it still add up to every announcer exactly once")
    proof("C12", f"paging.refreshed[{n},gap{first_gap}{'' if first_gap == last_gap else '-%d' % last_gap}]")(type('RefreshedPaging', (), body))


make_refreshed_paging_proof(9, 1, 1, False)
make_refreshed_paging_proof(17, 2, 2, False)
make_refreshed_paging_proof(17, 1, 1, True)
make_refreshed_paging_proof(25, 1, 3, True)


@proof("C12", "paging.refreshed.every-n")
class RefreshedPagingEveryN:
    """BOUNDED stand-in for the same clause over the numbers of announcers that need 2..5 pages (the deductive
    paging.refreshed[n,gap] proofs cover n = 9, 17 and 25 only): for a fixed set of announcers, the union of the pages served before and
    after a refresh of any existing entry is the full set with no repetition"""
    bounded_only = True
    note = "every n in 9..40 x every announcer x a duplicate of its store datagram between page k and k+1 for every k; " \
           "stored through the real KademliaRPC.store, served by the real find_value, paged by the real value finder"
    inputs = dict(n=TInt(9, 40), who=TInt(0, 39), when=TInt(1, 5), at=TInt(1000, 1000 + DAY - 1))

    def requires(n):
        return not f9(n)                                        # known finding F9 (no n <= 40 is affected)

    run = refreshed_paging_harness
    ensures_all_announcers_delivered = all_announcers_delivered
    ensures_paging_is_bounded = paging_is_bounded

    def ensures_the_duplicate_was_delivered_between_two_pages(when, result):
        return result[3] == 1 and result[2] > when

    def samples():
        for n in range(9, 41):
            for who in range(n):
                for when in range(1, pages_for(n)):
                    yield dict(n=n, who=who, when=when, at=1060)


# ================================================================================ 4. output validity of node lookups

OWN_ID = CLIENT_ID
NODES = [make_kademlia_peer(bytes([0x10 * (i + 1)]) * 48, '8.8.4.%d' % (i + 1), 4000 + i) for i in range(8)]
SELF_ELSEWHERE = make_kademlia_peer(OWN_ID, '8.8.4.100', 4008)           # a contact that claims the searching node's own id
OWN_ADDRESS = make_kademlia_peer(b'\x99' * 48, '7.7.7.7', 4445)          # a contact at the searching node's own address (index 445)


def drain(queue):
    out = []
    while not queue.empty():
        batch = queue.get_nowait()
        out.append(None if batch is None else [p.udp_port - 4000 for p in batch])
    return out


def node_finder(loop, pm, shortlist):
    return IterativeNodeFinder(loop, ClientProtocol(loop, pm, OWN_ID, None), KEY, K, shortlist)


@proof("C12", "node-finder.yield")
class NodeFinderYield:
    """whatever way a node lookup produces results (put_result on an arbitrary candidate list, search_exhausted, a
    findNode reply that contains the key), with arbitrary verdicts of the peer manager and an arbitrary earlier yield:
    every yielded contact has verdict True (= it answered, see node-finder.replied-only), is not the searching node itself,
    and is yielded at most once; the end marker is queued exactly when the search finishes"""
    inputs = dict(v0=TRI, v1=TRI, v2=TOneOf(TConst(True), TConst(False)), yielded0=TBool(), how=TInt(0, 3))
    note = "18 verdict combinations x 4 ways of producing results x earlier yield or not"

    def run(v0, v1, v2, yielded0, how):
        loop = Clock(0)
        pm = Verdicts([v0, v1, v2, None, None, None, None, None, True])         # index 8: the contact claiming our own id is "good"
        finder = node_finder(loop, pm, [NODES[0], NODES[1], NODES[2], SELF_ELSEWHERE])
        if yielded0:
            finder.yielded_peers.add(NODES[0])
        if how == 0:
            finder.put_result([NODES[2], SELF_ELSEWHERE, NODES[0], NODES[1]], False)
        elif how == 1:
            finder.put_result([SELF_ELSEWHERE, NODES[1], NODES[0], NODES[2]], True)
        elif how == 2:
            finder.search_exhausted()
        else:
            finder.check_result_ready(FindNodeResponse(KEY, [(KEY, '8.8.4.77', 4077), (OWN_ID, '8.8.4.100', 4008)]))
        return drain(finder.iteration_queue), [p.udp_port - 4000 for p in finder.active.keys()]

    def ensures_only_contacts_that_answered_and_never_self(v0, v1, v2, yielded0, result):
        verdicts = [v0, v1, v2]
        seen = [0] if yielded0 else []
        ok = True
        for batch in result[0]:
            if batch is not None:
                for i in batch:
                    ok = ok and 0 <= i <= 2 and verdicts[i] is True and i not in seen
                    seen = seen + [i]
        return ok

    def ensures_every_new_good_contact_is_yielded(v0, v1, v2, yielded0, result):
        verdicts = [v0, v1, v2]
        got = []
        for batch in result[0]:
            if batch is not None:
                got = got + batch
        ok = True
        for i in range(3):
            ok = ok and implies(verdicts[i] is True and not (i == 0 and yielded0), i in got)
        return ok

    def ensures_end_marker_iff_finished(how, result):
        ends = [b for b in result[0] if b is None]
        return len(ends) == (0 if how == 0 else 1) and (how == 0 or result[0][-1] is None)

    def ensures_self_never_becomes_active(result):
        return 8 not in result[1]

    def samples():
        import itertools
        for v0, v1, v2, y, how in itertools.product((None, True, False), (None, True, False), (True, False), (False, True), range(4)):
            yield dict(v0=v0, v1=v1, v2=v2, yielded0=y, how=how)


class TickClock:
    """fake event loop whose clock is a float with 1/1024 s resolution (exactly representable; loop.time() is a float)"""

    def __init__(self, ticks):
        self.ticks = ticks

    def time(self):
        return self.ticks / 1024.0


NOW_TICKS = 1024 * 10 ** 6


def record(pm, kind, address, port):
    if kind == 1:
        pm.report_failure(address, port)
    elif kind == 2:
        pm.report_last_replied(address, port)
    elif kind == 3:
        pm.report_last_requested(address, port)


@proof("C12", "node-finder.replied-only")
class RepliedOnly:
    """the statement's "yields only contacts that actually replied" with the REAL PeerManager: after an arbitrary history of
    three events concerning a contact (nothing / RPC failure / reply; from the second event on also: incoming request; at
    arbitrary times), put_result yields the contact only if one of the events was a reply from it; a contact never heard from and a
    contact with only failures are never yielded"""
    inputs = dict(k1=TInt(0, 2), k2=TInt(0, 3), k3=TInt(0, 3), t1=TInt(0, NOW_TICKS), t2=TInt(0, NOW_TICKS), t3=TInt(0, NOW_TICKS))
    note = "all 48 event sequences x event ages 0 s, 1 s, 719 s, 720 s, 721 s, 2 h"

    def requires(t1, t2, t3):
        return t1 <= t2 <= t3

    def run(k1, k2, k3, t1, t2, t3):
        loop = TickClock(t1)
        pm = PeerManager(loop)
        record(pm, k1, '8.8.4.1', 4000)
        record(pm, 1, '8.8.4.3', 4002)                      # contact 2 only ever failed
        loop.ticks = t2
        record(pm, k2, '8.8.4.1', 4000)
        record(pm, 1, '8.8.4.3', 4002)
        loop.ticks = t3
        record(pm, k3, '8.8.4.1', 4000)
        loop.ticks = NOW_TICKS
        finder = node_finder(loop, pm, [NODES[0], NODES[1], NODES[2]])
        finder.put_result([NODES[0], NODES[1], NODES[2]], True)
        return drain(finder.iteration_queue), pm.peer_is_good(NODES[0])

    def ensures_yielded_only_if_it_replied(k1, k2, k3, result):
        got = []
        for batch in result[0]:
            if batch is not None:
                got = got + batch
        replied = k1 == 2 or k2 == 2 or k3 == 2
        return implies(0 in got, replied) and 1 not in got and 2 not in got and implies(result[1] is True, replied)

    def ensures_a_fresh_reply_counts(k1, k2, k3, t1, t2, t3, result):
        # liveness side of the same clause (statement: hit guarantee needs answering contacts to be usable):
        # the last event is a reply less than 720 s old  =>  the contact is good and is yielded
        # (a failure recorded at the very same clock reading as the reply is not ordered, so it is excluded)
        clean = (k1 != 1 or t1 < t3) and (k2 != 1 or t2 < t3)
        return implies(k3 == 2 and clean and NOW_TICKS - t3 < 720 * 1024, result[1] is True and result[0][0] == [0])

    def samples():
        import itertools
        ages = [0, 1, 719, 720, 721, 7200]
        for k1, k2, k3 in itertools.product(range(3), range(4), range(4)):
            for a3 in ages:
                for gap in (0, 1, 720):
                    t3 = NOW_TICKS - a3 * 1024
                    yield dict(k1=k1, k2=k2, k3=k3, t1=t3 - 2 * gap * 1024, t2=t3 - gap * 1024, t3=t3)


# ================================================================================ 5. search-round bookkeeping (supports termination)

class FakeTask:
    def __init__(self, what):
        self.what = what
        self.callbacks = []

    def add_done_callback(self, cb):
        self.callbacks.append(cb)

    def cancel(self):
        pass


class TaskLoop:
    """fake loop that records created tasks instead of running them"""

    def __init__(self):
        self.tasks = []

    def time(self):
        return 0

    def create_task(self, what):
        t = FakeTask(what)
        self.tasks.append(t)
        return t


@proof("C12", "search-round.bookkeeping")
class SearchRound:
    """one _search_round of a lookup in an arbitrary state (which of the six known contacts were contacted before, how many
    probes are in flight): it never probes the searching node (own id or own address), never probes a contact twice, never
    has more than ALPHA probes in flight, marks what it probes as contacted, and reports exhaustion (end marker) exactly
    when nothing is in flight and nothing could be scheduled — the facts termination of a lookup rests on (termination
    itself is not decided)"""
    inputs = dict(c0=TBool(), c1=TBool(), c2=TBool(), rest_contacted=TBool(), in_flight=TInt(0, 5))
    note = "all 16 contacted-sets x 0..5 probes in flight"

    def run(c0, c1, c2, rest_contacted, in_flight):
        loop = TaskLoop()
        pm = Verdicts([None] * 500)
        finder = node_finder(loop, pm, NODES[:6])
        finder.active[SELF_ELSEWHERE] = 1                       # even if the own id / own address had slipped into the shortlist
        finder.active[OWN_ADDRESS] = 2
        finder._send_probe = lambda peer: peer                  # probes are not executed here (covered by the paging / yield proofs)
        finder.running = True
        for flag, peer in ((c0, NODES[0]), (c1, NODES[1]), (c2, NODES[2])):
            if flag:
                finder.contacted.add(peer)
        if rest_contacted:
            for peer in NODES[3:6]:
                finder.contacted.add(peer)
        others = [make_kademlia_peer(bytes([0xA0 + j]) * 48, '8.8.5.%d' % (j + 1), 4100 + j) for j in range(5)]
        for j in range(5):
            if j < in_flight:
                finder.contacted.add(others[j])
                finder.running_probes[others[j]] = FakeTask(others[j])
        before = [p.udp_port - 4000 for p in finder.contacted]
        finder._search_round()
        probed = [t.what.udp_port - 4000 for t in loop.tasks]
        return probed, before, [p.udp_port - 4000 for p in finder.contacted], len(finder.running_probes), drain(finder.iteration_queue)

    def ensures_never_probes_itself_or_twice(result):
        probed, before = result[0], result[1]
        ok = True
        for i in probed:
            ok = ok and 0 <= i <= 5 and i not in before and probed.count(i) == 1
        return ok

    def ensures_at_most_alpha_in_flight(in_flight, result):
        return result[3] == in_flight + len(result[0]) and result[3] <= ALPHA

    def ensures_probed_contacts_are_marked(result):
        return sorted(result[2]) == sorted(result[1] + result[0])

    def ensures_uses_free_slots(c0, c1, c2, rest_contacted, in_flight, result):
        # progress: a free probe slot is not left unused while an uncontacted contact is known
        fresh = (0 if c0 else 1) + (0 if c1 else 1) + (0 if c2 else 1) + (0 if rest_contacted else 3)
        return len(result[0]) == min(fresh, ALPHA - in_flight)

    def ensures_exhaustion_reported_iff_nothing_left(in_flight, result):
        ended = len(result[4]) > 0 and result[4][-1] is None
        return ended == (len(result[0]) == 0 and in_flight == 0)

    def samples():
        import itertools
        for c0, c1, c2, rest, r in itertools.product((False, True), (False, True), (False, True), (False, True), range(6)):
            yield dict(c0=c0, c1=c1, c2=c2, rest_contacted=rest, in_flight=r)


# ================================================================================ 6. compact addresses of blob peers

PUBLIC_IPS = ['8.8.8.8', '1.1.1.1', '9.255.255.255', '11.0.0.0', '100.63.255.255', '100.128.0.0', '126.255.255.255', '128.0.0.1',
              '169.253.255.255', '169.255.0.0', '172.15.255.255', '172.32.0.0', '192.167.255.255', '192.169.0.0', '198.17.255.255',
              '198.20.0.0', '203.0.112.255', '203.0.114.0', '223.255.255.255']
NON_PUBLIC_IPS = ['0.0.0.0', '0.1.2.3', '10.0.0.0', '10.255.255.255', '100.64.0.0', '100.127.255.255', '127.0.0.1', '127.255.255.255',
                  '169.254.0.0', '169.254.255.255', '172.16.0.0', '172.31.255.255', '192.0.2.1', '192.168.0.0', '192.168.255.255',
                  '198.18.0.0', '198.19.255.255', '198.51.100.7', '203.0.113.0', '203.0.113.255', '224.0.0.0', '239.255.255.255',
                  '240.0.0.0', '255.255.255.254', '255.255.255.255']


def ip_bytes(ip):
    return bytes(int(x) for x in ip.split('.'))


def make_decode_proof(ip, public):
    packed = ip_bytes(ip)

    def run(port, node_id):
        peer = decode_tcp_peer_from_compact_address(packed + port.to_bytes(2, 'big') + node_id)
        return peer.address, peer.tcp_port, peer.node_id, peer.udp_port

    def ensures_only_well_formed_public_addresses(port, node_id, result):
        # the statement: value lookups yield only well-formed public peer addresses (public IPv4, port 1024..65535, 48-byte id)
        return (public and 1024 <= port <= 65535 and len(node_id) == 48
                and result[0] == ip and result[1] == port and result[2] == node_id and result[3] is None)

    def samples():
        for port in (0, 1, 1023, 1024, 3333, 65535):
            for ln in (0, 47, 48, 49):
                yield dict(port=port, node_id=bytes([7]) * ln)

    body = dict(inputs=dict(port=TInt(0, 65535), node_id=TBytes(maxlen=64)), run=staticmethod(run),
                ensures_only_well_formed_public_addresses=staticmethod(ensures_only_well_formed_public_addresses),
                raises={ValueError: (lambda port, node_id: not (public and 1024 <= port <= 65535 and len(node_id) == 48))},
                samples=staticmethod(samples), note="ports 0, 1, 1023, 1024, 3333, 65535 x id lengths 0, 47, 48, 49",
                __doc__=f"decode_tcp_peer_from_compact_address on {ip} + any 2-byte port + any id of up to 64 bytes: "
                        f"{'accepted iff port >= 1024 and the id has 48 bytes, fields decoded exactly' if public else 'always refused'}"
                        f" (ValueError, the only exception the value finder treats as a misbehaving peer)")
    proof("C12", f"compact-address.decode[{ip}]")(type('Decode', (), body))


for _ip in PUBLIC_IPS:
    make_decode_proof(_ip, True)
for _ip in NON_PUBLIC_IPS:
    make_decode_proof(_ip, False)


# reserved IPv4 blocks (IANA special-purpose registry, RFC 6890: not globally routable unicast) — the oracle for "public"
RESERVED_BLOCKS = [('0.0.0.0', 8), ('10.0.0.0', 8), ('100.64.0.0', 10), ('127.0.0.0', 8), ('169.254.0.0', 16), ('172.16.0.0', 12),
                   ('192.0.2.0', 24), ('192.168.0.0', 16), ('198.18.0.0', 15), ('198.51.100.0', 24), ('203.0.113.0', 24),
                   ('224.0.0.0', 4), ('240.0.0.0', 4)]
# blocks whose status differs between registry versions / library versions: no verdict demanded
UNSETTLED_BLOCKS = [('192.0.0.0', 24), ('192.88.99.0', 24), ('192.31.196.0', 24), ('192.52.193.0', 24), ('192.175.48.0', 24)]


def ip_int(ip):
    a, b, c, d = [int(x) for x in ip.split('.')]
    return (a << 24) | (b << 16) | (c << 8) | d


def in_blocks(value, blocks):
    for base, bits in blocks:
        if value >> (32 - bits) == ip_int(base) >> (32 - bits):
            return True
    return False


def spec_is_public(ip):
    return not in_blocks(ip_int(ip), RESERVED_BLOCKS)


def _sweep_ips():
    out = []
    for base, bits in RESERVED_BLOCKS + UNSETTLED_BLOCKS:
        first = ip_int(base)
        last = first + (1 << (32 - bits)) - 1
        for v in (first - 1, first, first + 1, (first + last) // 2, last - 1, last, last + 1):
            if 0 <= v < 2 ** 32:
                out.append(v)
    rnd = _random.Random(12)
    for _ in range(1500):
        out.append(rnd.randrange(2 ** 32))
    return [v for v in out if not in_blocks(v, UNSETTLED_BLOCKS)]


@proof("C12", "compact-address.decode.sweep")
class DecodeSweep:
    """BOUNDED stand-in for the IPv4 part of "well-formed public peer address" (the library call ipaddress.ip_address on a
    symbolic string is outside the engine): an address is accepted iff it lies in no reserved block of the IANA
    special-purpose registry; inputs shorter than 6 bytes never decode"""
    bounded_only = True
    note = "borders and middle of every reserved block (13 blocks) + 1500 seeded random IPv4 addresses, ports 1023/1024, " \
           "id lengths 47/48; compact strings of 0..5 bytes"
    inputs = dict(compact=TBytes())

    def run(compact):
        peer = decode_tcp_peer_from_compact_address(compact)
        return peer.address, peer.tcp_port, peer.node_id

    def ensures_only_well_formed_public_addresses(compact, result):
        ip = '.'.join(str(b) for b in compact[:4])
        port = int.from_bytes(compact[4:6], 'big')
        return (len(compact) == 54 and spec_is_public(ip) and 1024 <= port <= 65535
                and result == (ip, port, compact[6:]))

    def _should_fail(compact):
        if len(compact) < 6:
            return True
        ip = '.'.join(str(b) for b in compact[:4])
        return not (len(compact) == 54 and spec_is_public(ip) and 1024 <= int.from_bytes(compact[4:6], 'big') <= 65535)

    # a reply shorter than an IPv4 address makes str.format raise IndexError (remark R2 in NOT_DECIDED): nothing is yielded either way
    raises = {ValueError: _should_fail, IndexError: (lambda compact: len(compact) < 4)}

    def samples():
        for v in _sweep_ips():
            for port, ln in ((1024, 48), (1023, 48), (3333, 47)):
                yield dict(compact=v.to_bytes(4, 'big') + port.to_bytes(2, 'big') + bytes([9]) * ln)
        for ln in range(6):
            yield dict(compact=bytes([8]) * ln)


# ================================================================================ 7. hostile findValue replies (bounded)

def hostile_reply(shape, page):
    tok = b'\x01' * 48
    id48 = b'\x21' * 48
    a = ADDRS
    if shape == 'valid3':
        return {b'token': tok, PAGE_KEY: 1, KEY: a[:3]}
    if shape == 'port80':
        return {b'token': tok, PAGE_KEY: 1, KEY: [a[0], a[1][:4] + (80).to_bytes(2, 'big') + a[1][6:], a[2]]}
    if shape == 'port0':
        return {b'token': tok, PAGE_KEY: 1, KEY: [a[1][:4] + b'\x00\x00' + a[1][6:]]}
    if shape == 'private':
        return {b'token': tok, PAGE_KEY: 1, KEY: [a[0], bytes([10, 0, 0, 1]) + a[1][4:]]}
    if shape == 'loopback':
        return {b'token': tok, PAGE_KEY: 1, KEY: [bytes([127, 0, 0, 1]) + a[1][4:], a[0]]}
    if shape == 'multicast':
        return {b'token': tok, PAGE_KEY: 1, KEY: [bytes([224, 0, 0, 1]) + a[1][4:], a[0]]}
    if shape == 'short-id':
        return {b'token': tok, PAGE_KEY: 1, KEY: [a[0], a[1][:-1]]}
    if shape == 'long-id':
        return {b'token': tok, PAGE_KEY: 1, KEY: [a[0], a[1] + b'x']}
    if shape == 'empty-address':
        return {b'token': tok, PAGE_KEY: 1, KEY: [a[0], b'']}
    if shape == 'int-address':
        return {b'token': tok, PAGE_KEY: 1, KEY: [a[0], 7]}
    if shape == 'no-token':
        return {PAGE_KEY: 1, KEY: a[:3]}
    if shape == 'pages-garbage':
        return {b'token': tok, PAGE_KEY: b'xx', KEY: a[:3]}
    if shape == 'pages-list':
        return {b'token': tok, PAGE_KEY: [1], KEY: a[:3]}
    if shape == 'pages-negative':
        return {b'token': tok, PAGE_KEY: -5, KEY: a[:8]}
    if shape == 'same-full-page-forever':
        return {b'token': tok, PAGE_KEY: 10 ** 9, KEY: a[:8]}
    if shape == 'duplicate-in-page':
        return {b'token': tok, PAGE_KEY: 3, KEY: a[:7] + [a[0]]}
    if shape == 'bytes-not-list':
        return {b'token': tok, PAGE_KEY: 1, KEY: a[0]}
    if shape == 'dict-not-list':
        return {b'token': tok, PAGE_KEY: 1, KEY: {a[0]: 1}}
    if shape == 'contacts-arity':
        return {b'token': tok, PAGE_KEY: 0, b'contacts': [(id48, b'1.2.3.4')]}
    if shape == 'contacts-reserved':
        return {b'token': tok, PAGE_KEY: 0, b'contacts': [(id48, b'10.0.0.1', 4444), (id48, b'8.8.8.8', 80)]}
    if shape == 'contacts-str':
        return {b'token': tok, PAGE_KEY: 0, b'contacts': [(id48, '8.8.8.8', 4444)]}
    if shape == 'contacts-short-id':
        return {b'token': tok, PAGE_KEY: 0, b'contacts': [(b'ab', b'8.8.8.8', 4444)]}
    if shape == 'contacts-own-id':
        return {b'token': tok, PAGE_KEY: 0, b'contacts': [(CLIENT_ID, b'8.8.8.8', 4444)]}
    if shape == 'not-a-dict':
        return [1, 2]
    if shape == 'second-page-poisoned':
        return {b'token': tok, PAGE_KEY: 5, KEY: a[:8]} if page == 0 else {b'token': tok, PAGE_KEY: 5, KEY: [a[8], a[9][:4] + b'\x00\x50' + a[9][6:]]}
    raise KeyError(shape)


HOSTILE_SHAPES = ['valid3', 'port80', 'port0', 'private', 'loopback', 'multicast', 'short-id', 'long-id', 'empty-address', 'int-address',
                  'no-token', 'pages-garbage', 'pages-list', 'pages-negative', 'same-full-page-forever', 'duplicate-in-page',
                  'bytes-not-list', 'dict-not-list', 'contacts-arity', 'contacts-reserved', 'contacts-str', 'contacts-short-id',
                  'contacts-own-id', 'not-a-dict', 'second-page-poisoned']


class HostileStub:
    def __init__(self, shape):
        self.shape = shape
        self.requested = []

    async def find_value(self, key, page=0):
        self.requested.append(page)
        return hostile_reply(self.shape, page)


@proof("C12", "value-finder.hostile-replies")
class HostileReplies:
    """BOUNDED stand-in (the decoded peers end up in Python sets, which the engine cannot hold symbolically): whatever a
    contacted node answers to findValue — malformed / reserved / privileged-port addresses, wrong types, missing fields,
    garbage page counts, the same full page over and over, garbage contacts — the real value finder yields only well-formed
    public peer addresses that the reply really contained, keeps the searching node out of its shortlist, and stops asking
    that node after at most two requests"""
    bounded_only = True
    note = "25 reply shapes (see HOSTILE_SHAPES), each driven through _send_probe until the finder stops re-probing the node"
    inputs = dict(shape=TStr())

    async def run(shape):
        stub = HostileStub(shape)
        loop = Clock(1000)
        pm = Verdicts([None] * 500)
        finder = IterativeValueFinder(loop, ClientProtocol(loop, pm, CLIENT_ID, stub), KEY, -1, [])
        probes = 0
        errors = []
        while SERVER_PEER not in finder.contacted and probes < 40:
            finder.contacted.add(SERVER_PEER)
            try:
                await finder._send_probe(SERVER_PEER)
            except (IndexError, TypeError, KeyError, AttributeError, ValueError) as e:     # ends the probe task; the done-callback
                errors.append(type(e).__name__)                                            # of the task still runs the next round
            probes += 1
        got = []
        while not finder.iteration_queue.empty():
            batch = finder.iteration_queue.get_nowait()
            got = got + [(p.address, p.tcp_port, p.node_id, p.udp_port) for p in batch]
        return got, probes, errors, [p.node_id for p in finder.active]

    def ensures_only_well_formed_public_addresses(shape, result):
        offered = []
        for page in (0, 1):
            reply = hostile_reply(shape, page)
            if isinstance(reply, dict) and isinstance(reply.get(KEY), (list, dict)):
                offered = offered + [x for x in reply[KEY] if isinstance(x, bytes)]
        ok = True
        for (address, tcp_port, node_id, udp_port) in result[0]:
            compact = ip_bytes(address) + tcp_port.to_bytes(2, 'big') + node_id
            ok = ok and spec_is_public(address) and 1024 <= tcp_port <= 65535 and len(node_id) == 48 and compact in offered
        return ok

    def ensures_a_malformed_page_yields_nothing(shape, result):
        malformed = shape in ('port80', 'port0', 'private', 'loopback', 'multicast', 'short-id', 'long-id', 'empty-address',
                              'int-address', 'no-token', 'pages-garbage', 'pages-list', 'bytes-not-list', 'not-a-dict')
        return implies(malformed, result[0] == [])

    def ensures_stops_asking(result):
        return result[1] <= 2

    def ensures_searching_node_not_shortlisted(result):
        return CLIENT_ID not in result[3]

    def samples():
        for shape in HOSTILE_SHAPES:
            yield dict(shape=shape)


# ================================================================================ 8. small simulated network (bounded)

async def _until_done(coro, advance):
    task = _asyncio.ensure_future(coro)
    for _ in range(3000):
        if task.done():
            break
        await advance(0.1)
    if not task.done():
        task.cancel()
        return 'did not finish within 300 s of virtual time'
    return task.result()


async def _value_lookup(node, key):
    found = []
    finder = node.get_iterative_value_finder(key)
    try:
        async for peers in finder:
            found.extend(peers)
    finally:
        await finder.aclose()
    return found


def _perturb(node, rnd, duplicate, delay):
    """deliver every datagram after a random delay (reordering) and sometimes twice (duplication); never lose one"""
    loop = _asyncio.get_event_loop()
    deliver = node.protocol.datagram_received

    def receive(data, addr):
        first = rnd.random() * delay
        loop.call_later(first, deliver, data, addr)
        if duplicate and rnd.random() < 0.3:
            loop.call_later(first + 0.35 + rnd.random() * delay, deliver, data, addr)
    node.protocol.datagram_received = receive


async def simulate_network(size, announcers, seed, duplicate, delay):
    """`size` real Nodes (one bootstrap node, the others join through it in a seeded random order) on an in-memory datagram
    network with virtual time; the last `announcers` nodes announce one blob; every node then looks the blob up right away,
    20 h later and 25 h later"""
    from lbry.dht.node import Node
    from lbry.dht.protocol.distance import Distance
    from tests import dht_mocks
    loop = _asyncio.get_event_loop()
    errors = []
    loop.set_exception_handler(lambda _loop, context: errors.append(str(context.get('exception') or context.get('message'))))
    rnd = _random.Random(seed)
    result = {}
    with dht_mocks.mock_network_loop(loop):
        advance = dht_mocks.get_time_accelerator(loop)
        jump = dht_mocks.get_time_accelerator(loop, instant_step=True)
        boot = Node(loop, PeerManager(loop), constants.generate_id(1000 + seed), 4444, 4444, 3333, '1.2.3.4', is_bootstrap_node=True)
        nodes = [boot]
        try:
            if delay:
                _perturb(boot, rnd, duplicate, delay)
            boot.start('1.2.3.4', [])
            boot.protocol.ping_queue._default_delay = 0
            order = list(range(1, size))
            rnd.shuffle(order)
            for i in order:
                node = Node(loop, PeerManager(loop), constants.generate_id(seed * 100 + i), 4444, 4444, 3333 + i, '1.3.3.%d' % i)
                if delay:
                    _perturb(node, rnd, duplicate, delay)
                node.start('1.3.3.%d' % i, [('1.2.3.4', 4444)])
                nodes.append(node)
                for _ in range(200):
                    if node.joined.is_set():
                        break
                    await advance(1)
                if not node.joined.is_set():
                    return dict(joined=False)
            for _ in range(400):                                # let the delayed pings (300 s) complete the routing tables
                await advance(1)
            result['joined'] = True
            key = constants.generate_id(7777 + seed)
            distance = Distance(key)
            announcing = nodes[-announcers:]
            stored_everywhere_close = True
            for a in announcing:
                stored_to = await _until_done(a.announce_blob(key.hex()), advance)
                others = sorted([n.protocol.node_id for n in nodes if n is not a], key=distance)
                if isinstance(stored_to, str) or not stored_to or not set(stored_to) <= set(others):
                    stored_everywhere_close = False
                elif len(stored_to) != min(K, size - 1):
                    stored_everywhere_close = False         # stored on K nodes (on all others when there are at most K)
                elif others[0] not in stored_to:
                    stored_everywhere_close = False         # the closest node of all always stores it
            result['stored'] = stored_everywhere_close

            async def everybody_finds_the_announcers():
                ok = True
                total = 0
                for n in nodes:
                    found = await _until_done(_value_lookup(n, key), advance)
                    if isinstance(found, str):
                        return False, -1
                    total += len(found)
                    for a in announcing:
                        if a is not n and not any(p.address == a.protocol.external_ip and p.tcp_port == a.protocol.peer_port
                                                  and p.node_id == a.protocol.node_id for p in found):
                            ok = False
                return ok, total
            result['hit_now'], _ = await everybody_finds_the_announcers()
            await jump(20 * 3600)
            result['hit_after_20h'], _ = await everybody_finds_the_announcers()
            await jump(5 * 3600)
            _, result['found_after_25h'] = await everybody_finds_the_announcers()
        finally:
            for n in nodes:
                n.stop()
    result['callback_errors'] = len(errors)
    return result


@proof("C12", "network.hit-and-expiry")
class NetworkHitAndExpiry:
    """BOUNDED stand-in for the network-wide hit guarantee (NOT decided deductively): real Nodes (node.py, protocol.py,
    routing table, iterative finders, data store) on an in-memory loss-free datagram network with virtual time.  Every node
    joins through the bootstrap node; the announced blob is stored on K other nodes including the closest one (on all others
    when there are at most K of them); every other node's value lookup returns every announcer immediately and 20 hours
    later, and nobody finds anything 25 hours later; all lookups and announcements finish."""
    bounded_only = True
    note = "8 networks of sizes 2, 2, 3, 5, 9, 12, 20, 40 with 1..12 announcers (more than one reply page on the storing nodes), " \
           "seeded join orders, 400 s settling time; synchronous delivery, and random delay < 0.3 s with reordering and 30 % " \
           "duplication for sizes 5 and 12"
    inputs = dict(size=TInt(2, 40), announcers=TInt(1, 40), seed=TInt(0), duplicate=TBool(), delay=TInt(0, 1))

    async def run(size, announcers, seed, duplicate, delay):
        return await simulate_network(size, announcers, seed, duplicate, 0.3 * delay)

    def ensures_everybody_joined_and_everything_finished(result):
        return result.get('joined') is True and 'found_after_25h' in result

    def ensures_stored_on_close_nodes(result):
        return result['stored']

    def ensures_every_other_node_finds_every_announcer(result):
        return result['hit_now'] and result['hit_after_20h']

    def ensures_nothing_found_after_expiry(result):
        return result['found_after_25h'] == 0

    def samples():
        for size, announcers, seed, duplicate, delay in ((2, 1, 0, False, 0), (2, 2, 1, False, 0), (3, 3, 1, False, 0), (5, 2, 1, True, 1),
                                                         (9, 9, 1, False, 0), (12, 1, 2, True, 1), (20, 12, 0, False, 0),
                                                         (40, 3, 1, False, 0)):
            yield dict(size=size, announcers=announcers, seed=seed, duplicate=duplicate, delay=delay)


# -------------------------------------------------------------------------------- 8b. abandoned lookups (bounded)

async def _abandon_lookup_while_probing(node, key, target, advance):
    """start a value lookup on `node` and cancel it (as a caller that has seen enough does) at a moment when its findValue
    probe to `target` is in flight; returns whether such a moment was hit"""
    task = _asyncio.ensure_future(_value_lookup(node, key))
    hit = False
    for _ in range(2000):
        for peer, future, request in list(node.protocol.sent_messages.values()):
            if peer.address == target.protocol.external_ip and request.method == b'findValue' and not future.done():
                hit = True
        if hit or task.done():
            break
        await advance(0.01)
    task.cancel()
    try:
        await task
    except _asyncio.CancelledError:
        pass
    return hit


async def simulate_abandoned_lookups(size, seed, delay):
    """`size` real Nodes on the in-memory network with virtual time and a random latency below `delay` s per datagram (no
    loss); the last node announces a blob; then EVERY other node runs a lookup that is abandoned while its probe to the
    announcer is in flight; after the delayed replies have arrived (and were ignored) every node looks the blob up again,
    right away and half an hour later"""
    from lbry.dht.node import Node
    from tests import dht_mocks
    loop = _asyncio.get_event_loop()
    errors = []
    loop.set_exception_handler(lambda _loop, context: errors.append(str(context.get('exception') or context.get('message'))))
    rnd = _random.Random(seed)
    result = {}
    with dht_mocks.mock_network_loop(loop):
        advance = dht_mocks.get_time_accelerator(loop)
        jump = dht_mocks.get_time_accelerator(loop, instant_step=True)
        boot = Node(loop, PeerManager(loop), constants.generate_id(3000 + seed), 4444, 4444, 3333, '1.2.3.4', is_bootstrap_node=True)
        nodes = [boot]
        try:
            _perturb(boot, rnd, False, delay)
            boot.start('1.2.3.4', [])
            boot.protocol.ping_queue._default_delay = 0
            for i in range(1, size):
                node = Node(loop, PeerManager(loop), constants.generate_id(seed * 100 + 50 + i), 4444, 4444, 3333 + i, '1.3.3.%d' % i)
                _perturb(node, rnd, False, delay)
                node.start('1.3.3.%d' % i, [('1.2.3.4', 4444)])
                nodes.append(node)
                for _ in range(200):
                    if node.joined.is_set():
                        break
                    await advance(1)
                if not node.joined.is_set():
                    return dict(joined=False)
            for _ in range(400):
                await advance(1)
            result['joined'] = True
            key = constants.generate_id(8888 + seed)
            announcer = nodes[-1]
            stored_to = await _until_done(announcer.announce_blob(key.hex()), advance)
            result['stored'] = not isinstance(stored_to, str) and len(stored_to) == min(K, size - 1)

            async def everybody_finds_the_announcer():
                ok = True
                for n in nodes[:-1]:
                    found = await _until_done(_value_lookup(n, key), advance)
                    if isinstance(found, str) or not any(
                            p.address == announcer.protocol.external_ip and p.tcp_port == announcer.protocol.peer_port
                            and p.node_id == announcer.protocol.node_id for p in found):
                        ok = False
                return ok
            result['hit_before'] = await everybody_finds_the_announcer()
            abandoned = 0
            for n in nodes[:-1]:
                if await _abandon_lookup_while_probing(n, key, announcer, advance):
                    abandoned += 1
            result['abandoned_in_flight'] = abandoned
            for _ in range(30):                                 # the replies to the abandoned probes arrive
                await advance(0.1)
            result['hit_after'] = await everybody_finds_the_announcer()
            await jump(1800)
            result['hit_half_an_hour_later'] = await everybody_finds_the_announcer()
            result['announcer_still_good'] = all(n.protocol.peer_manager.peer_is_good(
                make_kademlia_peer(announcer.protocol.node_id, announcer.protocol.external_ip, announcer.protocol.udp_port)) is not False
                for n in nodes[:-1])
        finally:
            for n in nodes:
                n.stop()
    result['callback_errors'] = len(errors)
    return result


@proof("C12", "network.abandoned-lookups")
class NetworkAbandonedLookups:
    """BOUNDED stand-in (real Nodes, real asyncio tasks and cancellation, in-memory loss-free network with latency): a lookup
    that its caller abandons while a probe is in flight must not make a live, honest node look failed.  Every node other than
    the announcer abandons one lookup while its findValue probe to the announcer is pending; afterwards every other node's
    value lookup still returns the announcer (the announcement is minutes old), and no node regards the announcer as bad."""
    bounded_only = True
    note = "5 networks of sizes 3, 5, 6, 9, 9 (every other node stores the announcement), latency < 0.3 s per datagram, no loss"
    inputs = dict(size=TInt(3, 9), seed=TInt(0), delay=TInt(1, 1))

    async def run(size, seed, delay):
        return await simulate_abandoned_lookups(size, seed, 0.3 * delay)

    def ensures_scenario_was_exercised(size, result):
        # vacuity guard: the network formed, the blob was stored and found, and every lookup was abandoned with a probe in flight
        return (result.get('joined') is True and result['stored'] and result['hit_before']
                and result['abandoned_in_flight'] == size - 1)

    def ensures_every_other_node_still_finds_the_announcer(result):
        return result['hit_after'] and result['hit_half_an_hour_later']

    def ensures_nobody_regards_the_announcer_as_failed(result):
        return result['announcer_still_good']

    def samples():
        for size, seed in ((3, 0), (5, 1), (6, 2), (9, 0), (9, 4)):
            yield dict(size=size, seed=seed, delay=1)


# ================================================================================ 9. blob announcer (one consumer pass)

from lbry.dht.blob_announcer import BlobAnnouncer        # noqa: E402


class FakeEvent:
    def __init__(self):
        self.flag = False

    def set(self):
        self.flag = True

    def clear(self):
        self.flag = False

    def is_set(self):
        return self.flag


@model_for(_asyncio.Event)
def _m_event(interp, st, args, kwargs):
    yield from interp.instantiate(st, FakeEvent, [], {})


class AnnouncingNode:
    """node seen by the announcer: announce_blob returns the ids of the peers that stored the blob, or fails"""

    def __init__(self, outcomes):
        self.outcomes = outcomes
        self.attempts = []

    async def announce_blob(self, blob_hash):
        self.attempts.append(blob_hash)
        stored_to, fails = self.outcomes[blob_hash]
        if fails:
            raise OSError("network unreachable")
        return stored_to


BLOBS = ['aa' * 48, 'bb' * 48, 'cc' * 48]


@proof("C12", "announcer.consumer")
class AnnouncerConsumer:
    """one consumer pass of the blob announcer over a queue of three blobs whose announcements are stored on an arbitrary
    number of peers (any list length) or fail: every queued blob is attempted exactly once, a failure does not stop the
    others, and a blob is recorded as announced (= not retried for 12 hours) only if its announcement was stored on at least
    one peer — otherwise it would be unfindable although the node believes it is announced"""
    inputs = dict(s0=TList(TBytes()), s1=TList(TBytes()), s2=TList(TBytes()), f0=TBool(), f1=TBool(), f2=TBool())
    note = "0, 1, 4, 5, 8 storing peers x failing / not failing for each of the three blobs"

    async def run(s0, s1, s2, f0, f1, f2):
        node = AnnouncingNode({BLOBS[0]: (s0, f0), BLOBS[1]: (s1, f1), BLOBS[2]: (s2, f2)})
        announcer = BlobAnnouncer(Clock(0), node, None)
        announcer.announce_queue = [BLOBS[0], BLOBS[1], BLOBS[2]]
        await announcer._run_consumer()
        return sorted(node.attempts), [b in announcer.announced for b in BLOBS], announcer.announce_queue

    def ensures_every_blob_attempted_once(result):
        return result[0] == BLOBS and result[2] == []

    def ensures_announced_only_if_stored_somewhere(s0, s1, s2, f0, f1, f2, result):
        return (implies(result[1][0], len(s0) > 0 and not f0) and implies(result[1][1], len(s1) > 0 and not f1)
                and implies(result[1][2], len(s2) > 0 and not f2))

    def ensures_well_stored_blobs_are_not_retried(s0, s1, s2, f0, f1, f2, result):
        # stored on a full set of K peers and no failure: recorded as announced
        return (implies(len(s0) >= K and not f0, result[1][0]) and implies(len(s1) >= K and not f1, result[1][1])
                and implies(len(s2) >= K and not f2, result[1][2]))

    def samples():
        import itertools
        sizes = (0, 1, 4, 5, 8)
        for a, b, c in itertools.product(sizes, repeat=3):
            for fails in itertools.product((False, True), repeat=3):
                yield dict(s0=[b'x'] * a, s1=[b'y'] * b, s2=[b'z'] * c, f0=fails[0], f1=fails[1], f2=fails[2])


# ================================================================================ 10. RPC failure accounting (send_request)

from lbry.dht.protocol.protocol import KademliaProtocol                                              # noqa: E402
from lbry.dht.serialization.datagram import RequestDatagram, ResponseDatagram, ErrorDatagram         # noqa: E402
from lbry.dht.serialization.datagram import RESPONSE_TYPE, ERROR_TYPE                                # noqa: E402
from lbry.dht.error import RemoteException                                                           # noqa: E402

RPC_ID = bytes(range(100, 120))
OTHER_RPC_ID = bytes(range(120, 140))
ANNOUNCER = make_kademlia_peer(id_of(0), ip_of(0), 4000, 3000)      # a live, honest node that announced KEY to this node
BYSTANDER = make_kademlia_peer(id_of(1), ip_of(1), 4001, 3001)      # another node with a request of ours in flight

REPLY, REPLY_FROM_ELSEWHERE, REMOTE_ERROR, TIMEOUT, CANCELLED = 0, 1, 2, 3, 4


class Metric:
    """prometheus counter / histogram / gauge as used by the protocol: calls are counted"""

    def __init__(self):
        self.count = 0

    def labels(self, scope=None, method=None):
        return self

    def inc(self):
        self.count += 1

    def observe(self, amount):
        self.count += 1

    def set(self, value):
        self.count += 1


class NullGauge:
    """prometheus gauge of the peer manager's cache sizes: ignored"""

    def labels(self, scope=None):
        return self

    def set(self, value):
        pass


class Accounting(PeerManager):
    """the REAL PeerManager; the failure reports it receives are additionally listed"""
    peer_manager_keys_metric = NullGauge()

    def __init__(self, loop):
        super().__init__(loop)
        self.failures = []

    def report_failure(self, address, udp_port):
        self.failures.append((address, udp_port))
        super().report_failure(address, udp_port)


class PendingReply:
    """asyncio.Future as far as _send / send_request / handle_response_datagram / handle_error_datagram use it (state machine,
    done callbacks, InvalidStateError on double completion).  What happens WHILE send_request waits for it under
    asyncio.wait_for is decided by the scenario (`world.while_waiting`): a datagram arrives, the timer fires, or the waiting
    task is cancelled by its owner."""

    def __init__(self, world):
        self.world = world
        self.state = 'pending'
        self.value = None
        self.callbacks = []
        self.awaited = 0

    def done(self):
        return self.state != 'pending'

    def cancelled(self):
        return self.state == 'cancelled'

    def add_done_callback(self, callback):
        self.callbacks.append(callback)

    def finish(self, state, value):
        if self.state != 'pending':
            raise _asyncio.InvalidStateError('invalid state')
        self.state = state
        self.value = value
        callbacks = self.callbacks
        self.callbacks = []
        for callback in callbacks:                  # asyncio runs them before the next datagram is looked at
            callback(self)

    def cancel(self):
        if self.state != 'pending':
            return False
        self.finish('cancelled', None)
        return True

    def set_result(self, value):
        self.finish('result', value)

    def set_exception(self, error):
        self.finish('exception', error)

    def __await_model__(self):
        self.awaited += 1
        self.world.while_waiting(self)
        if self.state == 'result':
            return self.value
        if self.state == 'exception':
            raise self.value
        raise _asyncio.CancelledError()

    def __await__(self):
        if False:
            yield None
        return self.__await_model__()


def _m_wait_for_scripted(interp, st, args, kwargs):
    """asyncio.wait_for(future, timeout) on a PendingReply: the outcome (result / exception of the future, TimeoutError with the
    future cancelled, CancelledError) is produced by the future's scenario"""
    yield from interp.bm.do_await(interp, st, args[0])


class RpcLoop(TickClock):
    """event loop as seen by the protocol: clock and create_future"""

    def __init__(self, ticks, world):
        self.ticks = ticks
        self.world = world

    def create_future(self):
        return PendingReply(self.world)


class WireOut:
    """datagram transport: records what is sent"""

    def __init__(self):
        self.sent = []

    def is_closing(self):
        return False

    def sendto(self, data, address):
        self.sent.append((len(data), address))


class Requester(KademliaProtocol):
    """a KademliaProtocol without its routing table, ping queue and asyncio objects: send_request, _send and the
    handle_*_datagram methods are the REAL ones; routing-table updates are recorded"""

    def __init__(self, loop, peer_manager):         # noqa  (the real constructor builds the routing table and asyncio primitives)
        self.loop = loop
        self.peer_manager = peer_manager
        self.node_id = CLIENT_ID
        self.external_ip = '7.7.7.7'
        self.udp_port = 4445
        self.sent_messages = {}
        self.transport = WireOut()
        self.rpc_timeout = 5.0
        self.request_sent_metric = Metric()
        self.request_success_metric = Metric()
        self.request_error_metric = Metric()
        self.response_time_metric = Metric()
        self.data_store = DictDataStore(loop, peer_manager)
        self.added = []
        self.removed = []

    def add_peer(self, peer):
        self.added.append(peer.udp_port - 4000)

    def remove_peer(self, peer):
        self.removed.append(peer.udp_port - 4000)


class RpcWorld:
    """the scenario: what the rest of the world does while send_request waits for the reply to RPC_ID"""

    def __init__(self, scenario, timer_cancels):
        self.scenario = scenario
        self.timer_cancels = timer_cancels
        self.proto = None

    def while_waiting(self, future):
        source = (ANNOUNCER.address, ANNOUNCER.udp_port)
        if self.scenario == REPLY:                              # the peer answers
            self.proto.handle_response_datagram(source, ResponseDatagram(RESPONSE_TYPE, RPC_ID, ANNOUNCER.node_id, b'pong'))
        elif self.scenario == REPLY_FROM_ELSEWHERE:             # somebody else answers in its name
            self.proto.handle_response_datagram(('8.8.9.9', 4000), ResponseDatagram(RESPONSE_TYPE, RPC_ID, ANNOUNCER.node_id, b'pong'))
        elif self.scenario == REMOTE_ERROR:                     # the peer answers with an error datagram
            self.proto.handle_error_datagram(source, ErrorDatagram(ERROR_TYPE, RPC_ID, ANNOUNCER.node_id, b'ValueError', b'no'))
        elif self.scenario == TIMEOUT:                          # nothing arrives: wait_for cancels the future, raises TimeoutError
            self.proto.loop.ticks += 5 * 1024
            future.cancel()
            raise _asyncio.TimeoutError()
        else:                                                   # the owner of the waiting task cancels it (lookup abandoned)
            if self.timer_cancels:
                future.cancel()                                 # asyncio.wait_for passes the cancellation on to the future
            raise _asyncio.CancelledError()


async def request_harness(scenario, timer_cancels, replied_before, late_reply, busy):
    """one request to a peer that announced KEY to this node a minute ago; afterwards (one more minute later) the node's data
    store is asked for the announcers of KEY, as find_value does for every requester"""
    world = RpcWorld(scenario, timer_cancels)
    loop = RpcLoop(NOW_TICKS, world)
    pm = Accounting(loop)
    proto = Requester(loop, pm)
    world.proto = proto
    if replied_before:                                          # e.g. the ping that put the peer into the routing table
        pm.report_last_replied(ANNOUNCER.address, ANNOUNCER.udp_port)
    proto.data_store.add_peer_to_blob(ANNOUNCER, KEY)
    proto.data_store.add_peer_to_blob(BYSTANDER, KEY)
    loop.ticks += 60 * 1024
    other = None
    if busy:                                                    # a request to another peer is in flight and stays so
        proto._send(BYSTANDER, RequestDatagram.make_ping(CLIENT_ID, OTHER_RPC_ID))
        other = proto.sent_messages[OTHER_RPC_ID][1]
    request = RequestDatagram.make_ping(CLIENT_ID, RPC_ID)
    outcome, answer, future = None, None, None
    try:
        task = proto.send_request(ANNOUNCER, request)
        answer = await task
        outcome = 'answer'
    except _asyncio.TimeoutError:
        outcome = 'timeout'
    except _asyncio.CancelledError:
        outcome = 'cancelled'
    except RemoteException:
        outcome = 'remote error'
    if late_reply:                                              # the reply was only delayed: it arrives after the request was given up
        proto.handle_response_datagram((ANNOUNCER.address, ANNOUNCER.udp_port),
                                       ResponseDatagram(RESPONSE_TYPE, RPC_ID, ANNOUNCER.node_id, b'pong'))
    loop.ticks += 60 * 1024
    served = [p.udp_port - 4000 for p in proto.data_store.get_peers_for_blob(KEY)]
    return dict(outcome=outcome, answer=None if answer is None else answer.response, failures=list(pm.failures),
                served=served, good=pm.peer_is_good(ANNOUNCER), pending=sorted(proto.sent_messages.keys()),
                other_pending=other is not None and not other.done(), removed=proto.removed, sent=len(proto.transport.sent))


@proof("C12", "send_request.accounting")
class SendRequestAccounting:
    """RPC failure accounting of the REAL KademliaProtocol.send_request / _send / handle_response_datagram /
    handle_error_datagram with the REAL PeerManager and DictDataStore, for every outcome of one request to a live, honest peer
    whose announcement this node stores: the peer answers; the answer comes from another address; the peer answers with an
    error; nothing arrives within the RPC time-out; the waiting task is CANCELLED (an iterative lookup that is abandoned while
    its probe is in flight) -- with or without an earlier reply of the peer, with or without the delayed reply arriving
    afterwards, with or without another request in flight.  Statement: announcements of live, honest nodes are found until
    they expire, only contacts that really failed count as failed: a cancelled request records NO failure and the peer's
    announcement is still served; a timed-out or remotely failed request records exactly one failure for that peer."""
    inputs = dict(scenario=TInt(0, 4), timer_cancels=TBool(), replied_before=TBool(), late_reply=TBool(), busy=TBool())
    models = {_asyncio.wait_for: _m_wait_for_scripted}
    note = "all 5 outcomes x wait_for cancels the future itself or not x earlier reply or not x late reply or not x another request " \
           "in flight or not (80 cases, each also run with the real asyncio.wait_for)"
    run = request_harness

    def ensures_outcome_is_reported_to_the_caller(scenario, result):
        expected = {REPLY: 'answer', REPLY_FROM_ELSEWHERE: 'remote error', REMOTE_ERROR: 'remote error', TIMEOUT: 'timeout',
                    CANCELLED: 'cancelled'}[scenario]
        return result['outcome'] == expected and (result['answer'] == b'pong') == (scenario == REPLY) and result['sent'] >= 1

    def ensures_a_cancelled_or_answered_request_records_no_failure(scenario, result):
        return implies(scenario == CANCELLED or scenario == REPLY, result['failures'] == [] and result['removed'] == [])

    def ensures_a_failed_request_records_exactly_one_failure_for_that_peer(scenario, result):
        return implies(scenario in (REPLY_FROM_ELSEWHERE, REMOTE_ERROR, TIMEOUT), result['failures'] == [(ANNOUNCER.address, 4000)])

    def ensures_the_announcement_of_a_peer_that_did_not_fail_is_still_served(scenario, result):
        # hit guarantee at the storing node: the announcer is live and honest, its announcement is two minutes old
        return implies(scenario == CANCELLED or scenario == REPLY, result['served'] == [0, 1] and result['good'] is not False)

    def ensures_the_answering_peer_is_good(scenario, result):
        return implies(scenario == REPLY, result['good'] is True)

    def ensures_nothing_stays_registered_and_other_requests_are_untouched(busy, result):
        # the response future is completed or cancelled in every outcome (a late reply finds nothing to complete)
        return result['pending'] == ([OTHER_RPC_ID] if busy else []) and result['other_pending'] == busy

    def samples():
        import itertools
        for scenario, timer_cancels, replied_before, late_reply, busy in itertools.product(range(5), (False, True), (False, True),
                                                                                           (False, True), (False, True)):
            yield dict(scenario=scenario, timer_cancels=timer_cancels, replied_before=replied_before, late_reply=late_reply, busy=busy)


import logging as _logging
_logging.getLogger('lbry.dht').setLevel(_logging.ERROR)          # the finders log every misbehaving reply of the hostile cases

TRUSTED = [
    "functools.lru_cache around make_kademlia_peer is transparent (the wrapped function is pure); functools.reduce is a left fold",
    "random.Random(seed).shuffle(x) permutes x by a permutation that depends only on the seed and len(x) (CPython's own generator "
    "computes it during symbolic execution); os.urandom(n) returns n arbitrary bytes",
    "hashlib sha384 is a function of the bytes fed (uninterpreted, 48 bytes): distinct tokens are distinguished only through it",
    "asyncio.Queue is an unbounded FIFO (modelled by FakeQueue); awaiting a coroutine runs it to completion",
    "ipaddress.ip_address / lbry.utils.is_valid_public_ipv4 are executed by CPython on concrete addresses only",
    "bencode/bdecode deliver the byte strings and integers of a reply unchanged (property C17); the harness hands the server's "
    "reply dictionary to the client directly, converting bytearray to bytes as the wire does",
    "asyncio.wait_for(future, t) returns the future's result or raises its exception; on time-out it cancels the future and raises "
    "TimeoutError; when the waiting task is cancelled it raises CancelledError at the await (having cancelled the future or not: "
    "both are covered); a future runs its done-callbacks before the next datagram is processed (PendingReply calls them at "
    "once); nothing else runs between two awaits (send_request.accounting; the bounded cases use the real asyncio.wait_for)",
]
NOT_DECIDED = [
    "hit guarantee across the network (join through a bootstrap node, routing tables, storage on the K closest nodes, every "
    "other node's lookup finds the announcer) for all sizes 2..40, join orders and delivery orders: NOT proved; only the "
    "bounded stand-in network.hit-and-expiry (8 simulated networks) and the per-node lemmas (expiry.*, store.token, paging)",
    "termination of every iterative lookup within a bounded number of RPC time-outs under loss, silence and hostile replies: "
    "NOT proved; only the per-round facts of search-round.bookkeeping, paging_is_bounded and the bounded hostile replies",
    "behaviour under datagram loss and RPC time-outs across a whole lookup: send_request is decided for ONE request whose "
    "outcome is scripted at asyncio.wait_for (send_request.accounting); real timers, several requests racing in one event loop "
    "and the finder's reaction to a series of time-outs are exercised only by the bounded networks",
    "remark R5 (observation outside the clauses stated here, which fix the set of announcers during a lookup): a NEW "
    "announcement -- or the expiry of one -- that reaches the storing node between two page requests changes len(peers) and "
    "with it the node-id-seeded permutation find_value slices, so the pages of that lookup no longer fit together: 15 "
    "announcers stored, a 16th stored between page 0 and page 1 -> announcers 3 and 14 (stored long before the lookup) are "
    "never returned by that node (reproduction: /tmp/C12_work/repro_R5_new_announcer.py; 52 of the (n, gap) pairs with "
    "n in 9..40 lose somebody); 10 stored, the oldest expires between page 0 and page 1 -> fresh announcer 3 is never "
    "returned (/tmp/C12_work/repro_R5_expiry.py).  Other storing nodes use other permutations, so the network-wide hit is "
    "usually rescued",
    "the link between find_value_contract and the real find_value for EVERY n: proved for n in {0,1,7,8,9,18} (27, 89 in the "
    "thorough tier), run-time checked for all n <= 100 (find_value.contract.every-n, paging.every-n)",
    "public-IPv4 classification for all 2**32 addresses: 44 fixed addresses deductively, block borders + 1500 random addresses "
    "at run time; blocks whose status is unsettled (192.0.0.0/24, 192.88.99.0/24, 192.31.196.0/24, 192.52.193.0/24, "
    "192.175.48.0/24) carry no verdict",
    "remark R1 (outside the statement, not a finding): KademliaRPC.verify_token accepts ANY token while no secret rotation has "
    "happened (old_token_secret is None) — refresh_token is never called by the node, so the token check is vacuous in "
    "production; the refusal clause of store.token is therefore stated for a node whose secret has been rotated",
    "remark R2: replies with wrong types (address shorter than 4 bytes, non-bytes address, missing token, non-list contacts) end "
    "the probe task with IndexError / TypeError / KeyError / AttributeError instead of the ValueError path that reports the "
    "peer as failing; nothing malformed is yielded and the search goes on (done-callback), so no clause of the statement breaks",
    "BlobAnnouncer._announce (batching, 60 s rounds, storage updates) and Node.announce_blob / peer_search / join_network as "
    "functions: asyncio.gather / sleep / Event are outside the engine; exercised only by network.hit-and-expiry",
    "remark R3: a TCP port below 1024 or equal to 65535 cannot be announced/found although it is a valid port (store accepts "
    "1..65534, the client accepts 1024..65535); one such stored announcement makes clients discard the storing node's whole page",
]
NOT_DECIDED.append(
    "remark R4 (observation, unreachable today because refresh_token is never called): a store refused with 'Invalid token' is "
    "answered by an error datagram, and sending an error datagram records an RPC failure for the requester "
    "(KademliaProtocol._send); the storing node then regards the announcer as bad and get_peers_for_blob hides its "
    "(successfully retried) announcement until the announcer answers one of the storing node's own requests")
ASSUMPTIONS = [
    "clock readings are integers (whole seconds) in the data-store and store proofs; in node-finder.replied-only they are "
    "floats with 1/1024 s resolution and the final reading is fixed at 10**6 s (engine gap /tmp/engine_gaps/C12_3.py: no "
    "float subtraction on a symbolic clock); time stamps are below 2**40 s",
    "stores hold at most 3 earlier announcements per blob in the symbolic proofs (concrete list lengths, symbolic content)",
    "paging: the looking-up node is not itself one of the announcers and the storing node does not hold the blob itself "
    "(completed_blobs empty); the n announcers are fresh and not known bad; pages of the contract are taken in stored order",
    "the peer manager is seen by the data store and the finders through its verdict per peer (True / None / False), quantified "
    "over all combinations; the real PeerManager is used in node-finder.replied-only and send_request.accounting",
    "send_request.accounting: one ping request (fixed rpc id) to a fixed peer whose announcement is one minute old, fixed clock "
    "readings (the request is sent at 10**6 s + 60 s, the store is read 60 s after the outcome); routing-table updates "
    "(add_peer / remove_peer) are recorded, not executed; prometheus metrics are counting fakes",
    "paging.refreshed: the duplicated store datagram carries the same TCP port; the set of announcers does not change during "
    "the lookup (see remark R5) and nothing expires during it",
]
