"""C03 — transaction funding conserves value, pays a bounded fee and returns change  (and the reservation clauses of C14).

Deductive part.  The real `Transaction.create` (with `add_inputs/add_outputs/_add/_reset`, `get_base_fee`, `base_size`, `size`,
`get_total_output_sum`, `get_effective_input_sum`, `Output.get_fee`, `InputOutput.get_fee`, `Input.spend`,
`OutputEffectiveAmountEstimator`), the real `Ledger.get_spendable_utxos`, `get_effective_amount_estimators`, `release_tx`,
`reserve_outputs`, `release_outputs` and the real `CoinSelector` (every in-python strategy) are symbolically executed with 0..2
spendable outputs of symbolic amounts, one requested payment of symbolic amount, an optional pre-chosen input and a symbolic
fee rate, against a duck-typed account and database whose behaviour is the call-site contract of the SQL layer (`get_utxos`
returns the unreserved outputs; `reserve_outputs/release_outputs` flip the flag).  Clauses from the statement: requested
outputs unchanged; added inputs are distinct offered outputs, all of them reserved by this build; inputs = outputs + fee with
size_fee <= fee <= size_fee + cost_of_change + DUST; at most one change output, above DUST, to the change address;
InsufficientFundsError only when the positive-effective-value outputs cannot cover the cost; nothing else is raised; after a
failure nothing stays reserved; every database access of coin selection happens under the reservation lock.
The selector alone is proved sound and complete on 2 (thorough: 3) candidates for every strategy.  The sqlite chooser
(`get_and_reserve_spendable_utxos` + `_get_spendable_utxos`) is executed over a table model of 1..2 unreserved rows with symbolic
amounts and confirmation flags (`chooser[n]`): flags exactly what it returns, covers the target with outputs worth spending,
returns nothing only when they cannot cover it; `create[n,sqlite]` uses its call-site contract (FakeDb.get_spendable_utxos).
Bounded part (labelled): the real Ledger + Database (sqlite) + Account: every strategy including the sqlite chooser,
2..8 concurrent builds, failure at signing, release; plus larger candidate sets for the selector.
"""
import asyncio
from pyvc.api import *
from pyvc.speclib import implies
from lbry.error import InsufficientFundsError
from lbry.wallet.constants import COIN, DUST, NULL_HASH32, CENT
from lbry.wallet.transaction import Transaction, Output, Input
from lbry.wallet.coinselection import CoinSelector
from lbry.wallet.ledger import Ledger

AMOUNT = TInt(1, 21 * 10 ** 14)
FEE_RATE = TInt(0, 1000)
STRATEGIES = ('standard', 'prefer_confirmed', 'only_confirmed', 'branch_and_bound', 'closest_match', 'random_draw')
IN_SIZE, OUT_SIZE, BASE_SIZE = 148, 34, 10        # P2PKH input / output / empty transaction, from the Bitcoin wire format
CHANGE_HASH = b'\x07' * 20


class FakeDb:
    """call-site contract of the wallet database as used by coin selection: a reserved flag per output"""

    def __init__(self, ledger):
        self.ledger = ledger
        self.reserved = []
        self.unlocked_access = 0
        self.calls = []
        self.chooser_precondition_broken = 0

    def _under_lock(self):
        if not self.ledger._utxo_reservation_lock.locked():
            self.unlocked_access += 1

    async def reserve_outputs(self, txos, is_reserved=True):
        self.calls.append('reserve' if is_reserved else 'release')
        if is_reserved:
            self._under_lock()
        await asyncio.sleep(0)
        for txo in txos:
            if is_reserved:
                if txo not in self.reserved:
                    self.reserved.append(txo)
            elif txo in self.reserved:
                self.reserved.remove(txo)

    async def release_outputs(self, txos):
        await self.reserve_outputs(txos, is_reserved=False)

    async def get_spendable_utxos(self, ledger, reserve_amount, accounts, min_amount=1, fee_per_byte=50, set_reserved=True,
                                  return_insufficient_funds=False):
        """call-site contract of Database.get_spendable_utxos, the sqlite chooser (its own behaviour is checked on real sqlite by the
        bounded stand-ins).  requires: called under the reservation lock, with the ledger's fee rate.  ensures: takes unreserved
        outputs worth more than their spending fee AT THE FEE RATE IT IS GIVEN until they cover reserve_amount, reserves and returns
        them; returns nothing and reserves nothing when they cannot cover it"""
        self.calls.append('choose')
        self._under_lock()
        if fee_per_byte != self.ledger.fee_per_byte or ledger is not self.ledger or not set_reserved or return_insufficient_funds:
            self.chooser_precondition_broken += 1
        await asyncio.sleep(0)
        picked = []
        total = 0
        for account in accounts:
            for u in account.utxos:
                if u not in self.reserved and total < reserve_amount and u.amount > IN_SIZE * fee_per_byte:
                    picked.append(u)
                    total = total + u.amount - IN_SIZE * fee_per_byte
        if total < reserve_amount:
            return []
        for u in picked:
            self.reserved.append(u)
        return [u.get_estimator(ledger) for u in picked]


class FakeAddresses:
    async def get_or_create_usable_address(self):
        return 'change-address'


class FakeAccount:
    def __init__(self, ledger, wallet, utxos):
        self.ledger = ledger
        self.wallet = wallet
        self.utxos = utxos
        self.change = FakeAddresses()

    async def get_utxos(self, **constraints):
        self.ledger.db._under_lock()
        await asyncio.sleep(0)
        return [u for u in self.utxos if u not in self.ledger.db.reserved]


class FakeLedger:
    """the attributes of Ledger that funding touches; the methods under contract are the REAL Ledger functions"""
    get_spendable_utxos = Ledger.get_spendable_utxos
    get_effective_amount_estimators = Ledger.get_effective_amount_estimators
    reserve_outputs = Ledger.reserve_outputs
    release_outputs = Ledger.release_outputs
    release_tx = Ledger.release_tx

    def __init__(self, fee_per_byte, strategy):
        self.fee_per_byte = fee_per_byte
        self.fee_per_name_char = 200000
        self.coin_selection_strategy = strategy
        self._utxo_reservation_lock = asyncio.Lock()
        self.db = FakeDb(self)

    def address_to_hash160(self, address):
        return CHANGE_HASH


def utxo(amount, k, height):
    """an unspent P2PKH output of `amount` in its own (confirmed or unconfirmed) transaction"""
    return Transaction(height=height).add_outputs([Output.pay_pubkey_hash(amount, bytes([k + 1]) * 20)]).outputs[0]


async def fund(n, amounts, heights, pay, fee_rate, strategy, pre):
    ledger = FakeLedger(fee_rate, strategy)
    wallet = object()
    utxos = [utxo(amounts[i], i, heights[i]) for i in range(n)]
    account = FakeAccount(ledger, wallet, utxos)
    requested = Output.pay_pubkey_hash(pay, b'\x09' * 20)
    pre_txo = utxo(pre, 8, 5) if pre is not None else None
    inputs = [Input.spend(pre_txo)] if pre_txo is not None else []
    try:
        tx = await Transaction.create(inputs, [requested], [account], account, sign=False)
        outcome = 'ok'
    except InsufficientFundsError:
        tx = None
        outcome = 'insufficient'
    used = []
    if tx is not None:
        for txi in tx.inputs:
            t = txi.txo_ref.txo
            used.append(-1 if t is pre_txo else [i for i in range(n) if utxos[i] is t][0])
    outs = [] if tx is None else [(o.amount, o.script.values['pubkey_hash']) for o in tx.outputs]
    reserved = [[i for i in range(n) if utxos[i] is t][0] for t in ledger.db.reserved]
    return (outcome, used, outs, reserved, ledger.db.unlocked_access, ledger._utxo_reservation_lock.locked(),
            ledger.db.chooser_precondition_broken)


def eff(amount, fee_rate):
    return amount - IN_SIZE * fee_rate


def make_funding_proof(n, strategy, with_pre):
    types = dict(pay=AMOUNT, fee_rate=FEE_RATE)
    for i in range(n):
        types[f"a{i}"] = AMOUNT
        types[f"h{i}"] = TOneOf(TConst(5), TConst(-1))
    if with_pre:
        types['pre'] = AMOUNT

    async def run(**kw):
        return await fund(n, [kw[f"a{i}"] for i in range(n)], [kw[f"h{i}"] for i in range(n)], kw['pay'], kw['fee_rate'], strategy,
                          kw.get('pre'))

    def spec(kw, result):
        outcome, used, outs, reserved, unlocked, locked = result[:6]
        amounts = [kw[f"a{i}"] for i in range(n)]
        return outcome, used, outs, reserved, unlocked, locked, amounts, kw['fee_rate'], kw['pay'], kw.get('pre')

    def ensures_requested_output_unchanged(result, **kw):
        outcome, used, outs, reserved, unlocked, locked, amounts, rate, pay, pre = spec(kw, result)
        return implies(outcome == 'ok', len(outs) >= 1 and outs[0] == (pay, b'\x09' * 20))

    def ensures_inputs_are_distinct_offered_outputs_reserved_by_this_build(result, **kw):
        outcome, used, outs, reserved, unlocked, locked, amounts, rate, pay, pre = spec(kw, result)
        ok = True
        for j in range(len(used)):
            ok = ok and -1 <= used[j] < n and used[j] not in used[:j]
            ok = ok and (used[j] == -1 or used[j] in reserved)
        for r in reserved:
            ok = ok and r in used           # nothing is reserved that the transaction does not spend
        return implies(outcome == 'ok', ok and (pre is None or -1 in used))

    def ensures_value_conserved_with_bounded_fee(result, **kw):
        outcome, used, outs, reserved, unlocked, locked, amounts, rate, pay, pre = spec(kw, result)
        if outcome != 'ok':
            return True
        total_in = 0
        for j in used:
            total_in = total_in + (pre if j == -1 else amounts[j])
        total_out = 0
        for o in outs:
            total_out = total_out + o[0]
        fee = total_in - total_out
        size_fee = (BASE_SIZE + IN_SIZE * len(used) + OUT_SIZE * len(outs)) * rate
        cost_of_change = (BASE_SIZE + IN_SIZE * len(used) + OUT_SIZE * len(outs)) * rate + OUT_SIZE * rate
        return size_fee <= fee and fee <= size_fee + cost_of_change + DUST

    def ensures_single_change_above_dust_to_change_address(result, **kw):
        outcome, used, outs, reserved, unlocked, locked, amounts, rate, pay, pre = spec(kw, result)
        return implies(outcome == 'ok', len(outs) <= 2 and (len(outs) < 2 or (outs[1][1] == CHANGE_HASH and outs[1][0] > DUST)))

    def ensures_insufficient_only_when_funds_cannot_cover(result, **kw):
        outcome, used, outs, reserved, unlocked, locked, amounts, rate, pay, pre = spec(kw, result)
        if outcome != 'insufficient':
            return True
        cost = (BASE_SIZE + OUT_SIZE + (IN_SIZE if pre is not None else 0)) * rate + pay
        have = 0 if pre is None else pre
        spendable = 0
        for i in range(n):
            if eff(amounts[i], rate) > 0 and (strategy != 'only_confirmed' or kw[f"h{i}"] > 0):
                spendable = spendable + eff(amounts[i], rate)
        if strategy == 'closest_match':
            # this strategy spends one output only (and wants room for change): judged on the best single output
            best = 0
            for i in range(n):
                if eff(amounts[i], rate) > best:
                    best = eff(amounts[i], rate)
            return best < cost - have + (BASE_SIZE + IN_SIZE + OUT_SIZE) * rate + OUT_SIZE * rate or spendable < cost - have
        if strategy == 'random_draw':
            return spendable < cost - have + (BASE_SIZE + IN_SIZE + OUT_SIZE) * rate + OUT_SIZE * rate + 2 * IN_SIZE * rate
        if strategy == 'sqlite':
            # the chooser is asked for the deficit plus the fee of a change output (estimated with a 32-byte hash: 46 bytes)
            return spendable < cost - have + 46 * rate
        if strategy == 'branch_and_bound':
            return True         # exact-match search only: may legitimately find nothing (used inside 'standard')
        return spendable < cost - have

    def ensures_nothing_reserved_after_failure_and_lock_released(result, **kw):
        outcome, used, outs, reserved, unlocked, locked, amounts, rate, pay, pre = spec(kw, result)
        return implies(outcome == 'insufficient', reserved == []) and not locked

    def ensures_database_only_touched_under_the_reservation_lock(result, **kw):
        return result[4] == 0

    def ensures_sqlite_chooser_called_within_its_contract(result, **kw):
        return result[6] == 0

    import inspect
    params = [inspect.Parameter(x, inspect.Parameter.POSITIONAL_OR_KEYWORD) for x in types]
    run.__signature__ = inspect.Signature(params)
    clauses = dict(
        ensures_requested_output_unchanged=ensures_requested_output_unchanged,
        ensures_inputs_are_distinct_offered_outputs_reserved_by_this_build=ensures_inputs_are_distinct_offered_outputs_reserved_by_this_build,
        ensures_value_conserved_with_bounded_fee=ensures_value_conserved_with_bounded_fee,
        ensures_single_change_above_dust_to_change_address=ensures_single_change_above_dust_to_change_address,
        ensures_insufficient_only_when_funds_cannot_cover=ensures_insufficient_only_when_funds_cannot_cover,
        ensures_nothing_reserved_after_failure_and_lock_released=ensures_nothing_reserved_after_failure_and_lock_released,
        ensures_database_only_touched_under_the_reservation_lock=ensures_database_only_touched_under_the_reservation_lock,
        ensures_sqlite_chooser_called_within_its_contract=ensures_sqlite_chooser_called_within_its_contract)
    for f in clauses.values():
        f.__signature__ = inspect.Signature([inspect.Parameter('result', inspect.Parameter.POSITIONAL_OR_KEYWORD)] + params)

    def samples():
        import random
        r = random.Random(n * 7 + len(strategy))
        for _ in range(60):
            rate = r.choice([0, 1, 50, 1000])
            d = dict(pay=r.choice([1, DUST, CENT, COIN, 3 * COIN]), fee_rate=rate)
            for i in range(n):
                d[f"a{i}"] = r.choice([1, IN_SIZE * rate, IN_SIZE * rate + 1, DUST, CENT, COIN, 3 * COIN + 20000, 5 * COIN, 10 * COIN])
                d[f"h{i}"] = r.choice([5, -1])
            if with_pre:
                d['pre'] = r.choice([1, CENT, COIN, 4 * COIN])
            yield d

    body = dict(inputs=types, run=staticmethod(run), samples=staticmethod(samples),
                note="60 seeded cases: amounts at the spending-fee boundary, dust, cent, coin; fee rates 0/1/50/1000; confirmed and unconfirmed",
                __doc__=f"Transaction.create with {n} spendable output(s), strategy {strategy}"
                        f"{', one pre-chosen input' if with_pre else ''}: every clause of the statement")
    body.update({k: staticmethod(v) for k, v in clauses.items()})
    proof("C03", f"create[{n},{strategy}{',pre' if with_pre else ''}]")(type('Funding', (), body))


for _n, _s, _p in ((0, 'standard', False), (1, 'standard', False), (2, 'standard', False), (1, 'standard', True),
                   (2, 'prefer_confirmed', False), (2, 'only_confirmed', False), (2, 'closest_match', False),
                   (2, 'random_draw', False), (1, 'sqlite', False), (2, 'sqlite', False), (1, 'sqlite', True)):
    make_funding_proof(_n, _s, _p)


# ------------------------------------------------------------------ the fee of a requested claim output (name fee)

@proof("C03", "claim.name-fee")
class ClaimNameFee:
    """the cost Transaction.create books for a requested NEW claim is at least the name fee: fee_per_name_char for every BYTE of the
    claim name as it stands in the script (the blockchain prices the UTF-8 bytes, not the characters), and at least the byte-size
    fee; an update of an existing claim pays the byte-size fee only"""
    from lbry.wallet.script import OutputScript as _OS
    inputs = dict(name=TStr(maxlen=255), payload=TBytes(maxlen=300), amount=AMOUNT, rate=FEE_RATE, per_char=TInt(0, 10 ** 7), new=TBool())
    note = "ASCII, accented, CJK, emoji names x name-fee rates 0 / 200000 x size-fee rates 0 / 50"

    def requires(name):
        return len(name) >= 1

    def run(name, payload, amount, rate, per_char, new):
        from lbry.wallet.script import OutputScript
        ledger = FakeLedger(rate, 'standard')
        ledger.fee_per_name_char = per_char
        raw_name = name.encode()
        if new:
            script = OutputScript.pay_claim_name_pubkey_hash(raw_name, payload, b'\x05' * 20)
        else:
            script = OutputScript.pay_update_claim_pubkey_hash(raw_name, b'\x06' * 20, payload, b'\x05' * 20)
        txo = Output(amount, script)
        return txo.get_fee(ledger), txo.size, len(raw_name)

    def ensures_fee_is_the_larger_of_size_fee_and_name_fee(rate, per_char, new, result):
        fee, size, name_bytes = result
        size_fee = size * rate
        name_fee = name_bytes * per_char if new else 0
        return fee == (name_fee if name_fee > size_fee else size_fee)

    def samples():
        for name in ('a', 'name', 'caf\u00e9', '\u4e2d\u6587', '\U0001f600\U0001f680', 'x' * 255, '\u0080'):
            for per_char in (0, 200000):
                for rate in (0, 50):
                    for new in (True, False):
                        yield dict(name=name, payload=b'claim', amount=COIN, rate=rate, per_char=per_char, new=new)


# ------------------------------------------------------------------ the selector alone, 3 candidates

class Ref:
    def __init__(self, height):
        self.height = height


class Txo:
    def __init__(self, height):
        self.tx_ref = Ref(height)


class Cand:
    """what the selector reads of an OutputEffectiveAmountEstimator"""

    def __init__(self, effective_amount, fee, height, k):
        self.effective_amount = effective_amount
        self.fee = fee
        self.txo = Txo(height)
        self.k = k

    def __lt__(self, other):
        return self.effective_amount < other.effective_amount


def make_selector_proof(strategy, ncand):
    types = dict(target=TInt(1, 10 ** 15), coc=TInt(0, 10 ** 9), e0=TInt(-10 ** 6, 10 ** 15), e1=TInt(-10 ** 6, 10 ** 15),
                 e2=TInt(-10 ** 6, 10 ** 15) if ncand == 3 else TConst(-1), c0=TBool(), c1=TBool(),
                 c2=TBool() if ncand == 3 else TConst(False))

    def run(target, coc, e0, e1, e2, c0, c1, c2):
        cands = [Cand(e0, 7, 5 if c0 else -1, 0), Cand(e1, 7, 5 if c1 else -1, 1), Cand(e2, 7, 5 if c2 else -1, 2)][:ncand]
        picked = CoinSelector(target, coc, seed='x').select(cands, strategy)
        return [c.k for c in picked]

    def ensures_sound(target, coc, e0, e1, e2, c0, c1, c2, result):
        es, cs = [e0, e1, e2], [c0, c1, c2]
        ok = True
        total = 0
        for j in range(len(result)):
            ok = ok and 0 <= result[j] <= 2 and result[j] not in result[:j] and es[result[j]] > 0
            ok = ok and (strategy != 'only_confirmed' or cs[result[j]])
            total = total + es[result[j]]
        return ok and (len(result) == 0 or total >= target)

    def ensures_complete(target, coc, e0, e1, e2, c0, c1, c2, result):
        es, cs = [e0, e1, e2], [c0, c1, c2]
        avail = 0
        for i in range(3):
            if es[i] > 0 and (strategy != 'only_confirmed' or cs[i]):
                avail = avail + es[i]
        if strategy in ('standard', 'prefer_confirmed', 'only_confirmed'):
            return implies(avail >= target, len(result) > 0)
        return True

    def samples():
        import random
        r = random.Random(len(strategy))
        for _ in range(300):
            vals = [r.choice([-5, 0, 1, 5, 10, 98, 100, 1000, r.randrange(1, 2000)]) for _ in range(3)]
            yield dict(target=r.choice([1, 5, 12, 98, 100, 105, 1000, 2500]), coc=r.choice([0, 1, 10, 100]), e0=vals[0], e1=vals[1],
                       e2=vals[2] if ncand == 3 else -1, c0=r.random() < .6, c1=r.random() < .6,
                       c2=(r.random() < .6) if ncand == 3 else False)

    body = dict(inputs=types, run=staticmethod(run), ensures_sound=staticmethod(ensures_sound),
                ensures_complete=staticmethod(ensures_complete), samples=staticmethod(samples),
                note="300 seeded candidate triples incl. non-positive effective amounts",
                thorough_only=(ncand == 3),
                __doc__=f"CoinSelector.select({strategy}) on {ncand} candidates with symbolic effective amounts: returns distinct candidates "
                        f"of positive effective value covering the target, and finds a selection whenever the eligible candidates can cover it")
    proof("C03", f"selector[{strategy},{ncand}]")(type('Selector', (), body))


for _s in STRATEGIES:
    make_selector_proof(_s, 2)
make_selector_proof('standard', 3)


# ------------------------------------------------------------------ the sqlite chooser's own body, against a two-row table model

class FakeRowTable:
    """call-site contract of the one SELECT and the one UPDATE the chooser issues: `execute` returns the unreserved rows whose amount
    lies in [floor, ceiling), ascending by amount (ties: larger height first); `executemany` records the txoids it is asked to flag"""

    def __init__(self, rows):
        self.rows = rows            # [(txid, txoid, raw, height, nout, verified, amount)]
        self.flagged = []
        self.bands = []

    def execute(self, sql, params):
        floor, ceiling = params[0], params[1]
        self.bands.append((floor, ceiling))
        sel = [r for r in self.rows if floor <= r[6] and r[6] < ceiling]
        if len(sel) == 2 and (sel[1][6] < sel[0][6] or (sel[1][6] == sel[0][6] and sel[1][3] > sel[0][3])):
            sel = [sel[1], sel[0]]
        elif len(sel) > 2:          # (native runs of the model-vs-sqlite differential only)
            sel = sorted(sel, key=lambda r: (r[6], -r[3]))
        return [dict(txid=r[0], txoid=r[1], raw=r[2], height=r[3], nout=r[4], is_verified=r[5], amount=r[6]) for r in sel]

    def executemany(self, sql, params):
        for flag, txoid in params:
            self.flagged.append((flag, txoid))
        return self

    def fetchall(self):
        return []


RAW_P2PKH = [Transaction(height=5).add_inputs([Input.spend(utxo(2 * COIN, 7, 5))])
             .add_outputs([Output.pay_pubkey_hash(COIN, bytes([k + 1]) * 20)]).raw for k in range(2)]


def make_chooser_proof(n):
    from lbry.wallet.database import get_and_reserve_spendable_utxos
    types = dict(target=TInt(1, 10 ** 13), rate=FEE_RATE, floor=TOneOf(TConst(0), TConst(1)))
    for i in range(n):
        types[f"a{i}"] = TInt(1, 10 ** 13)
        types[f"v{i}"] = TBool()

    def run(**kw):
        flags = []
        for i in range(n):          # (a branch per flag: the chooser uses it inside a dictionary key)
            if kw[f"v{i}"]:
                flags.append(True)
            else:
                flags.append(False)
        txoids = [f"{i + 1:02x}" * 32 + ':0' for i in range(n)]
        rows = [(f"{i + 0xa1:02x}" * 32, txoids[i], RAW_P2PKH[i], 5 if flags[i] else -1, 0, flags[i], kw[f"a{i}"]) for i in range(n)]
        table = FakeRowTable(rows)
        txs = get_and_reserve_spendable_utxos(table, ('account',), kw['target'], kw['floor'], kw['rate'], True, False)
        chosen = sorted(i for i in range(n) for key in txs if key[0] == RAW_P2PKH[i] and txs[key] == [0])
        return chosen, sorted(txoids.index(t[1]) if t[1] in txoids else -1 for t in table.flagged), [t[0] for t in table.flagged], len(txs)

    def ensures_flags_exactly_what_it_returns(result, **kw):
        chosen, flagged, flags, ntx = result
        return flagged == chosen and len(chosen) == ntx and all(f is True for f in flags)

    def ensures_returned_outputs_cover_the_target_and_are_worth_spending(result, **kw):
        chosen, flagged, flags, ntx = result
        total = 0
        ok = True
        for i in chosen:
            ok = ok and kw[f"a{i}"] > IN_SIZE * kw['rate']
            total = total + kw[f"a{i}"] - IN_SIZE * kw['rate']
        return ok and (len(chosen) == 0 or total >= kw['target'])

    def ensures_empty_only_when_the_outputs_worth_spending_cannot_cover(result, **kw):
        chosen, flagged, flags, ntx = result
        total = 0
        for i in range(n):
            if kw[f"a{i}"] > IN_SIZE * kw['rate']:
                total = total + kw[f"a{i}"] - IN_SIZE * kw['rate']
        return implies(len(chosen) == 0, total < kw['target'])

    def ensures_confirmed_first(result, **kw):
        # an unconfirmed output is used only if the confirmed ones of its band did not suffice: with two rows in play, choosing
        # only the unconfirmed one means the confirmed one is not worth spending or lies in a higher band
        chosen, flagged, flags, ntx = result
        if n < 2 or len(chosen) != 1:
            return True
        i = chosen[0]
        j = 1 - i
        return kw[f"v{i}"] or not kw[f"v{j}"] or kw[f"a{j}"] <= IN_SIZE * kw['rate'] or kw[f"a{j}"] > kw[f"a{i}"]

    import inspect
    params = [inspect.Parameter(x, inspect.Parameter.POSITIONAL_OR_KEYWORD) for x in types]
    run.__signature__ = inspect.Signature(params)
    clauses = dict(ensures_flags_exactly_what_it_returns=ensures_flags_exactly_what_it_returns,
                   ensures_returned_outputs_cover_the_target_and_are_worth_spending=ensures_returned_outputs_cover_the_target_and_are_worth_spending,
                   ensures_empty_only_when_the_outputs_worth_spending_cannot_cover=ensures_empty_only_when_the_outputs_worth_spending_cannot_cover,
                   ensures_confirmed_first=ensures_confirmed_first)
    for f in clauses.values():
        f.__signature__ = inspect.Signature([inspect.Parameter('result', inspect.Parameter.POSITIONAL_OR_KEYWORD)] + params)

    def samples():
        import random
        r = random.Random(n)
        for _ in range(400):
            rate = r.choice([0, 1, 50, 1000])
            d = dict(target=r.choice([1, 5, 9, 10, 100, 7400, CENT, COIN, 3 * COIN]), rate=rate, floor=r.choice([0, 1]))
            for i in range(n):
                d[f"a{i}"] = r.choice([1, 99, 100, IN_SIZE * rate, IN_SIZE * rate + 1, 9999, 10 ** 4, CENT, COIN, 3 * COIN + 7400, 10 ** 12])
                d[f"v{i}"] = r.random() < .6
            yield d

    body = dict(inputs=types, run=staticmethod(run), samples=staticmethod(samples), sym_unroll_limit=12,
                note="400 seeded cases: amounts on band borders (99/100/9999/10^4), at the spending-fee border, targets 1..3 LBC",
                __doc__=f"get_and_reserve_spendable_utxos + _get_spendable_utxos (the sqlite chooser) over a table of {n} unreserved P2PKH "
                        f"row(s) with symbolic amounts (below 10^13 dewies) and confirmation flags: it flags exactly the outputs it returns, "
                        f"they are worth spending and cover the target, it returns nothing only when the outputs worth spending cannot "
                        f"cover the target, confirmed outputs of a band go first")
    body.update({k: staticmethod(v) for k, v in clauses.items()})
    proof("C03", f"chooser[{n}]")(type('Chooser', (), body))


make_chooser_proof(1)
make_chooser_proof(2)


# ------------------------------------------------------------------ bounded: the real ledger, database and accounts

SEED = "carbon smart garage balance margin twelve chest sword toast envelope bottom stomach absent"
SEED2 = "abandon abandon abandon abandon abandon abandon abandon abandon abandon abandon abandon about"


async def real_wallet(strategy, amounts_confirmed, amounts_unconfirmed, fee_per_byte=50, second_account=False):
    import os
    import tempfile
    from lbry.wallet import Wallet, Account, Ledger as RealLedger, Database, Headers
    d = tempfile.mkdtemp()
    ledger = RealLedger({'db': Database(os.path.join(d, 'blockchain.db')), 'headers': Headers(':memory:'),
                         'coin_selection_strategy': strategy})
    ledger.fee_per_byte = fee_per_byte
    ledger.coin_selection_strategy = strategy      # (the constructor ignores the config key; the daemon sets the attribute)
    await ledger.db.open()
    wallet = Wallet()
    account = Account.from_dict(ledger, wallet, {"seed": SEED})
    addresses = await account.ensure_address_gap()
    hashes = [ledger.address_to_hash160(a) for a in addresses]
    k = 0
    fundings = []
    for verified, amounts in ((True, amounts_confirmed), (False, amounts_unconfirmed)):
        if not amounts:
            continue
        utxos = [Transaction(height=5 if verified else -1).add_outputs([Output.pay_pubkey_hash(a, hashes[(k + i) % len(hashes)])]).outputs[0]
                 for i, a in enumerate(amounts)]
        k += len(amounts)
        funding = Transaction(is_verified=verified, height=5 if verified else -1).add_inputs(
            [Input.spend(Transaction().add_outputs([Output.pay_pubkey_hash(sum(amounts) + CENT, NULL_HASH32)]).outputs[0])]
        ).add_outputs(utxos)
        await ledger.db.insert_transaction(funding)
        for u in utxos:
            await ledger.db.save_transaction_io(funding, ledger.hash160_to_address(u.script.values['pubkey_hash']),
                                                u.script.values['pubkey_hash'], '')
        fundings.append((funding, utxos))
    ledger.verif_fundings = fundings
    return d, ledger, account


async def resave_fundings(ledger):
    """what wallet sync does when a transaction it already knows is seen again (confirmed, or moved to another height): the
    transaction and its outputs are saved again"""
    for funding, utxos in ledger.verif_fundings:
        funding.height = funding.height + 1 if funding.height > 0 else 6
        funding.is_verified = True
        for u in utxos:
            await ledger.db.save_transaction_io(funding, ledger.hash160_to_address(u.script.values['pubkey_hash']),
                                                u.script.values['pubkey_hash'], '')


async def reserved_ids(ledger):
    rows = await ledger.db.db.execute_fetchall("select txoid from txo where is_reserved = 1")
    return sorted(r[0] if not isinstance(r, dict) else r['txoid'] for r in rows)


@proof("C03", "chooser.table-model-vs-sqlite")
class ChooserTableModelVsSqlite:
    """BOUNDED differential for the trusted table model of the chooser proofs: the real get_and_reserve_spendable_utxos run inside a
    real sqlite transaction over a real wallet database selects exactly the outputs the same function selects over FakeRowTable fed
    with the same rows - with amounts placed ON, just below and just above the band borders 10^2, 10^4, 10^6, 10^8 the search crosses"""
    bounded_only = True
    note = "60 wallets of 3-5 outputs on/around band borders x 6 targets"
    inputs = dict(case=TInt())

    def run(case):
        import random
        import shutil
        from lbry.wallet.database import get_and_reserve_spendable_utxos
        r = random.Random(case)
        borders = [10 ** 2, 10 ** 4, 10 ** 6, 10 ** 8, 10 ** 10]
        pool = [b + d for b in borders for d in (-1, 0, 0, 1)] + [5 * 10 ** 5, 5 * 10 ** 7, 2 * 10 ** 8, 7400, 7401]
        amounts = [r.choice(pool) for _ in range(r.randrange(3, 6))]
        targets = [1, 7400, 10 ** 6, 12_550_000, 10 ** 8, 250_000_000]

        async def go():
            d, ledger, account = await real_wallet('sqlite', amounts, [], 50)
            try:
                problems = []
                rows = await ledger.db.db.execute_fetchall(
                    "SELECT tx.txid, txo.txoid, tx.raw, tx.height, txo.position, tx.is_verified, txo.amount FROM txo JOIN tx USING (txid)")
                rows = [tuple(row.values()) if isinstance(row, dict) else tuple(row) for row in rows]
                rows = [(a, b, bytes(c), h, n, bool(v), amt) for a, b, c, h, n, v, amt in rows]
                for target in targets:
                    real = await ledger.db.db.run(get_and_reserve_spendable_utxos, (account.public_key.address,), target, 1, 50, False, False)
                    model = get_and_reserve_spendable_utxos(FakeRowTable(rows), ('a',), target, 1, 50, False, False)
                    picked_real = sorted(n for key in real for n in real[key])
                    picked_model = sorted(n for key in model for n in model[key])
                    if picked_real != picked_model:
                        problems.append(f"amounts {amounts} target {target}: sqlite picks positions {picked_real}, the table model {picked_model}")
                return problems[:2]
            finally:
                await ledger.db.close()
                shutil.rmtree(d, ignore_errors=True)
        return asyncio.run(go())

    def ensures_same_selection(result):
        return result == []

    def samples():
        for case in range(60):
            yield dict(case=case)


@proof("C03", "real-ledger.funding")
class RealLedgerFunding:
    """BOUNDED stand-in on the real Ledger + Database (sqlite) + Account, every strategy including the sqlite chooser:
    sequential payments from real UTXO sets - conservation, fee bounds, single change to the change chain, reserved == inputs,
    insufficient funds only when really insufficient, release afterwards"""
    bounded_only = True
    note = "7 strategies x 6 UTXO sets (confirmed/unconfirmed) x 5 payment amounts x fee rates 50/1000 (420 builds)"
    inputs = dict(case=TInt())

    def run(case):
        import shutil
        strategies = ['sqlite'] + list(STRATEGIES[:3]) + ['closest_match', 'random_draw', None]
        sets = [([COIN, COIN, 3 * COIN, 5 * COIN, 10 * COIN], []), ([5 * COIN], [2 * COIN]), ([], [COIN, 4 * COIN]),
                ([CENT] * 6, []), ([2 * COIN, 2 * COIN], [2 * COIN]), ([], [])]
        pays = [CENT, COIN, 3 * COIN, 7 * COIN + 1234, 30 * COIN]
        strategy = strategies[case % 7]
        conf, unconf = sets[(case // 7) % 6]
        pay = pays[(case // 42) % 5]
        rate = (50, 1000)[(case // 210) % 2]

        async def go():
            d, ledger, account = await real_wallet(strategy, conf, unconf, rate)
            try:
                problems = []
                total = sum(conf) + sum(unconf)
                try:
                    tx = await Transaction.create([], [Output.pay_pubkey_hash(pay, b'\x09' * 20)], [account], account)
                except InsufficientFundsError:
                    tx = None
                    spendable = sum(a - IN_SIZE * rate for a in (conf if strategy == 'only_confirmed' else conf + unconf)
                                    if a - IN_SIZE * rate > 0)
                    if strategy in ('standard', 'prefer_confirmed', 'only_confirmed', None, 'sqlite') and \
                            spendable >= pay + (BASE_SIZE + OUT_SIZE) * rate + (OUT_SIZE + BASE_SIZE + IN_SIZE * 6) * rate + DUST:
                        problems.append('insufficient funds although funds suffice')
                    if await reserved_ids(ledger):
                        problems.append('outputs left reserved after failure')
                if tx is not None:
                    ins = sum(i.amount for i in tx.inputs)
                    outs = sum(o.amount for o in tx.outputs)
                    fee = ins - outs
                    size_fee = tx.size * rate
                    if tx.outputs[0].amount != pay:
                        problems.append('requested output changed')
                    if not size_fee <= fee <= size_fee + (tx.size + OUT_SIZE) * rate + DUST:
                        problems.append(f'fee {fee} outside [{size_fee}, ...]')
                    if len(tx.outputs) > 2 or (len(tx.outputs) == 2 and tx.outputs[1].amount <= DUST):
                        problems.append('change rule')
                    if len(tx.outputs) == 2:
                        addr = ledger.hash160_to_address(tx.outputs[1].script.values['pubkey_hash'])
                        if addr not in await account.change.get_addresses():
                            problems.append('change not on the change chain')
                    if sorted(i.txo_ref.id for i in tx.inputs) != await reserved_ids(ledger):
                        problems.append('reserved outputs differ from inputs')
                    await ledger.release_tx(tx)
                    if await reserved_ids(ledger):
                        problems.append('outputs left reserved after release')
                return problems
            finally:
                await ledger.db.close()
                shutil.rmtree(d, ignore_errors=True)
        return asyncio.run(go())

    def ensures_no_problem(result):
        return result == []

    def samples():
        for k in range(420):
            yield dict(case=(k * 149) % 420)     # a fixed permutation: every dimension is covered early if the time budget cuts the run


@proof("C03", "real-ledger.fee-boundary")
class RealLedgerFeeBoundary:
    """BOUNDED stand-in on the real Ledger + Database: a tight output and a big one, the payment swept in steps of 4 bytes' worth of
    fee across the point where the tight output alone stops being enough - for every strategy (incl. the sqlite chooser) and fee
    rates 50 / 1000 / 10000 the fee must stay within [size_fee, size_fee + cost_of_change + DUST] and funds are never insufficient"""
    bounded_only = True
    note = "7 strategies x fee rates 50/1000/10000 x 61 payment amounts around the boundary (1281 builds)"
    inputs = dict(case=TInt())

    def run(case):
        import shutil
        strategies = ['sqlite'] + list(STRATEGIES[:3]) + ['closest_match', 'random_draw', None]
        strategy = strategies[case % 7]
        rate = (50, 1000, 10000)[(case // 7) % 3]

        async def go():
            d, ledger, account = await real_wallet(strategy, [COIN, 10 * COIN], [], rate)
            try:
                problems = []
                for fee_bytes in range(260, 19, -4):
                    pay = COIN - fee_bytes * rate
                    try:
                        tx = await Transaction.create([], [Output.pay_pubkey_hash(pay, b'\x09' * 20)], [account], account)
                    except InsufficientFundsError:
                        problems.append(f'pay {pay}: insufficient funds although 10 LBC are spendable')
                        continue
                    fee = sum(i.amount for i in tx.inputs) - sum(o.amount for o in tx.outputs)
                    size_fee = tx.size * rate
                    if tx.outputs[0].amount != pay:
                        problems.append(f'pay {pay}: requested output changed')
                    if not size_fee <= fee <= size_fee + (tx.size + OUT_SIZE) * rate + DUST:
                        problems.append(f'pay {pay}: fee {fee} outside [{size_fee}, {size_fee + (tx.size + OUT_SIZE) * rate + DUST}]')
                    if len(tx.outputs) > 2 or (len(tx.outputs) == 2 and tx.outputs[1].amount <= DUST):
                        problems.append(f'pay {pay}: change rule')
                    await ledger.release_tx(tx)
                    if await reserved_ids(ledger):
                        problems.append(f'pay {pay}: outputs left reserved after release')
                return problems[:3]
            finally:
                await ledger.db.close()
                shutil.rmtree(d, ignore_errors=True)
        return asyncio.run(go())

    def ensures_no_problem(result):
        return result == []

    def samples():
        for case in range(21):
            yield dict(case=case)


@proof("C03", "real-ledger.dust-and-small-deficit")
class RealLedgerDustAndSmallDeficit:
    """BOUNDED stand-in on the real Ledger + Database: (a) a wallet holding many outputs that cost more to spend than they are worth
    plus one output that covers the payment must fund it; (b) a pre-chosen input that misses the cost by 1..12 dewies must be topped
    up from the wallet - for every strategy incl. the sqlite chooser (fixed defects F7, F7b)"""
    bounded_only = True
    note = "7 strategies x (3 dust wallets + 12 deficits of 1..12 dewies)"
    inputs = dict(case=TInt())

    def run(case):
        import shutil
        strategies = ['sqlite'] + list(STRATEGIES[:3]) + ['closest_match', 'random_draw', None]
        strategy = strategies[case % 7]
        k = case // 7

        async def go():
            if k < 3:
                conf, pay, pre = [[1000] * 100 + [COIN], [7000] * 30 + [COIN], [1, 147 * 50, 148 * 50] * 5 + [COIN]][k], 99_500_000, None
            else:
                conf, pay = [COIN], COIN
                pre = utxo(COIN + (BASE_SIZE + IN_SIZE + OUT_SIZE) * 50 - (k - 2), 8, 5)
            d, ledger, account = await real_wallet(strategy, conf, [], 50)
            try:
                try:
                    tx = await Transaction.create([Input.spend(pre)] if pre else [], [Output.pay_pubkey_hash(pay, b'\x09' * 20)],
                                                  [account], account, sign=False)
                except InsufficientFundsError:
                    return ['insufficient funds although one output of 1 LBC covers the cost']
                fee = sum(i.amount for i in tx.inputs) - sum(o.amount for o in tx.outputs)
                size_fee = tx.size * 50
                if not size_fee <= fee <= size_fee + (tx.size + OUT_SIZE) * 50 + DUST:
                    return [f'fee {fee} outside [{size_fee}, ...]']
                return []
            finally:
                await ledger.db.close()
                shutil.rmtree(d, ignore_errors=True)
        return asyncio.run(go())

    def ensures_no_problem(result):
        return result == []

    def samples():
        for case in range(7 * 15):
            yield dict(case=case)


@proof("C03", "real-ledger.concurrent")
class RealLedgerConcurrent:
    """BOUNDED stand-in for C14 on the real Ledger + Database: 2..8 concurrent builds never share an output, a held output is not
    offered to others, a build that fails (also at signing, with a locked account) leaves nothing reserved, and after every build
    was released or failed every output is available again"""
    bounded_only = True
    note = ("7 strategies x {confirmed, mixed, unconfirmed-only} UTXO sets x {2, 3, 8} concurrent builds x {normal, locked account}; funding "
            "accounts named three ways; a sync re-save of the funding transactions while outputs are held, then two more builds")
    inputs = dict(case=TInt())

    def run(case):
        import shutil
        strategies = ['sqlite'] + list(STRATEGIES[:3]) + ['closest_match', 'random_draw', None]
        sets = [([4 * COIN] * 6, []), ([4 * COIN, 4 * COIN], [4 * COIN, 4 * COIN, 4 * COIN]), ([], [4 * COIN] * 4)]
        strategy = strategies[case % 7]
        conf, unconf = sets[(case // 7) % 3]
        builders = (2, 3, 8)[(case // 21) % 3]
        locked = (case // 63) % 2 == 1

        async def go():
            d, ledger, account = await real_wallet(strategy, conf, unconf)
            try:
                problems = []
                # the builds name their funding accounts in different ways (a second, empty account; other order; the first alone):
                # whatever serialises coin selection must not depend on how the caller wrote the list
                from lbry.wallet import Account
                other = Account.from_dict(ledger, account.wallet, {"seed": SEED2})
                await other.ensure_address_gap()
                funding_lists = [[account], [account, other], [other, account]]
                if locked:
                    account.encrypt('pw')
                    other.encrypt('pw')
                results = await asyncio.gather(*[
                    Transaction.create([], [Output.pay_pubkey_hash(3 * COIN, bytes([i + 1]) * 20)], funding_lists[(i + case) % 3], account)
                    for i in range(builders)], return_exceptions=True)
                txs = [r for r in results if isinstance(r, Transaction)]
                seen = []
                for tx in txs:
                    for i in tx.inputs:
                        if i.txo_ref.id in seen:
                            problems.append('an output funds two concurrent transactions')
                        seen.append(i.txo_ref.id)
                if sorted(seen) != await reserved_ids(ledger):
                    problems.append(f'reserved {len(await reserved_ids(ledger))} outputs, held by builds: {len(seen)}')
                offered = [t.id for t in await account.get_utxos()]
                if any(s in offered for s in seen):
                    problems.append('a held output is offered as spendable')
                if locked and txs:
                    problems.append('a build succeeded on a locked account')
                # wallet sync sees the funding transactions again (confirmed / moved to another height) while the builds hold their
                # outputs: the outputs stay held, and builds started afterwards do not get them
                await resave_fundings(ledger)
                if sorted(seen) != await reserved_ids(ledger):
                    problems.append('an output held by a build is no longer reserved after its transaction was saved again by sync')
                # the wallet server connection drops and comes back (Ledger.join_network is the on_connected handler): the builds keep
                # their outputs - reservations end with broadcast or abandon, not with a reconnect
                held_before = await reserved_ids(ledger)
                await asyncio.wait_for(ledger.join_network(), 10)
                if await reserved_ids(ledger) != held_before:
                    problems.append('a reconnect to the wallet server released outputs that builds still hold')
                later = await asyncio.gather(*[
                    Transaction.create([], [Output.pay_pubkey_hash(3 * COIN, bytes([i + 101]) * 20)], [account], account)
                    for i in range(2)], return_exceptions=True)
                for tx in [r for r in later if isinstance(r, Transaction)]:
                    for i in tx.inputs:
                        if i.txo_ref.id in seen:
                            problems.append('a build started after a sync re-save selected an output another build still holds')
                        seen.append(i.txo_ref.id)
                    txs.append(tx)
                for tx in txs:
                    await ledger.release_tx(tx)
                if await reserved_ids(ledger):
                    problems.append('outputs unavailable after every build was released or failed')
                if len(await account.get_utxos()) != len(conf) + len(unconf):
                    problems.append('not every output is available again')
                return problems
            finally:
                await ledger.db.close()
                shutil.rmtree(d, ignore_errors=True)
        return asyncio.run(go())

    def ensures_no_problem(result):
        return result == []

    def samples():
        for k in range(126):
            yield dict(case=(k * 47) % 126)


TRUSTED = [
    "the SELECT of the sqlite chooser returns the unreserved rows of the amount band ascending by amount (ties: larger height first) and its "
    "UPDATE flags the listed txoids (table model FakeRowTable; real sqlite in the bounded stand-ins)",
    "call-site contract of the SQL layer used by the deductive proofs: account.get_utxos returns the unreserved unspent outputs of the "
    "account, reserve_outputs/release_outputs set and clear the flag (cross-checked on real sqlite by the bounded stand-ins)",
    "asyncio.Lock / sleep / gather as modelled in pyvc/pymodels.py; struct/BytesIO/sha256 models of the serialiser (C05)",
    "list.sort is a stable sort; Random(seed).random() returns some float in [0, 1) (the random draw order is unknown but fixed)",
]
NOT_DECIDED = [
    "more than 2 spendable outputs / 1 requested output symbolically (the bounded stand-ins use up to 6); funding of claim outputs end to "
    "end (the fee of a claim output is proved by claim.name-fee, create[*] books output fees through get_fee); the five-round edge case "
    "of builds with no requested output",
    "the sqlite chooser over more than 2 rows / amounts of 10^13 dewies and more symbolically (chooser[1], chooser[2] execute its real body "
    "over a table model; create[*,sqlite] uses its call-site contract; real sqlite in the bounded stand-ins; fixed findings F7, F7b, F7c)",
    "reading R-C03-1: 'cannot cover the cost' leaves closest_match / random_draw / sqlite the room they ask for a change output "
    "(a fixed number of input/output costs); 'standard', 'prefer_confirmed', 'only_confirmed' are judged exactly",
    "cancellation of a build (CancelledError is not an Exception: a cancelled build keeps its reservation)",
]
ASSUMPTIONS = ["signing is switched off in the deductive proofs (C04); pre-chosen inputs are P2PKH outputs"]
