"""C17 — DHT wire codec is lossless for protocol messages and total on garbage.

Deductive part (real `_bencode`/`_bdecode`, `make_compact_address`/`decode_compact_address`, the datagram
constructors and `KademliaProtocol.datagram_received` are symbolically executed):
  * scalar round trips `_bdecode(_bencode(x)) == (x, len)` for every int and every byte string;
  * compact peer addresses round-trip for every IPv4 address, port 1..65535 and 48-byte id, and are rejected otherwise;
  * field validation of the three datagram classes;
  * the decode guard of the datagram handler: for *every* exception class the decoder is allowed to raise (contract of
    `decode_datagram`, see DECODER_RAISES) the handler raises nothing, records exactly one failure for the sender's
    address and calls no message handler (so neither the routing table nor the data store can be touched).
Bounded part (run-time contract checks of the real code, labelled): whole protocol messages of every kind through
`bencode`/`decode_datagram`, agreement with an independent bencode reader written in this file, and the totality of the
real `datagram_received` on garbage (all short byte strings over the bencode alphabet, every truncation and 1-byte
mutation of valid datagrams, deep nesting).
"""
import z3
import re
from pyvc.api import *
from pyvc.values import *
from pyvc.speclib import implies, forall
from lbry.dht.serialization import bencoding, datagram as D
from lbry.dht.serialization.bencoding import _bencode, _bdecode, bencode, bdecode
from lbry.dht.error import DecodeError
from lbry.dht import constants
from lbry.dht.protocol.protocol import KademliaProtocol

# ------------------------------------------------------------------ scalar round trips


@proof("C17", "bencode.int")
class BencodeInt:
    """_bdecode(_bencode(n)) == (n, len) for every integer n"""
    inputs = dict(n=TInt())
    note = "ints around 0, powers of ten and 2**63, both signs"

    def run(n):
        enc = _bencode(n)
        return enc, _bdecode(enc)

    def ensures_inverse(n, result):
        return result[1] == (n, len(result[0]))

    def samples():
        for k in range(0, 25):
            for d in (-1, 0, 1):
                yield dict(n=10 ** k + d)
                yield dict(n=-(10 ** k + d))
        for n in (0, -1, 2 ** 63, -2 ** 63, 2 ** 64 + 1):
            yield dict(n=n)


@proof("C17", "bencode.bytes")
class BencodeBytes:
    """_bdecode(_bencode(b)) == (b, len) for every byte string b (any length, any content, including digits, ':' and 'e')"""
    inputs = dict(b=TBytes())
    note = "byte strings of length 0, 1, 9, 10, 99, 100, 999, 1000, 1399 with awkward contents"

    def run(b):
        enc = _bencode(b)
        return enc, _bdecode(enc)

    def ensures_inverse(b, result):
        return result[1] == (b, len(result[0]))

    def samples():
        for n in (0, 1, 9, 10, 99, 100, 999, 1000, 1001, 1399):
            yield dict(b=bytes((i * 11 + n) % 256 for i in range(n)))
            yield dict(b=(b'1:e0i' * n)[:n])


# ------------------------------------------------------------------ the decoder always moves forward (termination of its loops)

@proof("C17", "bdecode.scalar-advances")
class BdecodeScalarAdvances:
    """on ARBITRARY bytes, at any position that does not start a list or a dictionary, _bdecode either raises one of the classes the
    handler guards against or returns a cursor strictly behind the position it started from - so the loops of the enclosing list /
    dictionary make progress on every element and end (at the latest with IndexError behind the end of the datagram).
    Found defect F17 (fixed): a negative string length moved the cursor backwards, `d-3:e` never returned."""
    inputs = dict(data=TBytes(), start=TInt(0, 65535))
    note = "all strings of length <= 5 over a 9-symbol alphabet of digits, signs and separators at every start position"
    raises = {DecodeError: True, ValueError: True}

    def requires(data, start):
        # an element of a list / dictionary starts behind the container's opening byte: position >= 1.  (At position 0 - the single
        # top-level call of bdecode(), not inside any loop - a token without its terminator returns the cursor 0: data[0:-1] is
        # parsed; bdecode() then refuses the result because it is not a dictionary.)
        return 1 <= start < len(data) and data[start] != ord('l') and data[start] != ord('d')

    def run(data, start):
        return _bdecode(data, start)[1]

    def ensures_cursor_moves_forward(start, result):
        return result > start

    def samples():
        import itertools
        alphabet = [b'i', b'e', b'0', b'3', b':', b'-', b'+', b' ', b'_']
        for n in range(1, 6):
            for combo in itertools.product(alphabet, repeat=n):
                raw = b''.join(combo)
                for start in range(1, len(raw) + 1):
                    yield dict(data=b'l' + raw, start=start)


MAX_ELEMENTS = 4


class _Opaque:
    """a decoded element whose content does not matter for the progress argument"""


def _bdecode_element_contract(interp, st, args, kwargs):
    """symbolic side only.  The outermost call runs the real _bdecode; every RECURSIVE call (one element of a list / dictionary) is
    replaced by the contract proved above and, inductively, below: it raises one of the guarded classes or returns a cursor strictly
    behind its start.  After MAX_ELEMENTS elements the element is assumed to be followed by the closing 'e' (containers are unrolled
    up to that many elements; their contents stay arbitrary)."""
    from pyvc.sources import SOURCES
    depth = getattr(interp, '_bdecode_depth', 0)
    if depth == 0:
        interp._bdecode_depth = 1
        interp._bdecode_calls = 0
        try:
            node = SOURCES.node_of(_bdecode)
            results = list(interp.call_ast(st, node, _bdecode.__globals__, [], list(_bdecode.__defaults__ or ()), {}, _bdecode.__qualname__,
                                           _bdecode.__code__.co_filename, args, kwargs))
        finally:
            interp._bdecode_depth = 0
        yield from results
        return
    data, i = args[0], (args[1] if len(args) > 1 else kwargs['start_index'])
    interp._bdecode_calls += 1
    for ex in (DecodeError, ValueError, IndexError, RecursionError):
        s1 = st.copy()
        yield s1, Raise(VExc(ex, []))
    j = z3.Int(fresh_name('cursor'))
    s1 = st.copy()
    if interp._bdecode_calls > MAX_ELEMENTS:
        return          # unrolling bound: element number MAX_ELEMENTS + 1 only raises (containers of up to MAX_ELEMENTS elements)
    if s1.assume(j > (i.v if not isinstance(i.v, int) else z3.IntVal(i.v))):
        yield s1, VTuple([VConst(_Opaque()), VInt(j)])


@proof("C17", "bdecode.container-advances")
class BdecodeContainerAdvances:
    """a list or dictionary whose elements obey the cursor contract (each raises or moves forward) itself raises only guarded classes
    or returns a cursor behind its start, for up to 4 elements of arbitrary content (2 key/value pairs)"""
    inputs = dict(data=TBytes(), start=TInt(0, 65535))
    note = "nested lists / dictionaries from the garbage generator"
    models = {_bdecode: _bdecode_element_contract}
    raises = {DecodeError: True, ValueError: True, IndexError: True, RecursionError: True, TypeError: True}
    sym_unroll_limit = 8

    def requires(data, start):
        return 0 <= start < len(data) and (data[start] == ord('l') or data[start] == ord('d'))

    def run(data, start):
        return _bdecode(data, start)[1]

    def ensures_cursor_moves_forward(start, result):
        return result > start

    def samples():
        for raw in (b'le', b'de', b'l1:ae', b'd1:a1:be', b'lli1eee', b'd1:ad1:bi2eee', b'l-1:e', b'l0:0:0:0:e', b'li1ei2ei3ee'):
            yield dict(data=raw, start=0)


# ------------------------------------------------------------------ compact addresses

@proof("C17", "compact_address.roundtrip")
class CompactAddress:
    """decode_compact_address(make_compact_address(id, ip, port)) == (id, ip, port) for every IPv4 address, port 1..65535, 48-byte id"""
    inputs = dict(a=TInt(0, 255), b=TInt(0, 255), c=TInt(0, 255), d=TInt(0, 255), port=TInt(1, 65535), node_id=TBytes(length=48))
    note = "octets 0/1/127/128/255, ports 1, 255, 256, 1023, 1024, 32767, 32768, 65535"

    def run(a, b, c, d, port, node_id):
        address = '{}.{}.{}.{}'.format(a, b, c, d)
        compact = D.make_compact_address(node_id, address, port)
        return bytes(compact), D.decode_compact_address(bytes(compact)), address

    def ensures_layout(a, b, c, d, port, node_id, result):
        return result[0] == bytes([a, b, c, d]) + port.to_bytes(2, 'big') + node_id

    def ensures_inverse(port, node_id, result):
        return result[1] == (node_id, result[2], port)

    def samples():
        for o in (0, 1, 127, 128, 255):
            for port in (1, 255, 256, 1023, 1024, 32767, 32768, 65535):
                yield dict(a=o, b=255 - o, c=o, d=1, port=port, node_id=bytes(range(48)))


@proof("C17", "compact_address.rejects")
class CompactAddressRejects:
    """ports outside 1..65535 and ids that are not 48 bytes are refused with ValueError on both sides"""
    inputs = dict(port=TInt(-5, 70000), node_id=TBytes(maxlen=60))

    def requires(port, node_id):
        return not (0 < port < 65536) or len(node_id) != 48

    def run(port, node_id):
        return D.make_compact_address(node_id, '1.2.3.4', port)

    def ensures_never_returns(result):
        return False

    raises = {ValueError: True, OverflowError: True}

    def samples():
        for port, n in ((0, 48), (65536, 48), (-1, 48), (80, 47), (80, 49), (80, 0)):
            yield dict(port=port, node_id=bytes(n))


# ------------------------------------------------------------------ datagram field validation

@proof("C17", "datagram.validation")
class DatagramValidation:
    """a datagram object exists only with the packet type of its class, a 20-byte rpc id and a 48-byte node id"""
    inputs = dict(kind=TInt(0, 2), packet_type=TInt(-1, 3), rpc_id=TBytes(maxlen=64), node_id=TBytes(maxlen=64))

    def run(kind, packet_type, rpc_id, node_id):
        if kind == 0:
            m = D.RequestDatagram(packet_type, rpc_id, node_id, b'ping')
        elif kind == 1:
            m = D.ResponseDatagram(packet_type, rpc_id, node_id, b'pong')
        else:
            m = D.ErrorDatagram(packet_type, rpc_id, node_id, b'E', b'text')
        return m.packet_type, m.rpc_id, m.node_id

    def ensures_well_formed(kind, packet_type, rpc_id, node_id, result):
        return packet_type == kind and len(rpc_id) == 20 and len(node_id) == 48 and result == (packet_type, rpc_id, node_id)

    raises = {ValueError: True}

    def samples():
        for kind in range(3):
            for pt in range(-1, 4):
                for lr in (19, 20, 21):
                    for ln in (47, 48, 49):
                        yield dict(kind=kind, packet_type=pt, rpc_id=bytes(lr), node_id=bytes(ln))


# ------------------------------------------------------------------ whole protocol messages, symbolic field values

RPC_T = TBytes(length=20)
ID_T = TBytes(length=48)


def _fields(msg):
    return [getattr(msg, k) for k in type(msg).required_fields]


def _roundtrip(msg):
    raw = msg.bencode()
    back = D.decode_datagram(raw)
    return type(back) is type(msg), _fields(back), _fields(msg), raw


class _MessageProofBase:
    def ensures_same_class(result):
        return result[0]

    def ensures_same_fields(result):
        return result[1] == result[2]


@proof("C17", "message.ping")
class MsgPing(_MessageProofBase):
    """ping request: encode then decode gives the same class and fields, for every rpc id and node id"""
    inputs = dict(rpc=RPC_T, node=ID_T)

    def run(rpc, node):
        return _roundtrip(D.RequestDatagram.make_ping(node, rpc))
    ensures_same_class = _MessageProofBase.ensures_same_class
    ensures_same_fields = _MessageProofBase.ensures_same_fields


@proof("C17", "message.store")
class MsgStore(_MessageProofBase):
    """store request for every blob hash, token, port 1..65535"""
    inputs = dict(rpc=RPC_T, node=ID_T, blob=ID_T, token=ID_T, port=TInt(1, 65535))

    def run(rpc, node, blob, token, port):
        return _roundtrip(D.RequestDatagram.make_store(node, blob, token, port, rpc))
    ensures_same_class = _MessageProofBase.ensures_same_class
    ensures_same_fields = _MessageProofBase.ensures_same_fields


@proof("C17", "message.find_node")
class MsgFindNode(_MessageProofBase):
    inputs = dict(rpc=RPC_T, node=ID_T, key=ID_T)

    def run(rpc, node, key):
        return _roundtrip(D.RequestDatagram.make_find_node(node, key, rpc))
    ensures_same_class = _MessageProofBase.ensures_same_class
    ensures_same_fields = _MessageProofBase.ensures_same_fields


@proof("C17", "message.find_value")
class MsgFindValue(_MessageProofBase):
    """findValue request for every key and page >= 0"""
    inputs = dict(rpc=RPC_T, node=ID_T, key=ID_T, page=TInt(0))

    def run(rpc, node, key, page):
        return _roundtrip(D.RequestDatagram.make_find_value(node, key, rpc, page))
    ensures_same_class = _MessageProofBase.ensures_same_class
    ensures_same_fields = _MessageProofBase.ensures_same_fields


@proof("C17", "message.response.contacts")
class MsgResponseContacts(_MessageProofBase):
    """findNode response carrying contact triples (id, address bytes, port): two symbolic triples"""
    inputs = dict(rpc=RPC_T, node=ID_T, id1=ID_T, ip1=TBytes(maxlen=15), port1=TInt(0, 65535), id2=ID_T, ip2=TBytes(maxlen=15),
                  port2=TInt(0, 65535))

    def run(rpc, node, id1, ip1, port1, id2, ip2, port2):
        return _roundtrip(D.ResponseDatagram(D.RESPONSE_TYPE, rpc, node, [[id1, ip1, port1], [id2, ip2, port2]]))
    ensures_same_class = _MessageProofBase.ensures_same_class
    ensures_same_fields = _MessageProofBase.ensures_same_fields


@proof("C17", "message.response.value")
class MsgResponseValue(_MessageProofBase):
    """findValue response: token, page count, one contact and a peer page of two compact addresses under the blob key"""
    inputs = dict(rpc=RPC_T, node=ID_T, token=ID_T, pages=TInt(0), id1=ID_T, ip1=TBytes(maxlen=15), port1=TInt(0, 65535),
                  peer1=TBytes(length=54), peer2=TBytes(length=54))

    def run(rpc, node, token, pages, id1, ip1, port1, peer1, peer2):
        # the blob key is concrete (dictionary keys are concrete in the encoding); every value is symbolic
        key = bytes(range(100, 148))
        return _roundtrip(D.ResponseDatagram(D.RESPONSE_TYPE, rpc, node,
                                             {b'token': token, b'contacts': [[id1, ip1, port1]], key: [peer1, peer2], b'p': pages}))
    ensures_same_class = _MessageProofBase.ensures_same_class
    ensures_same_fields = _MessageProofBase.ensures_same_fields


@proof("C17", "message.response.bytes")
class MsgResponseBytes(_MessageProofBase):
    """ping / store response carrying a byte string of any length"""
    inputs = dict(rpc=RPC_T, node=ID_T, payload=TBytes())

    def run(rpc, node, payload):
        return _roundtrip(D.ResponseDatagram(D.RESPONSE_TYPE, rpc, node, payload))
    ensures_same_class = _MessageProofBase.ensures_same_class
    ensures_same_fields = _MessageProofBase.ensures_same_fields


@proof("C17", "message.error")
class MsgError(_MessageProofBase):
    """error message with arbitrary (also non-ASCII) exception type and text"""
    inputs = dict(rpc=RPC_T, node=ID_T, etype=TStr(), text=TStr())

    def run(rpc, node, etype, text):
        return _roundtrip(D.ErrorDatagram(D.ERROR_TYPE, rpc, node, etype.encode(), text.encode()))
    ensures_same_class = _MessageProofBase.ensures_same_class
    ensures_same_fields = _MessageProofBase.ensures_same_fields


# ------------------------------------------------------------------ the decode guard of the handler

# Contract of decode_datagram used by the guard proof: for an arbitrary datagram it returns a message object or raises
# one of these classes (established on the bounded garbage runs below, trusted for the deductive guard proof).
DECODER_RAISES = (ValueError, TypeError, DecodeError, IndexError, KeyError, AttributeError, RecursionError,
                  UnicodeDecodeError)


class _PeerManager:
    def __init__(self):
        self.failures = []

    def report_failure(self, address, udp_port):
        self.failures.append((address, udp_port))


class _Proto:
    """the attributes datagram_received touches; message handlers only record that they were called"""

    def __init__(self):
        self.peer_manager = _PeerManager()
        self.handled = []

    def handle_request_datagram(self, address, message):
        self.handled.append('request')

    def handle_error_datagram(self, address, message):
        self.handled.append('error')

    def handle_response_datagram(self, address, message):
        self.handled.append('response')


def _decode_contract(interp, st, args, kwargs):
    """symbolic side only: the decoder contract (returns some message of one of the three classes, or raises)"""
    data = args[0]
    if data.concrete:
        # concrete datagrams are decoded by the real code
        from pyvc.sources import SOURCES
        fn = D.decode_datagram
        node = SOURCES.node_of(fn)
        yield from interp.call_ast(st, node, fn.__globals__, [], [], {}, fn.__qualname__, fn.__code__.co_filename, args, kwargs)
        return
    for cls in (D.RequestDatagram, D.ResponseDatagram, D.ErrorDatagram):
        s1 = st.copy()
        yield s1, s1.alloc(HObj(cls, dict(rpc_id=VBytes(z3.String(fresh_name('rpc'))), node_id=VBytes(z3.String(fresh_name('nid'))))))
    for ex in DECODER_RAISES:
        s1 = st.copy()
        yield s1, Raise(VExc(ex, []))


@proof("C17", "handler.guard")
class HandlerGuard:
    """whatever the decoder does with a datagram (any message class, any exception class of its contract), the handler
    raises nothing; on a decode failure it records exactly one failure for the sender and dispatches to no message handler"""
    inputs = dict(datagram=TBytes(), ip=TStr(), port=TInt(0, 65535))
    models = {D.decode_datagram: _decode_contract}       # symbolic side of this proof only: the decoder contract

    def run(datagram, ip, port):
        proto = _Proto()
        KademliaProtocol.datagram_received(proto, datagram, (ip, port))
        return proto.peer_manager.failures, proto.handled

    def ensures_failure_recorded_or_dispatched_once(ip, port, result):
        failures, handled = result
        return (failures == [(ip, port)] and handled == []) or (failures == [] and len(handled) == 1)

    def samples():
        for raw in _garbage_small():
            yield dict(datagram=raw, ip='1.2.3.4', port=4444)


# ------------------------------------------------------------------ bounded: whole messages, independent reader, garbage

def _ref_bdecode(data, i=0, depth=0):
    """independent strict bencode reader (oracle for 'an independent implementation reads it identically')"""
    c = data[i:i + 1]
    if c == b'i':
        j = data.index(b'e', i)
        return int(data[i + 1:j]), j + 1
    if c == b'l':
        out, i = [], i + 1
        while data[i:i + 1] != b'e':
            v, i = _ref_bdecode(data, i, depth + 1)
            out.append(v)
        return out, i + 1
    if c == b'd':
        out, i = {}, i + 1
        while data[i:i + 1] != b'e':
            k, i = _ref_bdecode(data, i, depth + 1)
            v, i = _ref_bdecode(data, i, depth + 1)
            out[k] = v
        return out, i + 1
    j = data.index(b':', i)
    n = int(data[i:j])
    return data[j + 1:j + 1 + n], j + 1 + n


NODE = bytes(range(48))
OTHER = bytes(range(1, 49))
RPC = bytes(range(20))


def _messages():
    yield D.RequestDatagram.make_ping(NODE, RPC)
    for port in (1, 1024, 32767, 32768, 65535):
        yield D.RequestDatagram.make_store(NODE, OTHER, NODE, port, RPC)
    yield D.RequestDatagram.make_find_node(NODE, OTHER, RPC)
    for page in (0, 1, 12):
        yield D.RequestDatagram.make_find_value(NODE, OTHER, RPC, page)
    yield D.ResponseDatagram(D.RESPONSE_TYPE, RPC, NODE, b'pong')
    for n in (0, 1, 8, 16):
        contacts = [(bytes([i]) * 48, '10.0.%d.1' % i, 1000 + i * 4000) for i in range(n)]
        yield D.ResponseDatagram(D.RESPONSE_TYPE, RPC, NODE, contacts)
        peers = [bytes(D.make_compact_address(bytes([i + 1]) * 48, '8.8.%d.8' % i, 1024 + i * 4000)) for i in range(n)]
        yield D.ResponseDatagram(D.RESPONSE_TYPE, RPC, NODE, {b'token': NODE, b'contacts': contacts, OTHER: peers, b'p': n})
    for n in (0, 1, 9, 10, 99, 100, 999, 1000, 1001, 1278):
        yield D.ErrorDatagram(D.ERROR_TYPE, RPC, NODE, b"<class 'ValueError'>", b'x' * n)
    yield D.ErrorDatagram(D.ERROR_TYPE, RPC, NODE, 'é'.encode(), 'ünï'.encode())


def _tupled(x):
    if isinstance(x, (list, tuple)):
        return [_tupled(i) for i in x]
    if isinstance(x, dict):
        return {k: _tupled(v) for k, v in x.items()}
    if isinstance(x, str):
        return x.encode()
    return x


@proof("C17", "messages.roundtrip")
class MessagesRoundTrip:
    """BOUNDED stand-in: every kind of protocol message encodes to a datagram that decodes back to the same class and
    fields, and that an independent bencode reader reads identically (the recursive decoder over composite values is
    outside the generator's reach; scalars are proved above)"""
    bounded_only = True
    note = "ping/store/findNode/findValue requests, responses with 0/1/8/16 contacts and peer pages, error messages with 0..1278 bytes of text (40 messages)"
    inputs = dict(index=TInt())

    def run(index):
        msg = list(_messages())[index]
        raw = msg.bencode()
        back = D.decode_datagram(raw)
        fields = type(msg).required_fields
        primitive, end = _ref_bdecode(raw)
        expected = {i: _tupled(getattr(msg, k)) for i, k in enumerate(fields)}
        return (type(back) is type(msg), [_tupled(getattr(back, k)) == _tupled(getattr(msg, k)) for k in fields],
                primitive == expected and end == len(raw) - 0, bdecode(raw) == primitive, len(raw))

    def ensures_same_class_and_fields(result):
        return result[0] and all(result[1])

    def ensures_independent_reader_agrees(result):
        return result[2] and result[3]

    def samples():
        for i in range(len(list(_messages()))):
            yield dict(index=i)


def _garbage_small():
    import itertools
    alphabet = [b'd', b'l', b'i', b'e', b'0', b'1', b'2', b':', b'-', b'a', b'\x00', b'\xff']
    for n in range(0, 5):
        for combo in itertools.product(alphabet, repeat=n):
            yield b''.join(combo)


def _garbage_crafted():
    """the targeted shapes (each one found a defect or a seeded change once); they run FIRST so that the time budget of the quick tier
    can never cut them off"""
    for n in (10, 500, 1000, 3000, 20000):
        yield b'l' * n
        yield b'd' * n
        yield b'dl' * (n // 2)
        yield b'l' * n + b'e' * n
        yield b'd1:a' * n
        yield b'd1:0i0e1:120:' + RPC + b'1:248:' + NODE + b'1:34:ping1:4l' + b'd' * n
    yield b'd1:0i2e1:120:' + RPC + b'1:248:' + NODE + b'1:3i5e1:40:e'       # error datagram with an integer exception type
    # type-confused error datagrams: the two text fields as int / list / dict / nested
    for f3 in (b'i5e', b'le', b'de', b'l1:ae', b'4:Oops'):
        for f4 in (b'i7e', b'le', b'de', b'li1ee', b'd1:a1:be', b'0:', b'4:text'):
            if (f3, f4) != (b'4:Oops', b'4:text') and (f3, f4) != (b'4:Oops', b'0:'):
                yield b'd1:0i2e1:120:' + RPC + b'1:248:' + NODE + b'1:3' + f3 + b'1:4' + f4 + b'e'
    yield b'di0ei0ei1e20:' + RPC + b'i2e48:' + NODE + b'i3e4:pingi4elee'
    yield b'de'
    # hostile length prefixes (int() accepts signs, blanks, underscores): fixed defect F17, `d-3:e` never returned
    for raw in (b'd-3:e', b'l-1:e', b'l-2:e', b'd1:a-2:e', b'd-0:e', b'l+1:ae', b'l 1:ae', b'l1_0:aaaaaaaaaae', b'-5:', b'd-1:e', b'ld-9:ee',
                b'd1:0i0e1:120:' + RPC + b'1:2-48:' + NODE + b'1:34:ping1:4lee'):
        yield raw
    valid = [m.bencode() for m in _messages()][:14]
    for raw in valid[:6]:
        for m in re.finditer(rb'\d+:', raw):
            for repl in (b'-1:', b'-2:', b'-%d:' % (len(raw) + 5), b'+1:', b' 1:', b'99999:'):
                yield raw[:m.start()] + repl + raw[m.end():]
    # containers where the protocol expects scalars (length checks pass for a 20-item list)
    yield b'd1:0i1e1:1l' + b'i1e' * 20 + b'e1:248:' + NODE + b'1:34:ponge'
    yield b'd1:0i0e1:1l' + b'i1e' * 20 + b'e1:248:' + NODE + b'1:34:ping1:4lee'
    yield b'd1:0i1e1:120:' + RPC + b'1:2l' + b'i1e' * 48 + b'e1:34:ponge'


def _garbage():
    yield from _garbage_crafted()
    valid = [m.bencode() for m in _messages()][:14]
    for raw in valid:
        for cut in range(len(raw)):
            yield raw[:cut]
        for pos in range(0, len(raw), 1):
            for repl in (b'e', b'd', b'l', b'i', b'9', b':', b'\x00'):
                yield raw[:pos] + repl + raw[pos + 1:]
    yield from _garbage_small()


class _Transport:
    def __init__(self):
        self.sent = []

    def is_closing(self):
        return False

    def sendto(self, data, addr):
        self.sent.append((data, addr))


@proof("C17", "garbage.totality")
class GarbageTotality:
    """BOUNDED stand-in on the REAL KademliaProtocol (real peer manager, routing table and data store): a datagram that does
    not decode is dropped with exactly one failure recorded for the sender; nothing is raised; routing table and stored
    announcements are unchanged"""
    bounded_only = True
    note = ("all byte strings of length <= 4 over a 12-symbol bencode alphabet (22621), every truncation and 7 one-byte "
            "replacements at every position of 14 valid datagrams, nesting depth up to 20000")
    inputs = dict(raw=TBytes())

    def run(raw):
        import asyncio
        from lbry.dht.peer import PeerManager

        async def go():
            loop = asyncio.get_event_loop()
            pm = PeerManager(loop)
            proto = KademliaProtocol(loop, pm, NODE, '8.8.8.8', 4444, 3333)
            proto.transport = _Transport()
            before_table = [(b.range_min, b.range_max, list(b.peers)) for b in proto.routing_table.buckets]
            before_store = dict(proto.data_store._data_store)
            try:
                D.decode_datagram(raw)
                decodes = True
            except Exception:       # noqa
                decodes = False
            proto.datagram_received(raw, ('9.9.9.9', 5555))
            failures = pm._rpc_failures.get(('9.9.9.9', 5555), (None, None))
            after_table = [(b.range_min, b.range_max, list(b.peers)) for b in proto.routing_table.buckets]
            return decodes, failures, before_table == after_table, before_store == dict(proto.data_store._data_store)
        return asyncio.run(go())

    def ensures_dropped_with_failure(result):
        decodes, failures, same_table, same_store = result
        return decodes or (failures[1] is not None and same_table and same_store)

    def samples():
        for raw in _garbage():
            yield dict(raw=raw)


TRUSTED = [
    "CPython %-formatting (b'%d', b'%s'), int() and bytes.find as modelled (SMT str.from_int / str.to_int / str.indexof)",
    "contract of decode_datagram used by the guard proof: it returns a message object or raises one of DECODER_RAISES "
    "(observed on the bounded garbage runs, not proved: the recursive decoder over arbitrary input is outside reach)",
    "logging calls are effect-free",
]
NOT_DECIDED = [
    "round trip of composite messages for all field values (bounded stand-in over 40 messages; scalars are proved)",
    "totality of the recursive decoder on every byte string up to 64 KiB (bounded stand-in; the handler guard is proved against "
    "the decoder's exception contract)",
    "a decodable request that makes the handler's own error reply exceed the datagram size limit (ValueError from _send inside the "
    "request handler; DESIGN F4b, outside the 'not a well-formed message' clause)",
]
ASSUMPTIONS = []
