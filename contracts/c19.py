"""C19 — disk cleanup deletes only when over a limit and never the user's own blobs.

Deductive part: the real `DiskSpaceManager._clean` / `get_space_used_mb` / `get_space_used_bytes`
are symbolically executed (all paths, symbolic candidate list of unbounded length through the loop
invariant below) against duck-typed `db` / `blob_manager` objects defined in this file; every
clause of the statement is a postcondition.  The SQL behind `get_stored_blobs` /
`get_stored_blob_disk_usage` is trusted through its call-site contract (the `is_mine=False`
argument is what the proof uses) and cross-checked by a bounded differential in `c19_sql`.
"""
from pyvc.api import *
from pyvc.speclib import implies, forall
from lbry.blob.disk_space_manager import DiskSpaceManager

MB = 2 ** 20


class Config:
    def __init__(self, blob_storage_limit, network_storage_limit):
        self.blob_storage_limit = blob_storage_limit
        self.network_storage_limit = network_storage_limit


class DB:
    """call-site contract of SQLiteStorage as seen by DiskSpaceManager"""

    def __init__(self, usage, cand):
        self.usage = usage
        self.cand = cand
        self.asked = []
        self.stopped = 0

    async def get_stored_blob_disk_usage(self):
        return self.usage

    async def get_stored_blobs(self, is_mine, is_network_blob=False):
        self.asked.append((is_mine, is_network_blob))
        return self.cand

    async def stop_all_files(self):
        self.stopped += 1


class BlobManager:
    def __init__(self):
        self.deleted = []
        self.calls = 0
        self.from_db = True

    async def delete_blobs(self, blob_hashes, delete_from_db=True):
        self.calls += 1
        self.deleted = self.deleted + blob_hashes
        self.from_db = self.from_db and delete_from_db


@rec_spec(result=TInt())
def freed_mb(cand, k):
    """whole-megabyte accounting of the first k candidates (spec, from the statement)"""
    if k <= 0:
        return 0
    return freed_mb(cand, k - 1) + cand[k - 1][1] // MB


def used_mb(usage, is_network):
    if is_network:
        return usage['network_storage'] // MB
    return usage['content_storage'] // MB + usage['private_storage'] // MB


@invariant(DiskSpaceManager._clean, loop=1, havoc=dict(delete=TList(TStr())))
def _clean_inv(_i, _seq, delete, available, old_available):
    return (len(delete) == _i
            and forall(0, _i, lambda j: delete[j] == _seq[j][0])
            and available == old_available + freed_mb(_seq, _i)
            and available < 0
            and implies(_i > 0, old_available + freed_mb(_seq, _i - 1) < 0))


USAGE = TDict(network_storage=TInt(0, 2 ** 53), content_storage=TInt(0, 2 ** 53), private_storage=TInt(0, 2 ** 53),
              total=TInt(0, 2 ** 53))
CAND = TList(TTuple(TStr(), TInt(0, 2 ** 53), TInt()))


async def harness(usage, cand, is_network, content_limit, network_limit, cache):
    db = DB(usage, cand)
    bm = BlobManager()
    dsm = DiskSpaceManager(Config(content_limit, network_limit), db, bm)
    # any earlier history (status calls, earlier passes) is summarised by an arbitrary cached snapshot
    dsm._used_space_bytes = cache
    n = await dsm._clean(is_network)
    return n, bm.deleted, db.asked, db.stopped, bm.calls, bm.from_db, dsm._used_space_bytes


@proof("C19", "_clean")
class CleanProof:
    """all clauses of the statement for one cleanup pass over one storage class"""
    inputs = dict(usage=USAGE, cand=CAND, is_network=TBool(), content_limit=TInt(0), network_limit=TInt(0),
                  cache=TOpt(USAGE))
    note = ("limits 0..3 MB x usage around the limits x up to 5 candidates of sizes around 1 MB multiples, incl. 0.5, 1.5 and 1.7 MB "
            "(where flooring and rounding to nearest differ)")

    run = harness

    def ensures_unlimited_content_untouched(is_network, content_limit, result):
        return implies(not is_network and content_limit == 0, result[1] == [] and result[0] == 0)

    def ensures_nothing_deleted_within_limit(usage, is_network, content_limit, network_limit, result):
        limit = network_limit if is_network else content_limit
        return implies(used_mb(usage, is_network) <= limit, result[1] == [] and result[0] == 0)

    def ensures_only_candidates_in_order(cand, result):
        deleted = result[1]
        return len(deleted) <= len(cand) and forall(0, len(deleted), lambda i: deleted[i] == cand[i][0])

    def ensures_never_own_blobs(is_network, result):
        # every candidate query asked for is_mine=False, for this storage class
        asked = result[2]
        return len(asked) <= 1 and forall(0, len(asked), lambda i: asked[i][0] == False and asked[i][1] == is_network)  # noqa

    def ensures_covers_or_exhausts(usage, cand, is_network, content_limit, network_limit, result):
        limit = network_limit if is_network else content_limit
        excess = used_mb(usage, is_network) - limit
        k = len(result[1])
        active = excess > 0 and not (not is_network and content_limit == 0)
        return implies(active, freed_mb(cand, k) >= excess or k == len(cand))

    def ensures_no_more_than_needed(usage, cand, is_network, content_limit, network_limit, result):
        limit = network_limit if is_network else content_limit
        excess = used_mb(usage, is_network) - limit
        k = len(result[1])
        return implies(k > 0, freed_mb(cand, k - 1) < excess)

    def ensures_result_counts_deleted(result):
        return result[0] == len(result[1])

    def ensures_cache_dropped(result):
        # a pass that got as far as the deletion loop leaves no stale usage snapshot behind
        return implies(len(result[1]) > 0, result[6] is None)

    def ensures_files_stopped_before_delete(result):
        n, deleted, asked, stopped, calls, from_db, cache = result
        return implies(len(deleted) > 0, stopped == 1 and calls == 1 and from_db) and implies(len(deleted) == 0, calls == 0)

    def samples():
        sizes = [0, MB - 1, MB, 2 * MB + 5]
        for is_network in (False, True):
            for cl in (0, 1, 3):
                for nl in (0, 2):
                    for used in (0, MB - 1, MB, 2 * MB, 3 * MB, 5 * MB + 7):
                        for priv in (0, MB):
                            for n in range(7):
                                cand = [(f"h{i}", sizes[(i + n) % 4], i) for i in range(n)] if n < 4 else \
                                    [[(f"h{i}", 17 * MB // 10, i) for i in range(5)],                    # 1.7 MB each: floor 1, nearest 2
                                     [(f"h{i}", MB // 2, i) for i in range(3)] + [("big", 5 * MB, 3)],  # half megabytes free nothing whole
                                     [("a", MB - 1, 0), ("b", MB, 1), ("c", 3 * MB // 2, 2), ("d", MB, 3)]][n - 4]
                                for cache in (None, dict(network_storage=0, content_storage=0, private_storage=0, total=0),
                                              dict(network_storage=9 * MB, content_storage=9 * MB, private_storage=0,
                                                   total=18 * MB)):
                                    yield dict(usage=dict(network_storage=used, content_storage=used, private_storage=priv,
                                                          total=2 * used + priv),
                                               cand=cand, is_network=is_network, content_limit=cl, network_limit=nl,
                                               cache=cache)


class DBTwoClasses(DB):
    """the storage as seen by clean(): one list of removable blobs per storage class"""

    def __init__(self, usage, cand_content, cand_network):
        DB.__init__(self, usage, None)
        self.cand_content = cand_content
        self.cand_network = cand_network

    async def get_stored_blobs(self, is_mine, is_network_blob=False):
        self.asked.append((is_mine, is_network_blob))
        return self.cand_network if is_network_blob else self.cand_content


async def harness_clean(usage, cand_content, cand_network, content_limit, network_limit):
    db = DBTwoClasses(usage, cand_content, cand_network)
    bm = BlobManager()
    dsm = DiskSpaceManager(Config(content_limit, network_limit), db, bm)
    await dsm.clean()
    return db.asked, bm.deleted


@proof("C19", "clean.both-classes")
class CleanBothClasses:
    """one call of DiskSpaceManager.clean() runs the pass for BOTH storage classes: whatever the content pass did, a network class over
    its limit is cleaned in the same call (and the other way round) - after a pass usage is within the limit for every class that had
    removable blobs"""
    inputs = dict(usage=USAGE, c_size=TInt(0, 2 ** 53), n_size=TInt(0, 2 ** 53), content_limit=TInt(0), network_limit=TInt(0))
    note = "usage around the limits for both classes, one removable blob per class of 0 / 1 / 5 MB"

    async def run(usage, c_size, n_size, content_limit, network_limit):
        return await harness_clean(usage, [("content-blob", c_size, 1)], [("network-blob", n_size, 2)], content_limit, network_limit)

    def ensures_each_class_over_its_limit_is_cleaned(usage, content_limit, network_limit, result):
        asked, deleted = result
        content_over = content_limit != 0 and used_mb(usage, False) > content_limit
        network_over = used_mb(usage, True) > network_limit
        return implies(content_over, (False, False) in asked and "content-blob" in deleted) and \
            implies(network_over, (False, True) in asked and "network-blob" in deleted)

    def ensures_no_class_within_its_limit_is_touched(usage, content_limit, network_limit, result):
        asked, deleted = result
        content_over = content_limit != 0 and used_mb(usage, False) > content_limit
        network_over = used_mb(usage, True) > network_limit
        return implies(not content_over, "content-blob" not in deleted) and implies(not network_over, "network-blob" not in deleted)

    def samples():
        for used_c in (0, 3 * MB, 10 * MB):
            for used_n in (0, 3 * MB, 10 * MB):
                for cl in (0, 2, 20):
                    for nl in (0, 2, 20):
                        for size in (0, MB, 5 * MB):
                            yield dict(usage=dict(network_storage=used_n, content_storage=used_c, private_storage=0, total=used_c + used_n),
                                       c_size=size, n_size=size, content_limit=cl, network_limit=nl)


TRUSTED = [
    "SQL semantics of SQLiteStorage.get_stored_blobs / get_stored_blob_disk_usage (call-site contract: returns rows "
    "(hash, size>=0, added_on) of blobs with is_mine = the argument; usage values are integers 0 <= v <= 2**53)",
    "BlobManager.delete_blobs deletes exactly the hashes it is given (C18 covers the manager)",
    "CPython int/float conversion and division by 1024.0 are exact for |v| <= 2**53 (IEEE-754 binary64)",
]
NOT_DECIDED = [
    "actual disk usage after the pass (file-system effects); repeated passes are covered only as independent passes",
    "blob sizes or usage totals above 2**53 bytes (float rounding would start there)",
]
ASSUMPTIONS = ["analytics is None (the analytics branch only schedules a fire-and-forget task)"]


# ------------------------------------------------------------------ the storage side of "never the user's own blobs"
# The call-site contract used above (get_stored_blobs(is_mine=False) returns only blobs that are not the user's, and a blob
# the user published keeps is_mine=1 whatever later completions/re-downloads record) lives in lbry/extras/daemon/storage.py.
# It is checked by the bounded SQL differential and the blob_completed proof written for C18 (contracts/c18.py), registered
# here as well because a change to those statements breaks C19.
from contracts import c18 as _c18      # noqa: E402

proof("C19", "storage.sql-differential")(type('SqlDifferentialC19', (_c18.SqlDifferential,), {}))
proof("C19", "storage.ownership-kept-on-completion")(type('CompletedC19', (_c18.Completed,), {}))
