"""C05 — transaction wire format and txid agree with the Bitcoin/LBRY encoding.

The real `BCDataStream` primitives, `Input/Output.serialize_to/deserialize_from`,
`Transaction._serialize/_serialize_outputs/_deserialize/raw/raw_sans_segwit/_reset/_add`,
`TXRefMutable.hash/id`, `TXRefImmutable.from_hash` are symbolically executed.  The oracle is a spec
function written from the Bitcoin transaction encoding (`enc_*` below), not from the code.
Element *content* is fully symbolic (scripts of any length below 2**32 across every compact-size
range, all 32-bit versions/sequences/locktimes, 64-bit amounts, 32-byte hashes); element *counts*
are unrolled for 1..2 inputs x 1..2 outputs, the count prefix itself being proved for every count
below 2**64 by the compact-size proof.
"""
from pyvc.api import *
from pyvc.speclib import implies
from binascii import hexlify
from lbry.wallet.bcd_data_stream import BCDataStream
from lbry.wallet.transaction import Transaction, Input, Output, TXORef
from lbry.wallet.script import InputScript, OutputScript
from lbry.wallet.hash import TXRefImmutable
from lbry.crypto.hash import sha256
from lbry.wallet.constants import NULL_HASH32

U32 = TInt(0, 2 ** 32 - 1)
U64 = TInt(0, 2 ** 64 - 1)
HASH = TBytes(length=32)
SCRIPT = TBytes(maxlen=2 ** 32 - 1)


# ---------------------------------------------------------------- specification (Bitcoin wire format)

def le(v, n):
    return v.to_bytes(n, 'little')


def enc_compact(n):
    if n < 253:
        return le(n, 1)
    if n <= 0xFFFF:
        return b'\xfd' + le(n, 2)
    if n <= 0xFFFFFFFF:
        return b'\xfe' + le(n, 4)
    return b'\xff' + le(n, 8)


def enc_input(h, pos, script, seq):
    return h + le(pos, 4) + enc_compact(len(script)) + script + le(seq, 4)


def enc_output(amount, script):
    return le(amount, 8) + enc_compact(len(script)) + script


def enc_tx(version, ins, outs, locktime):
    raw = le(version, 4) + enc_compact(len(ins))
    for i in ins:
        raw = raw + enc_input(i[0], i[1], i[2], i[3])
    raw = raw + enc_compact(len(outs))
    for o in outs:
        raw = raw + enc_output(o[0], o[1])
    return raw + le(locktime, 4)


# ---------------------------------------------------------------- compact size

@proof("C05", "compact_size")
class CompactSize:
    """write_compact_size emits the canonical Bitcoin compact size for every n < 2**64 and read_compact_size inverts it"""
    inputs = dict(n=U64)
    note = "n at 0, 1, 252..254, 0xFFFE..0x10001, 0xFFFFFFFE..0x100000001, 2**64-1"

    def run(n):
        s = BCDataStream()
        s.write_compact_size(n)
        s.write_uint8(0xAB)
        raw = s.get_bytes()
        r = BCDataStream(raw)
        return raw, r.read_compact_size(), r.read_uint8(), r.read_uint8()

    def ensures_canonical(n, result):
        return result[0] == enc_compact(n) + b'\xab'

    def ensures_inverse(n, result):
        return result[1] == n and result[2] == 0xAB and result[3] is None

    def samples():
        for n in (0, 1, 252, 253, 254, 255, 0xFFFE, 0xFFFF, 0x10000, 0x10001, 0xFFFFFFFE, 0xFFFFFFFF, 0x100000000, 0x100000001,
                  2 ** 63, 2 ** 64 - 1):
            yield dict(n=n)


@proof("C05", "string")
class StringRoundTrip:
    """write_string / read_string are inverse for every length below 2**32 and encode as compact size + bytes"""
    inputs = dict(data=SCRIPT)
    note = "lengths 0, 1, 252, 253, 254, 65535, 65536, 70000"

    def run(data):
        s = BCDataStream()
        s.write_string(data)
        s.write_uint8(0xAB)
        raw = s.get_bytes()
        r = BCDataStream(raw)
        return raw, r.read_string(), r.read_uint8(), r.read_uint8()

    def ensures_encoding(data, result):
        return result[0] == enc_compact(len(data)) + data + b'\xab'

    def ensures_inverse(data, result):
        return result[1] == data and result[2] == 0xAB and result[3] is None

    def samples():
        for n in (0, 1, 252, 253, 254, 65535, 65536, 70000):
            yield dict(data=bytes((i * 3 + n) % 256 for i in range(n)))


@proof("C05", "fixed_width")
class FixedWidth:
    """fixed-width little-endian primitives: encoding and inverse, signed and unsigned"""
    inputs = dict(a=TInt(0, 255), b=TInt(0, 65535), c=U32, d=U64, e=TInt(-2 ** 31, 2 ** 31 - 1), f=TInt(-2 ** 63, 2 ** 63 - 1))

    def run(a, b, c, d, e, f):
        s = BCDataStream()
        s.write_uint8(a)
        s.write_uint16(b)
        s.write_uint32(c)
        s.write_uint64(d)
        s.write_int32(e)
        s.write_int64(f)
        raw = s.get_bytes()
        r = BCDataStream(raw)
        return raw, (r.read_uint8(), r.read_uint16(), r.read_uint32(), r.read_uint64(), r.read_int32(), r.read_int64())

    def ensures_inverse(a, b, c, d, e, f, result):
        return result[1] == (a, b, c, d, e, f)

    def ensures_little_endian_unsigned(a, b, c, d, result):
        return result[0][:15] == le(a, 1) + le(b, 2) + le(c, 4) + le(d, 8) and len(result[0]) == 27

    def samples():
        for a, b, c, d, e, f in ((0, 0, 0, 0, 0, 0), (255, 65535, 2 ** 32 - 1, 2 ** 64 - 1, -2 ** 31, -2 ** 63),
                                 (1, 256, 65536, 2 ** 32, 2 ** 31 - 1, 2 ** 63 - 1), (128, 32768, 2 ** 31, 2 ** 63, -1, -1)):
            yield dict(a=a, b=b, c=c, d=d, e=e, f=f)


# ---------------------------------------------------------------- whole transactions

def build_tx(version, locktime, ins, outs):
    tx = Transaction(version=version, locktime=locktime)
    # a coinbase input (null previous hash) carries raw bytes, every other input a script object (as deserialize_from builds them)
    tx.add_inputs([Input(TXORef(TXRefImmutable.from_hash(h, -1), pos), script if h == NULL_HASH32 else InputScript(script), seq)
                   for (h, pos, script, seq) in ins])
    tx.add_outputs([Output(amount, OutputScript(script)) for (amount, script) in outs])
    return tx


def fields_of(tx):
    ins = [(i.txo_ref.tx_ref.hash, i.txo_ref.position, i.coinbase if i.is_coinbase else i.script.source, i.sequence)
           for i in tx.inputs]
    outs = [(o.amount, o.script.source) for o in tx.outputs]
    return tx.version, tx.locktime, ins, outs


def make_tx_proof(n_in, n_out):
    types = dict(version=U32, locktime=U32)
    for i in range(n_in):
        types.update({f"h{i}": HASH, f"pos{i}": U32, f"s{i}": SCRIPT, f"seq{i}": U32})
    for j in range(n_out):
        types.update({f"amt{j}": U64, f"os{j}": SCRIPT})

    def unpack(kw):
        ins = [(kw[f"h{i}"], kw[f"pos{i}"], kw[f"s{i}"], kw[f"seq{i}"]) for i in range(n_in)]
        outs = [(kw[f"amt{j}"], kw[f"os{j}"]) for j in range(n_out)]
        return ins, outs

    def run(**kw):
        ins, outs = unpack(kw)
        tx = build_tx(kw['version'], kw['locktime'], ins, outs)
        raw = tx.raw
        tx2 = Transaction(raw)
        again = tx2._serialize()
        return raw, fields_of(tx2), again, tx.id, tx2.id, tx.hash

    def ensures_matches_bitcoin_encoding(result, **kw):
        ins, outs = unpack(kw)
        return result[0] == enc_tx(kw['version'], ins, outs, kw['locktime'])

    def ensures_parse_recovers_fields(result, **kw):
        ins, outs = unpack(kw)
        v, l, pins, pouts = result[1]
        ok = v == kw['version'] and l == kw['locktime'] and len(pins) == n_in and len(pouts) == n_out
        for a, b in zip(pins, ins):
            ok = ok and a == b
        for a, b in zip(pouts, outs):
            ok = ok and a == b
        return ok

    def ensures_reserialises_identically(result):
        return result[2] == result[0]

    def ensures_txid(result):
        expected = hexlify(sha256(sha256(result[0]))[::-1]).decode()
        return result[3] == expected and result[4] == expected and result[5] == sha256(sha256(result[0]))

    import inspect
    params = [inspect.Parameter(n, inspect.Parameter.POSITIONAL_OR_KEYWORD) for n in types]
    run.__signature__ = inspect.Signature(params)
    for f in (ensures_matches_bitcoin_encoding, ensures_parse_recovers_fields):
        f.__signature__ = inspect.Signature([inspect.Parameter('result', inspect.Parameter.POSITIONAL_OR_KEYWORD)] + params)

    def samples():
        import itertools
        lens = [0, 1, 252, 253, 65535, 65536] if n_in + n_out <= 2 else [0, 252, 253, 65536]
        for combo in itertools.product(lens, repeat=n_in + n_out):
            for big in (0, 1):
                d = dict(version=1 if not big else 2 ** 32 - 1, locktime=0 if not big else 2 ** 32 - 1)
                for i in range(n_in):
                    d.update({f"h{i}": bytes([i + 1]) * 32, f"pos{i}": i if not big else 2 ** 32 - 2,
                              f"s{i}": bytes((k * 5 + 1) % 256 for k in range(combo[i])), f"seq{i}": 0xFFFFFFFF if not big else 0})
                for j in range(n_out):
                    d.update({f"amt{j}": 1000 + j if not big else 2 ** 64 - 1,
                              f"os{j}": bytes((k * 7 + 2) % 256 for k in range(combo[n_in + j]))})
                yield d
        # coinbase-style input (null hash)
        d = dict(version=1, locktime=0)
        for i in range(n_in):
            d.update({f"h{i}": b'\x00' * 32, f"pos{i}": 0xFFFFFFFF, f"s{i}": b'\x03abc', f"seq{i}": 0})
        for j in range(n_out):
            d.update({f"amt{j}": 5, f"os{j}": b'\x6a'})
        yield d

    body = dict(inputs=types, run=staticmethod(run), samples=staticmethod(samples),
                ensures_matches_bitcoin_encoding=staticmethod(ensures_matches_bitcoin_encoding),
                ensures_parse_recovers_fields=staticmethod(ensures_parse_recovers_fields),
                ensures_reserialises_identically=staticmethod(ensures_reserialises_identically),
                ensures_txid=staticmethod(ensures_txid),
                note="script lengths 0/1/252/253/65535/65536 in every position, extreme 32/64-bit field values, a coinbase input",
                __doc__=f"{n_in} input(s) x {n_out} output(s): serialisation equals the Bitcoin encoding, parsing recovers every field, "
                        f"re-serialisation is byte-identical, txid is the reversed double SHA-256")
    proof("C05", f"tx[{n_in}x{n_out}]")(type('TxProof', (), body))


for _ni, _no in ((1, 1), (2, 1), (1, 2)):
    make_tx_proof(_ni, _no)


@proof("C05", "segwit")
class Segwit:
    """a segwit-form serialisation (marker 00, flag, witnesses before locktime) parses to the same fields, and the txid is
    the reversed double SHA-256 of the serialisation WITHOUT marker, flag and witness data"""
    inputs = dict(version=U32, locktime=U32, h0=HASH, pos0=U32, s0=TBytes(maxlen=252), seq0=U32, amt0=U64, os0=TBytes(maxlen=252),
                  flag=TInt(1, 255), w0=TBytes(maxlen=70000), w1=TBytes(maxlen=252))
    note = "witness stacks of 2 items, script lengths 0, 1, 107, 252; witness item lengths 0, 1, 107, 252, 253, 520, 65535, 65536"

    def run(version, locktime, h0, pos0, s0, seq0, amt0, os0, flag, w0, w1):
        s = BCDataStream()
        s.write(le(version, 4) + b'\x00' + le(flag, 1) + enc_compact(1) + enc_input(h0, pos0, s0, seq0)
                + enc_compact(1) + enc_output(amt0, os0)
                + enc_compact(2) + enc_compact(len(w0)) + w0 + enc_compact(len(w1)) + w1 + le(locktime, 4))
        tx = Transaction(s.get_bytes())
        return fields_of(tx), tx.raw_sans_segwit, tx.id, tx.is_segwit_flag, list(tx.witnesses)

    def ensures_fields(version, locktime, h0, pos0, s0, seq0, amt0, os0, result):
        v, l, ins, outs = result[0]
        return (v == version and l == locktime and len(ins) == 1 and ins[0] == (h0, pos0, s0, seq0)
                and len(outs) == 1 and outs[0] == (amt0, os0))

    def ensures_sans_segwit_is_legacy_encoding(version, locktime, h0, pos0, s0, seq0, amt0, os0, result):
        return result[1] == enc_tx(version, [(h0, pos0, s0, seq0)], [(amt0, os0)], locktime)

    def ensures_txid_excludes_witness(version, locktime, h0, pos0, s0, seq0, amt0, os0, result):
        legacy = enc_tx(version, [(h0, pos0, s0, seq0)], [(amt0, os0)], locktime)
        return result[2] == hexlify(sha256(sha256(legacy))[::-1]).decode()

    def ensures_witness_drained(flag, w0, w1, result):
        return result[3] == flag and result[4] == [w0, w1]

    def samples():
        for a, b in ((0, 0), (1, 107), (107, 252), (252, 1), (253, 0), (520, 33), (65535, 1), (65536, 252)):
            yield dict(version=2, locktime=7, h0=b'\x11' * 32, pos0=1, s0=bytes(range(a % 253)), seq0=0xFFFFFFFE, amt0=12345,
                       os0=b'\x00\\x14' + b'\x22' * 20, flag=1, w0=bytes([3]) * a, w1=bytes([4]) * b)


TRUSTED = [
    "struct.Struct(fmt).pack/unpack for the formats in the BCDataStream class body (inverse on range, struct.error outside); "
    "int.to_bytes(n, 'little') is the same little-endian encoding",
    "io.BytesIO sequential semantics; hashlib.sha256 is a function of the bytes fed (uninterpreted, 32 bytes); hexlify/[::-1] are "
    "length-preserving injections (uninterpreted with their inverse laws)",
]
NOT_DECIDED = [
    "element counts above 2 (loop bodies are proved per element with arbitrary content; the count prefix for every count)",
    "agreement with an *independent implementation* is replaced by equality with the spec function enc_tx written from the "
    "Bitcoin encoding; real main-net transactions are exercised only by the run-time cases",
    "parsing of arbitrary garbage bytes (short reads make read_* return None)",
]
ASSUMPTIONS = ["scripts are below 2**32 bytes; in the segwit proof scripts are at most 252 bytes, the first witness item at most 70000 bytes "
               "(all three compact-size forms that fit a standard witness), the second at most 252"]


@proof("C05", "txid-after-mutation")
class TxidAfterMutation:
    """class invariant of the cached id/hash: after every public mutator (add_inputs, add_outputs, locktime change + _reset)
    the id read again is the reversed double SHA-256 of the *current* serialisation, also when it had been read before"""
    inputs = dict(version=U32, locktime=U32, locktime2=U32, h0=HASH, pos0=U32, s0=TBytes(maxlen=252), seq0=U32,
                  amt0=U64, os0=TBytes(maxlen=252), amt1=U64, os1=TBytes(maxlen=252), h1=HASH, pos1=U32)

    def requires(h0, h1):
        return h0 != NULL_HASH32 and h1 != NULL_HASH32

    def run(version, locktime, locktime2, h0, pos0, s0, seq0, amt0, os0, amt1, os1, h1, pos1):
        tx = build_tx(version, locktime, [(h0, pos0, s0, seq0)], [(amt0, os0)])
        id0, hash0, raw0 = tx.id, tx.hash, tx.raw
        tx.add_outputs([Output(amt1, OutputScript(os1))])
        id1, hash1, raw1 = tx.id, tx.hash, tx.raw
        oid1 = tx.outputs[1].id
        tx.add_inputs([Input(TXORef(TXRefImmutable.from_hash(h1, -1), pos1), InputScript(s0), seq0)])
        id2, hash2, raw2 = tx.id, tx.hash, tx.raw
        tx.locktime = locktime2
        tx._reset()
        id3, hash3, raw3 = tx.id, tx.hash, tx.raw
        return (id0, hash0, raw0), (id1, hash1, raw1), (id2, hash2, raw2), (id3, hash3, raw3), oid1

    def ensures_every_snapshot_consistent(result):
        ok = True
        for snap in result[:4]:
            ok = ok and snap[1] == sha256(sha256(snap[2])) and snap[0] == hexlify(sha256(sha256(snap[2]))[::-1]).decode()
        return ok

    def ensures_serialisation_follows_content(version, locktime, locktime2, h0, pos0, s0, seq0, amt0, os0, amt1, os1, h1, pos1, result):
        return (result[0][2] == enc_tx(version, [(h0, pos0, s0, seq0)], [(amt0, os0)], locktime)
                and result[1][2] == enc_tx(version, [(h0, pos0, s0, seq0)], [(amt0, os0), (amt1, os1)], locktime)
                and result[2][2] == enc_tx(version, [(h0, pos0, s0, seq0), (h1, pos1, s0, seq0)], [(amt0, os0), (amt1, os1)], locktime)
                and result[3][2] == enc_tx(version, [(h0, pos0, s0, seq0), (h1, pos1, s0, seq0)], [(amt0, os0), (amt1, os1)], locktime2))

    def ensures_output_id_names_current_tx(result):
        return result[4] == result[1][0] + ':1'

    def samples():
        yield dict(version=1, locktime=0, locktime2=500000, h0=b'\x01' * 32, pos0=0, s0=b'\x51', seq0=0xFFFFFFFF, amt0=10, os0=b'\x6a',
                   amt1=20, os1=b'\x51\x52', h1=b'\x02' * 32, pos1=3)
        yield dict(version=2, locktime=9, locktime2=9, h0=b'\x09' * 32, pos0=7, s0=b'', seq0=0, amt0=0, os0=b'', amt1=2 ** 64 - 1,
                   os1=bytes(252), h1=b'\x08' * 32, pos1=2 ** 32 - 1)
