"""C09 — wallet sync converges to the server's history, balance and UTXO set.

This is a whole-history property; per-call contracts carry only part of it.  What is decided how:

DEDUCTIVE (the real functions are symbolically executed; network and database are duck-typed fakes that record calls):
 * `update_history[n,...]`, `update_history.same-status`, `update_history.failure-releases-lock` - the real
   `Ledger.update_history` (with `maybe_has_channel_key`) for ANY address and statuses, a server list of 0..3 transactions
   with symbolic heights and an ARBITRARY stored history: what is saved is the server's list rendered "txid:height:" in the
   server's order, for that address; it is saved iff the server lists something the wallet does not have; everything new is
   requested; all reads/fetches/writes happen while `_address_update_locks[address]` is held and the lock is released on every
   path (also when the server or the database fails); equal status -> nothing fetched, nothing saved; gap maintenance
   runs after the save.  `get_local_status_and_history` and `request_synced_transactions` are replaced by their contracts.
 * `process_status_update.never-drops` - the real `Ledger.process_status_update`: for every state of the address lock (free / held
   by a running update) exactly one `update_history(address, status)` task is handed to the task group: no notification is dropped.
   `update_history.notification-during-update[n]` - the real `process_status_update` + `update_history` on a wallet WITH STATE:
   a second notification for address A arrives while update_history(A) is in flight, after the server answered its get_history
   and then accepted one more transaction touching A: after both tasks the stored history is the server's FINAL list.
 * `gap[g]` - the real `HierarchicalDeterministic.ensure_address_gap` / `_generate_keys` against the call-site contract of the
   address tables, ARBITRARY used_times: the last `gap` addresses are unused afterwards, indices are consecutive, nothing is
   generated when the gap is there, new addresses are announced (subscribed).
   `gap.call-while-locked[g]` - two gap maintenances of one chain: the second is CALLED WHILE the first holds the generator lock
   (it waits for the subscription reply) and a fresh, higher address got used meanwhile: the second call does not return before
   it has looked at the chain; afterwards the gap is there beyond the highest used address.
 * `transaction_io.rows` - the real `Database._transaction_io` / `tx_to_row` / `txo_to_row` / `_insert_sql` on real
   `Transaction` objects with symbolic hashes and amounts: outputs paying the address and spends of the address are recorded,
   nothing foreign is booked on the address.
BOUNDED (labelled stand-ins, never counted as proved):
 * `sync.convergence[...]` - THE stand-in for the convergence clauses: the REAL Ledger + sqlite Database + Account against a
   fake wallet server over seeded random chains (blocks + mempool that fund, spend, claim, support and re-spend wallet addresses,
   third-party outputs of every template kind, growth in stages, notifications in random order, sequentially, concurrently,
   through `process_status_update` and through gathered `update_history` calls, duplicated and stale, and - in-flight growth - a
   further payment to the address whose update is running, accepted right after the server answered that update and notified at
   once, while the update holds the address lock; every status is notified once, nothing is re-sent).  Afterwards, against an
   oracle computed from the chain DEFINITION: stored history of every address == server history; balance, balance incl. claims,
   detailed balance, confirmed balance; `get_utxos()` ids; stored transaction heights; funds at the far end of the gap found;
   the last `gap` addresses of each chain unused, indices consecutive, every address subscribed.
 * `history-string.parse-back` (engine gap C09_1), `sync.input-resolution` (engine gap C09_4), `classification.*` (arbitrary script
   bytes: tokenizer loop outside reach).
KNOWN FINDINGS (known_findings.d/C09.json; the clauses are kept, the witnesses are kept alive by `*.known-*` proofs):
 * F10  - a third-party output whose script matches no template (bare multisig, OP_RETURN with two pushes, truncated PUSHDATA)
   makes `Database._transaction_io` raise (ValueError / struct.error from `txo.script.is_pay_pubkey_hash`): the batch is aborted
   and the history of the address is never stored.
 * F10b - a claim / update / support output (a TEMPLATE script) whose claim name is not valid UTF-8 makes `txo_to_row` raise
   UnicodeDecodeError (`txo.claim_name`) as soon as the output has to be stored (it pays a wallet address, or the transaction
   spends from the wallet): anybody can send such an output to an address of the wallet and stop that address from syncing.
"""
import asyncio
import hashlib
from operator import itemgetter
from pyvc.api import *
from pyvc.speclib import implies
from lbry.wallet.account import HierarchicalDeterministic
from lbry.wallet.ledger import Ledger
from lbry.wallet.database import Database
from lbry.wallet.transaction import Transaction, Output, Input, TXORef
from lbry.wallet.script import OutputScript


# ====================================================================== (a) update_history: diff, fetch, save under the address lock

class ItemGetter:
    """operator.itemgetter(k1, k2, ...) as documented: f(obj) == (obj[k1], obj[k2], ...) (two or more keys)"""

    def __init__(self, *keys):
        self.keys = keys

    def __call__(self, obj):
        return tuple([obj[k] for k in self.keys])


@model_for(itemgetter)
def _m_itemgetter(interp, st, args, kwargs):
    if len(args) < 2:
        raise Unsupported("itemgetter with a single key")
    yield from interp.instantiate(st, ItemGetter, list(args), {})


class ListSet:
    """the built-in set for elements whose equality is symbolic (tuples with symbolic heights): a duplicate-free list.
    Only the operations update_history uses; the semantics are the documented ones of set."""

    def __init__(self, items=()):
        self.items = []
        for x in items:
            if x not in self.items:
                self.items.append(x)

    def __contains__(self, x):
        return x in self.items

    def __len__(self):
        return len(self.items)

    def __iter__(self):
        return iter(self.items)

    def __sub__(self, other):
        return ListSet([x for x in self.items if x not in other.items])

    def difference(self, other):
        return ListSet([x for x in self.items if x not in other.items])

    def symmetric_difference(self, other):
        return ListSet([x for x in self.items if x not in other.items] + [x for x in other.items if x not in self.items])

    def add(self, x):
        if x not in self.items:
            self.items.append(x)


@model_for(set)
def _m_set(interp, st, args, kwargs):
    yield from interp.instantiate(st, ListSet, list(args), {})


TXIDS = ('11' * 32, '22' * 32, '33' * 32, 'ee' * 32)       # three ids the server lists + one only the wallet knows
HEIGHT = TInt()         # any integer (confirmed heights, 0 and -1 for the mempool)


class World:
    """everything the fakes share: the event log (each event with the state of the address lock when it happened)"""

    def __init__(self):
        self.lock = asyncio.Lock()
        self.lock_keys = []
        self.events = []
        self.fail_at = None

    def event(self, *what):
        self.events.append((what[0], self.lock.locked()) + tuple(what[1:]))
        if self.fail_at == what[0]:
            raise OSError('injected failure at ' + what[0])


class LockTable:
    def __init__(self, world):
        self.world = world

    def __getitem__(self, key):
        self.world.lock_keys.append(key)
        return self.world.lock


class Flags:
    def __init__(self, world):
        self.world = world

    def discard(self, x):
        self.world.event('out-of-sync.discard', x)

    def add(self, x):
        self.world.event('out-of-sync.add', x)


class SyncNetwork:
    def __init__(self, world, history):
        self.world = world
        self.history = history

    async def retriable_call(self, function, *args, **kwargs):
        return await function(*args, **kwargs)

    async def get_history(self, address):
        self.world.event('get_history', address)
        await asyncio.sleep(0)
        return [{'tx_hash': t, 'height': h} for t, h in self.history]


class SyncDb:
    def __init__(self, world):
        self.world = world

    async def set_address_history(self, address, history):
        self.world.event('save_history', address, history)
        await asyncio.sleep(0)


class SyncTx:
    def __init__(self, txid, height):
        self.id = txid
        self.height = height
        self._outputs = []


class SyncManager:
    def __init__(self, world, name):
        self.world = world
        self.name = name

    async def ensure_address_gap(self):
        self.world.event('ensure_address_gap', self.name)
        return []


class SyncLedger:
    """the attributes of Ledger that update_history touches; update_history itself is the REAL function.
    get_local_status_and_history is replaced by its contract (first call: the stored state, an input of the proof; second
    call, on the string just written: either the server's status and list again, or another status with a different list -
    both outcomes of the only test made on it); request_synced_transactions by its contract (one transaction per requested
    entry, with the requested id and height, in request order or reversed, then the batch is stored)"""
    update_history = Ledger.update_history
    maybe_has_channel_key = Ledger.maybe_has_channel_key

    def __init__(self, world, remote, remote_status, local_status, local, after_same, reverse):
        self.world = world
        self.local_status, self.local = local_status, local
        self.remote, self.remote_status = remote, remote_status
        self.after_same, self.reverse = after_same, reverse
        self._address_update_locks = LockTable(world)
        self._known_addresses_out_of_sync = Flags(world)
        self.network = SyncNetwork(world, remote)
        self.db = SyncDb(world)
        self.accounts = []

    async def get_local_status_and_history(self, address, history=None):
        if not history:
            self.world.event('read_local', address)
            await asyncio.sleep(0)
            return self.local_status, list(self.local)
        self.world.event('reparse', address, history)
        if self.after_same:
            return self.remote_status, list(self.remote)
        return None, list(self.remote) + [(TXIDS[3], 1)]

    async def request_synced_transactions(self, to_request, remote_history, address):
        wanted = list(to_request.values())
        self.world.event('fetch', address, wanted, sorted(remote_history))
        if self.reverse:
            wanted = [wanted[len(wanted) - 1 - i] for i in range(len(wanted))]
        for txid, height in wanted:
            yield SyncTx(txid, height)
        self.world.event('batch_stored', address)

    async def get_address_manager_for_address(self, address):
        self.world.event('manager_lookup', address)
        return SyncManager(self.world, 'looked-up')


def server_history_string(remote):
    """the address history as the protocol writes it: "txid:height:" per transaction, in the server's order"""
    s = ''
    for t, h in remote:
        s = s + '%s:%d:' % (t, h)
    return s


async def sync_scenario(address, remote_status, local_status, remote, local, after_same, reverse, pass_manager, fail_at):
    world = World()
    world.fail_at = fail_at
    ledger = SyncLedger(world, remote, remote_status, local_status, local, after_same, reverse)
    manager = SyncManager(world, 'passed') if pass_manager else None
    try:
        outcome = await ledger.update_history(address, remote_status, manager)
    except OSError:
        outcome = 'failed'
    return outcome, world.events, world.lock_keys, world.lock.locked()


def events_of(events, kind):
    return [e for e in events if e[0] == kind]


def lists_of(n, shape, rs, ls):
    remote = [(TXIDS[i], rs[i]) for i in range(n)]
    local = [(TXIDS[shape[j]], ls[j]) for j in range(len(shape))]
    missing = [x for x in remote if x not in local]
    return remote, local, missing


LOCAL_SHAPES_QUICK = [(), (0,), (1,), (3,), (0, 1), (1, 0), (0, 3), (3, 0), (1, 2)]
LOCAL_SHAPES_QUICK_3 = [(), (0,), (3,), (0, 1), (0, 1, 2)]
LOCAL_SHAPES_ALL = [()] + [(a,) for a in range(4)] + [(a, b) for a in range(4) for b in range(4) if a != b] + \
    [(a, b, c) for a in range(4) for b in range(4) for c in range(4) if len({a, b, c}) == 3]


def make_update_history_proof(n, shapes, tag, pass_manager, thorough=False):
    class UpdateHistory:
        inputs = dict(address=TStr(), remote_status=TStr(), local_status=TOpt(TStr()), r0=HEIGHT, r1=HEIGHT, r2=HEIGHT,
                      shape=TOneOf(*[TConst(x) for x in shapes]), l0=HEIGHT, l1=HEIGHT, l2=HEIGHT, after_same=TBool(), reverse=TBool())
        thorough_only = thorough
        timeout = 6
        note = "12 seeded cases per stored-history shape: stored history a prefix, a permutation, stale heights, foreign entries"

        def requires(remote_status, local_status):
            return local_status != remote_status

        def run(address, remote_status, local_status, r0, r1, r2, shape, l0, l1, l2, after_same, reverse):
            remote, local, missing = lists_of(n, shape, (r0, r1, r2), (l0, l1, l2))
            return sync_scenario(address, remote_status, local_status, remote, local, after_same, reverse, pass_manager, None)

        def ensures_saved_history_is_the_servers_list_for_that_address(address, r0, r1, r2, shape, l0, l1, l2, result):
            remote, local, missing = lists_of(n, shape, (r0, r1, r2), (l0, l1, l2))
            saves = events_of(result[1], 'save_history')
            ok = len(saves) <= 1
            for e in saves:
                ok = ok and e[2] == address and e[3] == server_history_string(remote)
            return ok

        def ensures_saves_whenever_the_server_lists_something_new(r0, r1, r2, shape, l0, l1, l2, result):
            remote, local, missing = lists_of(n, shape, (r0, r1, r2), (l0, l1, l2))
            return (len(events_of(result[1], 'save_history')) == 1) == (len(missing) > 0)

        def ensures_fetches_every_new_entry_and_only_server_entries(address, r0, r1, r2, shape, l0, l1, l2, result):
            remote, local, missing = lists_of(n, shape, (r0, r1, r2), (l0, l1, l2))
            fetches = events_of(result[1], 'fetch')
            if len(missing) == 0:
                return fetches == []
            ok = len(fetches) == 1 and fetches[0][2] == address and fetches[0][4] == sorted([t for t, h in remote])
            for x in missing:
                ok = ok and x in fetches[0][3]
            for x in fetches[0][3]:
                ok = ok and x in remote
            return ok

        def ensures_everything_happens_under_the_lock_of_this_address(address, result):
            ok = result[2] == [address] and result[3] == False      # noqa
            for e in result[1]:
                ok = ok and e[1] == True                            # noqa
            return ok

        def ensures_order_read_fetch_store_save_then_gap(result):
            kinds = [e[0] for e in result[1] if e[0] in ('read_local', 'get_history', 'fetch', 'batch_stored', 'save_history',
                                                          'manager_lookup', 'ensure_address_gap')]
            if 'save_history' not in kinds:
                return kinds == ['read_local', 'get_history']
            gap = [e for e in result[1] if e[0] == 'ensure_address_gap']
            return (kinds == ['read_local', 'get_history', 'fetch', 'batch_stored', 'save_history']
                    + ([] if pass_manager else ['manager_lookup']) + ['ensure_address_gap']
                    and gap[0][2] == ('passed' if pass_manager else 'looked-up'))

        def samples():
            import random
            r = random.Random(n * 100 + len(shapes))
            for shape in shapes:
                for k in range(12):
                    rs = [r.choice([-1, 0, 5, 6, 7, 100]) for _ in range(3)]
                    ls = [rs[shape[j]] if shape[j] < 3 and r.random() < 0.6 else r.choice([-1, 0, 5, 9]) for j in range(len(shape))] \
                        + [0] * (3 - len(shape))
                    yield dict(address='bAddr%d' % k, remote_status=r.choice(['aa', 'bb']), local_status=r.choice([None, 'cc']), r0=rs[0],
                               r1=rs[1], r2=rs[2], shape=shape, l0=ls[0], l1=ls[1], l2=ls[2], after_same=r.random() < 0.7,
                               reverse=r.random() < 0.5)

    UpdateHistory.__doc__ = (
        f"Ledger.update_history when the stored status differs from the notified one: ANY address and statuses, a server list of {n} "
        f"transaction(s) with symbolic heights (any integer: mempool 0/-1 included) and an ARBITRARY stored history ({tag}: entries of "
        f"the server list in any order with any heights, and an entry the server does not list).  Whatever is saved is exactly the "
        f"server's list rendered 'txid:height:' in the server's order, for that address, at most once; it IS saved iff the server lists "
        f"an entry the wallet does not have; every such entry is requested, only server entries are requested, and the full id set goes "
        f"to input resolution; all reads, fetches and writes happen while the lock of this address (and no other key) is held and the "
        f"lock is free afterwards; gap maintenance runs after the save on the manager "
        f"{'passed in' if pass_manager else 'looked up for the address'}")
    proof("C09", f"update_history[{n},{tag}]")(UpdateHistory)


make_update_history_proof(0, LOCAL_SHAPES_QUICK, 'stored<=2', True)
make_update_history_proof(1, LOCAL_SHAPES_QUICK, 'stored<=2', False)
make_update_history_proof(2, LOCAL_SHAPES_QUICK, 'stored<=2', True)
make_update_history_proof(3, LOCAL_SHAPES_QUICK_3, 'stored<=3', True)
for _n in (1, 2, 3):
    make_update_history_proof(_n, LOCAL_SHAPES_ALL, 'every stored shape <=3', _n == 2, thorough=True)


@proof("C09", "update_history.same-status")
class UpdateHistorySameStatus:
    """Ledger.update_history when the stored status equals the notified one (both None included), whatever the stored and the
    server's lists are: returns True, nothing is asked of the server, nothing is fetched, nothing is saved, no gap maintenance;
    the stored state is read under the lock of this address and the lock is free afterwards"""
    inputs = dict(address=TStr(), status=TOpt(TStr()), r0=HEIGHT, l0=HEIGHT, n=TOneOf(TConst(0), TConst(2)))
    note = "None / equal strings x empty and non-empty lists"

    def run(address, status, r0, l0, n):
        remote, local, missing = lists_of(n, (1,), (r0, 5, 6), (l0, 0, 0))
        return sync_scenario(address, status, status, remote, local, True, False, False, None)

    def ensures_nothing_fetched_nothing_saved(address, result):
        return (result[0] == True and [e[0] for e in result[1]] == ['out-of-sync.discard', 'read_local']        # noqa
                and result[1][1][2] == address)

    def ensures_under_the_lock_of_this_address(address, result):
        return result[2] == [address] and result[3] == False and result[1][1][1] == True      # noqa

    def samples():
        for status in (None, '', 'aa' * 32):
            for n in (0, 2):
                yield dict(address='bAddr', status=status, r0=7, l0=7, n=n)


@proof("C09", "update_history.failure-releases-lock")
class UpdateHistoryFailure:
    """Ledger.update_history when the server or the database fails (an OSError raised when the stored state is read, by
    get_history, by the batch fetch, by the batch store, by the history write or by gap maintenance): the error propagates,
    nothing is saved after the failure, and the lock of the address is free again (released on every path)"""
    inputs = dict(address=TStr(), remote_status=TStr(), r0=HEIGHT, r1=HEIGHT,
                  fail_at=TOneOf(TConst('read_local'), TConst('get_history'), TConst('fetch'), TConst('batch_stored'), TConst('save_history'),
                                 TConst('ensure_address_gap')))
    note = "6 failure points"

    def run(address, remote_status, r0, r1, fail_at):
        remote, local, missing = lists_of(2, (), (r0, r1, 0), (0, 0, 0))
        return sync_scenario(address, remote_status, None, remote, local, True, False, True, fail_at)

    def ensures_error_propagates_and_lock_is_released(address, fail_at, result):
        kinds = [e[0] for e in result[1]]
        return (result[0] == 'failed' and result[3] == False and result[2] == [address] and kinds[len(kinds) - 1] == fail_at      # noqa
                and (fail_at in ('save_history', 'ensure_address_gap') or 'save_history' not in kinds))

    def samples():
        for f in ('read_local', 'get_history', 'fetch', 'batch_stored', 'save_history', 'ensure_address_gap'):
            yield dict(address='bAddr', remote_status='aa', r0=5, r1=0, fail_at=f)


# ---------------------------------------------------------------------- notifications are never dropped; one arriving during an update

class NotifyTasks:
    """what process_status_update needs of the TaskGroup: add(); records what it is handed"""

    def __init__(self):
        self.added = []

    def add(self, coro):
        self.added.append(coro)
        return coro


class NotifyLedger:
    process_status_update = Ledger.process_status_update

    def __init__(self, world):
        self.world = world
        self._update_tasks = NotifyTasks()
        self._address_update_locks = LockTable(world)
        self.calls = []

    def update_history(self, address, remote_status, address_manager=None, reattempt_update=True):
        self.calls.append((address, remote_status, address_manager))
        return ('update-task', len(self.calls))


async def notify_scenario(address, status, held):
    world = World()
    if held:
        await world.lock.acquire()          # an update of this address is running
    ledger = NotifyLedger(world)
    r = ledger.process_status_update((address, status))
    return r, ledger.calls, ledger._update_tasks.added, world.lock.locked()


@proof("C09", "process_status_update.never-drops")
class NeverDrops:
    """Ledger.process_status_update for ANY (address, status) and EVERY state of the address lock (free, or held by a running update
    of that address): exactly one update_history(address, status) is created and handed to the update task group - no notification
    is dropped, merged or answered from the lock state - and the lock is left as it was"""
    inputs = dict(address=TStr(), status=TOpt(TStr()), held=TBool())
    note = "free / held x None / string status"

    def run(address, status, held):
        return notify_scenario(address, status, held)

    def ensures_exactly_one_update_task_for_this_notification(address, status, held, result):
        return result[1] == [(address, status, None)] and result[2] == [('update-task', 1)] and result[3] == held

    def samples():
        for held in (False, True):
            for status in (None, 'aa' * 32):
                yield dict(address='bAddr', status=status, held=held)


def which_rendering(history, renderings):
    """index of the first string in `renderings` equal to `history`, -1 if none"""
    for i in range(len(renderings)):
        if history == renderings[i]:
            return i
    return -1


def _int_constants(t, out):
    import z3
    if z3.is_const(t):
        if z3.is_int(t) and t.decl().kind() == z3.Z3_OP_UNINTERPRETED and not any(t.eq(o) for o in out):
            out.append(t)
        return
    for c in t.children():
        _int_constants(c, out)


def _sign_known(st, x):
    import z3
    stack = list(st.pc)
    while stack:
        a = stack.pop()
        if z3.is_and(a):
            stack.extend(a.children())
        elif a.eq(x >= 0):
            return True
        elif z3.is_not(a) and a.arg(0).eq(x >= 0):
            return False
    return None


@model_for(which_rendering)
def _m_which_rendering(interp, st, args, kwargs):
    """symbolic side.  The engine writes the decimal rendering of an integer x as ite(x >= 0, str(x), '-' ++ str(-x)), and z3's
    simplifier hoists these differently for f'{h}' and '%d' % h.  So: case split on the sign of every integer in the strings (both
    cases are explored, the sign goes into the path condition), replace the conditions by their value, simplify - what is left are
    concatenations of constants and str(x), which have ONE normal form - and compare SYNTACTICALLY.  A string that is not literally
    one of the renderings counts as unknown (-1), which makes the scenario fail - never pass - so this is safe."""
    import z3
    h, cands = args[0], list(st.heap[args[1].addr].items)
    ints = []
    for v in [h] + cands:
        if not v.concrete:
            _int_constants(v.term(), ints)

    def decide(s1):
        subst = [(x >= 0, z3.BoolVal(_sign_known(s1, x))) for x in ints]

        def norm(v):
            return z3.simplify(z3.substitute(v.term(), *subst)) if subst else z3.simplify(v.term())
        for i, c in enumerate(cands):
            if h.concrete and c.concrete:
                same = h.v == c.v
            elif h.concrete or c.concrete:
                same = False
            else:
                same = norm(h).eq(norm(c))
            if same:
                return VInt(i)
        return VInt(-1)

    def split(s1, k, leaves):
        if k == len(ints):
            leaves.append(s1)
        elif _sign_known(s1, ints[k]) is not None:
            split(s1, k + 1, leaves)
        else:
            for cond in (ints[k] >= 0, z3.Not(ints[k] >= 0)):
                s2 = s1.copy()
                if s2.assume(cond) and interp.feasible(s2):
                    split(s2, k + 1, leaves)
    leaves = []
    split(st, 0, leaves)        # every copy is taken before any continuation runs
    for s1 in leaves:
        yield s1, decide(s1)


class RaceTasks:
    """a TaskGroup that really starts the coroutines (asyncio tasks) and remembers them"""

    def __init__(self):
        self.tasks = []

    def add(self, coro):
        task = asyncio.ensure_future(coro)
        self.tasks.append(task)
        return task


class RaceNetwork:
    def __init__(self, ledger):
        self.ledger = ledger

    async def retriable_call(self, function, *args, **kwargs):
        return await function(*args, **kwargs)

    async def get_history(self, address):
        led = self.ledger
        led.world.event('get_history', address)
        reply = [{'tx_hash': t, 'height': h} for t, h in led.server]
        if led.grow_to is not None:
            # the reply is on its way; the server accepts another transaction touching the address and notifies at once:
            # the notification reaches the wallet while this update is still running (it holds the address lock)
            led.server, led.grow_to = led.grow_to, None
            led.process_status_update((address, led.status_of_list(1)))
        return reply


class RaceDb:
    def __init__(self, ledger):
        self.ledger = ledger

    async def set_address_history(self, address, history):
        self.ledger.world.event('save_history', address, history)
        self.ledger.stored_index = self.ledger.parse(history)


class RaceLedger:
    """a wallet with STATE around the real process_status_update and update_history: what set_address_history stores is what the next
    get_local_status_and_history returns (parse = the known list whose rendering the string is; anything else is an error).
    Statuses: the protocol says hex SHA-256 of the history string; the code only compares statuses, so each list the server ever
    had gets its own constant (SHA-256 idealised as collision free), None for the empty list"""
    update_history = Ledger.update_history
    process_status_update = Ledger.process_status_update
    maybe_has_channel_key = Ledger.maybe_has_channel_key

    def __init__(self, world, first, final):
        self.world = world
        self.server, self.grow_to = first, final
        self.known_lists = [first, final]
        self.stored_index = -1          # -1: nothing stored yet
        self._address_update_locks = LockTable(world)
        self._known_addresses_out_of_sync = Flags(world)
        self._update_tasks = RaceTasks()
        self.network = RaceNetwork(self)
        self.db = RaceDb(self)
        self.accounts = []

    def status_of_list(self, index):
        if index < 0 or len(self.known_lists[index]) == 0:
            return None
        return 'status-of-list-%d' % index

    def parse(self, history):
        index = which_rendering(history, [server_history_string(known) for known in self.known_lists])
        if index < 0:
            raise AssertionError('the stored string is not the rendering of a list the server ever had')
        return index

    async def get_local_status_and_history(self, address, history=None):
        if not history:
            self.world.event('read_local', address)
            return self.status_of_list(self.stored_index), (list(self.known_lists[self.stored_index]) if self.stored_index >= 0 else [])
        index = self.parse(history)
        return self.status_of_list(index), list(self.known_lists[index])

    async def request_synced_transactions(self, to_request, remote_history, address):
        self.world.event('fetch', address, list(to_request.values()), sorted(remote_history))
        for txid, height in list(to_request.values()):
            yield SyncTx(txid, height)
        self.world.event('batch_stored', address)

    async def get_address_manager_for_address(self, address):
        return SyncManager(self.world, 'looked-up')


async def race_scenario(address, first, final):
    world = World()
    ledger = RaceLedger(world, first, final)
    # symbolic side only: settle the sign of every height NOW (see the model of which_rendering) - the engine cannot fork a path
    # while a started-but-not-yet-run task is waiting in the ready queue (a coroutine object is not copied with the state)
    which_rendering('', [server_history_string(first), server_history_string(final)])
    ledger.process_status_update((address, ledger.status_of_list(0)))       # the notification that starts it all
    failed, i = 0, 0
    while i < len(ledger._update_tasks.tasks):
        try:
            await ledger._update_tasks.tasks[i]
        except Exception as e:       # noqa
            failed += 1
            world.events.append(('task-failed', True, type(e).__name__, str(e)))
        i += 1
    stored = list(ledger.known_lists[ledger.stored_index]) if ledger.stored_index >= 0 else []
    return world.events, len(ledger._update_tasks.tasks), failed, world.lock.locked(), stored, ledger.server


def make_race_proof(n):
    class Race:
        inputs = dict(address=TStr(), r0=HEIGHT, r1=HEIGHT, r2=HEIGHT, confirmed=TBool(), c0=HEIGHT)
        timeout = 6
        note = "16 seeded height combinations incl. mempool heights, with and without the first entry getting confirmed"

        def lists(r0, r1, r2, confirmed, c0):
            first = [(TXIDS[i], (r0, r1, r2)[i]) for i in range(n)]
            final = [(TXIDS[i], (c0 if confirmed and i == 0 else (r0, r1, r2)[i])) for i in range(n + 1)]
            return first, final

        def run(address, r0, r1, r2, confirmed, c0):
            first, final = Race.lists(r0, r1, r2, confirmed, c0)
            return race_scenario(address, first, final)

        def ensures_both_notifications_become_updates_and_the_final_list_is_stored(address, r0, r1, r2, confirmed, c0, result):
            first, final = Race.lists(r0, r1, r2, confirmed, c0)
            events, tasks, failed, locked, stored, server = result
            saves = events_of(events, 'save_history')
            return (tasks == 2 and failed == 0 and locked == False and server == final and stored == final          # noqa
                    and len(saves) >= 1 and saves[len(saves) - 1][2] == address
                    and which_rendering(saves[len(saves) - 1][3], [server_history_string(final)]) == 0)

        def ensures_the_second_update_starts_after_the_first_released_the_lock(result):
            kinds = [e[0] for e in result[0] if e[0] in ('read_local', 'save_history')]
            ok = kinds == ['read_local', 'save_history', 'read_local', 'save_history']
            for e in result[0]:
                ok = ok and e[1] == True        # noqa
            return ok

        def samples():
            import random
            r = random.Random(n)
            for k in range(16):
                yield dict(address='bAddr%d' % k, r0=r.choice([-1, 0, 5]), r1=r.choice([-1, 0, 5, 6]), r2=r.choice([-1, 0, 7]),
                           confirmed=k % 2 == 0, c0=r.choice([5, 6, 9]))

    Race.__doc__ = (
        f"The real process_status_update + update_history on a wallet with state: the server lists {n} transaction(s) for address A and "
        f"notifies; update_history(A) starts, reads the (empty) stored state and asks for the history; right after the server put its "
        f"answer on the wire it accepts one more transaction touching A (optionally the first entry also changes its height: mempool -> "
        f"confirmed) and notifies again - process_status_update runs while the first update holds the lock of A.  After every task has "
        f"finished: two update tasks ran, none failed, the second one ran after the first released the lock, and the stored history is the "
        f"server's FINAL list (symbolic heights, any address).  Schedule: the second task waits for the lock, i.e. runs when the first is "
        f"done (the only schedule the lock admits; other interleavings of the waiting itself are not modelled).")
    proof("C09", f"update_history.notification-during-update[{n}]")(Race)


make_race_proof(1)
make_race_proof(2)


# ====================================================================== (b) the stored history string and its status (bounded)

class HistDb:
    def __init__(self, row):
        self.row = row
        self.asked = []

    async def get_address(self, read_only=False, **constraints):
        self.asked.append(constraints)
        return self.row


class HistLedger:
    get_local_status_and_history = Ledger.get_local_status_and_history

    def __init__(self, db):
        self.db = db


def _history_case(case):
    import random
    r = random.Random(case)
    n = (0, 1, 2, 3, 5, 17, 100)[case % 7] if case % 11 else r.randint(0, 120)
    items = []
    for k in range(n):
        items.append((hashlib.sha256(b'tx %d %d' % (case, k)).hexdigest(), r.choice([-1, 0, 1, 9, 10, r.randint(1, 2 * 10 ** 6)])))
    return items


@proof("C09", "history-string.parse-back")
class HistoryString:
    """BOUNDED stand-in (engine gap C09_1: `parts[0::2]` - a slice with a step - is outside the generator's reach): the real
    Ledger.get_local_status_and_history on the protocol's history string of a list of transactions, given as argument or read from
    the address row (row missing / history NULL included): the list parsed back is the list the string was written from, the
    status is the hex SHA-256 of the string, None for the empty history; the row of THAT address is read"""
    bounded_only = True
    note = "400 seeded lists of 0..120 (64-hex id, height in {-1, 0, 1, 9, 10, random < 2e6}) x {argument, stored row}; + no row / NULL history"
    inputs = dict(case=TInt(0, 10 ** 6), source=TStr())

    def run(case, source):
        items = _history_case(case)
        text = server_history_string(items)
        if source == 'argument':        # an empty argument means "not given": the stored row is read
            db = HistDb({'history': ('ff' * 32 + ':5:') if items else '', 'address': 'A'})
            got = asyncio.run(HistLedger(db).get_local_status_and_history('A', text))
        else:
            db = HistDb(None if source == 'no-row' else {'history': None if source == 'null' else text, 'address': 'A'})
            got = asyncio.run(HistLedger(db).get_local_status_and_history('A'))
        return got, db.asked

    def ensures_parses_back_and_status_is_sha256_hex(case, source, result):
        items = _history_case(case) if source in ('argument', 'row') else []
        text = server_history_string(items)
        return result[0] == ((hashlib.sha256(text.encode()).hexdigest() if items else None), items)

    def ensures_reads_the_row_of_that_address(case, source, result):
        return result[1] == ([] if source == 'argument' and _history_case(case) else [{'address': 'A'}])

    def samples():
        for case in range(200):
            yield dict(case=case, source='argument')
            yield dict(case=case, source='row')
        yield dict(case=3, source='no-row')
        yield dict(case=3, source='null')


# ====================================================================== (c) gap maintenance

class GapKey:
    """what the address manager reads of a BIP32 public key: the child index and the address (derivation itself: C06)"""

    def __init__(self, path):
        self.path = path
        self.n = path[len(path) - 1] if len(path) > 0 else 0
        self.address = 'address' + ''.join(['/%d' % p for p in path])

    def child(self, n):
        return GapKey(self.path + (n,))


class GapDb:
    """call-site contract of the address tables as the address manager uses them: rows (n, used_times) per chain;
    ORDER BY n DESC|ASC LIMIT k returns the k rows of highest|lowest n in that order; add_keys inserts unused rows"""

    def __init__(self, manager_ref):
        self.rows = []
        self.manager_ref = manager_ref
        self.writes_without_lock = 0

    async def get_addresses(self, read_only=False, accounts=None, chain=None, limit=None, order_by=None):
        rows = [r for r in self.rows if r['chain'] == chain]
        if order_by == "n desc":
            rows = [rows[len(rows) - 1 - i] for i in range(len(rows))]
        if limit is not None:
            rows = rows[:limit]
        return [dict(address=r['address'], used_times=r['used_times'], pubkey=r['pubkey'], chain=r['chain']) for r in rows]

    async def add_keys(self, account, chain, pubkeys):
        if not self.manager_ref[0].address_generator_lock.locked():
            self.writes_without_lock += 1
        for k in pubkeys:
            if not [r for r in self.rows if r['address'] == k.address]:
                self.rows.append(dict(address=k.address, used_times=0, pubkey=k, chain=chain))


class GapLedger:
    def __init__(self, db):
        self.db = db
        self.announced = []

    async def announce_addresses(self, address_manager, addresses):
        self.announced.append(list(addresses))


class GapAccount:
    def __init__(self, ledger):
        self.ledger = ledger
        self.public_key = GapKey(())


async def gap_scenario(gap, m, used):
    ref = [None]
    db = GapDb(ref)
    ledger = GapLedger(db)
    am = HierarchicalDeterministic(GapAccount(ledger), 1, gap, 1)
    ref[0] = am
    chain_key = GapKey((1,))
    for i in range(m):
        k = chain_key.child(i)
        db.rows.append(dict(address=k.address, used_times=used[i], pubkey=k, chain=1))
    db.rows.append(dict(address='other-chain', used_times=5, pubkey=GapKey((0, 0)), chain=0))
    new = await am.ensure_address_gap()
    after = [(r['pubkey'].n, r['used_times'], r['address']) for r in db.rows if r['chain'] == 1]
    again = await am.ensure_address_gap()
    return new, after, ledger.announced, db.writes_without_lock, am.address_generator_lock.locked(), again, len(db.rows)


def make_gap_proof(gap, thorough=False):
    M = gap + 2

    class Gap:
        inputs = dict(m=TOneOf(*[TConst(i) for i in range(M + 1)]), used=TList(TInt(0, 1000), n=M))
        thorough_only = thorough
        note = f"gap {gap}: chain lengths 0..{M} x used/unused patterns ({'every pattern' if M <= 5 else '40 seeded patterns per length'})"

        def run(m, used):
            return gap_scenario(gap, m, used)

        def ensures_last_gap_addresses_unused(result):
            after = result[1]
            ok = len(after) >= gap
            for r in after[len(after) - gap:]:
                ok = ok and r[1] == 0
            return ok

        def ensures_indices_consecutive_from_previous_maximum(m, used, result):
            new, after = result[0], result[1]
            ok = len(after) == m + len(new)
            for i in range(len(after)):
                ok = ok and after[i][0] == i and after[i][2] == 'address/1/%d' % i
                if i < m:
                    ok = ok and after[i][1] == used[i]
                else:
                    ok = ok and after[i][1] == 0 and new[i - m] == after[i][2]
            return ok

        def ensures_nothing_generated_when_gap_is_there(m, used, result):
            there = m >= gap
            for i in range(max(0, m - gap), m):
                there = there and used[i] == 0
            return implies(there, result[0] == [] and len(result[1]) == m and result[2] == [])

        def ensures_new_addresses_announced_for_subscription(result):
            return result[2] == ([result[0]] if result[0] else [])

        def ensures_idempotent_and_lock_discipline(m, result):
            return result[5] == [] and result[3] == 0 and result[4] == False and result[6] == len(result[1]) + 1     # noqa

        def samples():
            import itertools
            import random
            r = random.Random(gap)
            for m in range(M + 1):
                if M <= 5:
                    for pat in itertools.product([0, 1, 3], repeat=m):
                        yield dict(m=m, used=list(pat) + [0] * (M - m))
                else:
                    for _ in range(40):
                        yield dict(m=m, used=[r.choice([0, 0, 1, 2]) for _ in range(m)] + [0] * (M - m))

    Gap.__doc__ = (f"HierarchicalDeterministic.ensure_address_gap/_generate_keys, gap {gap}, against the call-site contract of the address "
                   f"tables: a chain of 0..{M} addresses with ARBITRARY used_times; afterwards the last {gap} addresses are unused, new "
                   f"indices continue the chain without holes, old rows and the other chain are untouched, nothing is generated when the "
                   f"gap is already there, what was generated is announced (subscribed), a second call generates nothing, keys are "
                   f"written under the generator lock and the lock is released")
    proof("C09", f"gap[{gap}]")(Gap)


for _g in (1, 2, 3):
    make_gap_proof(_g)
for _g in (4, 6, 20):
    make_gap_proof(_g, thorough=True)


async def release_later(lock):
    lock.release()


async def gap_race_scenario(gap, m, used, fresh_offset, used_later):
    ref = [None]
    db = GapDb(ref)
    ledger = GapLedger(db)
    am = HierarchicalDeterministic(GapAccount(ledger), 1, gap, 1)
    ref[0] = am
    chain_key = GapKey((1,))
    for i in range(m):
        k = chain_key.child(i)
        db.rows.append(dict(address=k.address, used_times=used[i], pubkey=k, chain=1))
    db.rows.append(dict(address='other-chain', used_times=5, pubkey=GapKey((0, 0)), chain=0))
    # task 1: the real call; it has read the chain, written its keys and now waits for the server's reply to the subscription
    # of the new addresses (announce_addresses) ...
    new1 = await am.ensure_address_gap()
    await am.address_generator_lock.acquire()       # ... STILL HOLDING the generator lock: that state is restored here
    chain = [r for r in db.rows if r['chain'] == 1]
    if fresh_offset >= 0:       # meanwhile the update of a HIGHER, fresh address of the chain has stored its history
        chain[len(chain) - gap + fresh_offset]['used_times'] = used_later
    reply = asyncio.ensure_future(release_later(am.address_generator_lock))    # the reply arrives later: task 1 returns, lock released
    new2 = await am.ensure_address_gap()            # task 2: gap maintenance of that other update, CALLED WHILE THE LOCK IS HELD
    await reply
    after = [(r['pubkey'].n, r['used_times'], r['address']) for r in db.rows if r['chain'] == 1]
    return new1, new2, after, ledger.announced, db.writes_without_lock, am.address_generator_lock.locked(), len(chain)


def make_gap_race_proof(gap):
    M = gap + 2

    class GapRace:
        inputs = dict(m=TOneOf(*[TConst(i) for i in range(M + 1)]), used=TList(TInt(0, 1000), n=M),
                      fresh_offset=TOneOf(*[TConst(i) for i in range(-1, gap)]), used_later=TInt(1, 1000))
        note = f"gap {gap}: chain lengths 0..{M} x every used/unused pattern x which fresh address gets used meanwhile (or none)"

        def run(m, used, fresh_offset, used_later):
            return gap_race_scenario(gap, m, used, fresh_offset, used_later)

        def ensures_gap_established_although_called_while_locked(fresh_offset, result):
            new1, new2, after, announced, unlocked_writes, locked, before2 = result
            ok = len(after) >= gap and unlocked_writes == 0 and locked == False     # noqa
            for r in after[len(after) - gap:]:
                ok = ok and r[1] == 0
            for i in range(len(after)):
                ok = ok and after[i][0] == i and after[i][2] == 'address/1/%d' % i
            # the chain reaches `gap` beyond the fresh address that was used meanwhile
            return ok and (fresh_offset < 0 or len(after) >= (before2 - gap + fresh_offset) + 1 + gap)

        def ensures_second_call_generates_and_announces_exactly_the_rest(fresh_offset, result):
            new1, new2, after, announced, unlocked_writes, locked, before2 = result
            ok = len(after) == before2 + len(new2) and announced == ([new1] if new1 else []) + ([new2] if new2 else [])
            for k in range(len(new2)):
                ok = ok and new2[k] == 'address/1/%d' % (before2 + k)
            return ok and (fresh_offset >= 0 or new2 == [])

        def samples():
            import itertools
            for m in range(M + 1):
                for pat in itertools.product([0, 2], repeat=m):
                    for off in range(-1, gap):
                        yield dict(m=m, used=list(pat) + [0] * (M - m), fresh_offset=off, used_later=3)

    GapRace.__doc__ = (
        f"Two gap maintenances of one chain, gap {gap}, both the real HierarchicalDeterministic.ensure_address_gap/_generate_keys on the "
        f"stateful fake address table: task 1 runs on an ARBITRARY chain (0..{M} addresses, any used_times), writes its keys and waits for "
        f"the reply to the subscription of the new addresses, holding the generator lock; meanwhile another update marks one of the fresh "
        f"addresses (any of the last {gap}, or none) used and calls ensure_address_gap - WHILE THE LOCK IS HELD.  That call does not return "
        f"before the lock was released and it has looked at the chain: afterwards the last {gap} addresses are unused, indices are "
        f"consecutive, the chain reaches {gap} beyond the address used meanwhile, the second call generated and announced exactly the "
        f"missing addresses (nothing when nothing got used), keys were written under the lock and the lock is free.  (Task 1's wait is "
        f"represented by re-taking the lock after its writes - a task suspended inside an await cannot be held on the symbolic side; the "
        f"reply is a task that releases the lock.)")
    proof("C09", f"gap.call-while-locked[{gap}]")(GapRace)


for _g in (1, 2, 3):
    make_gap_race_proof(_g)


# ====================================================================== (e) what _transaction_io writes for one address

class IoCursor:
    def fetchall(self):
        return []


class IoConn:
    """records the statements _transaction_io executes (the SQL text is built by the real _insert_sql)"""

    def __init__(self):
        self.statements = []

    def execute(self, sql, values=()):
        self.statements.append((sql, list(values)))
        return IoCursor()


class IoHeaders:
    def estimated_julian_day(self, height):
        return 2450000 + height // 576


class IoLedger:
    """address <-> hash160 is a bijection (Base58Check, C06): an address is modelled as the tagged hash"""

    def __init__(self):
        self.headers = IoHeaders()

    def hash160_to_address(self, h160):
        return ('pubkey-address', h160)

    def hash160_to_script_address(self, h160):
        return ('script-address', h160)


def io_rows(statements, table):
    """rows written into `table` as dicts column -> value (column list parsed from the INSERT text)"""
    out = []
    for sql, values in statements:
        head = sql.split(' (')[0]
        if head.endswith('INTO ' + table):
            cols = sql.split(' (')[1].split(')')[0].split(', ')
            out.append(dict(zip(cols, values)))
    return out


def io_scenario(txhash, h0, a0, h1, a1, sh, a2, spent0, g0, b0, spent1, g1, b1, height):
    db = Database(':memory:')
    db.ledger = IoLedger()
    src0 = Transaction(height=3).add_outputs([Output.pay_pubkey_hash(b0, g0)])
    src1 = Transaction(height=4).add_outputs([Output.pay_script_hash(1, b'\x05' * 20), Output.pay_pubkey_hash(b1, g1)])
    i0, i1 = Input.spend(src0.outputs[0]), Input.spend(src1.outputs[1])
    tx = Transaction(height=height).add_inputs([i0, i1]).add_outputs(
        [Output.pay_pubkey_hash(a0, h0), Output.pay_script_hash(a2, sh), Output.pay_pubkey_hash(a1, h1)])
    ids = (tx.id, src0.outputs[0].id, src1.outputs[1].id)
    if not spent0:      # the wallet could not resolve this input (its source is not in this address's history)
        i0.txo_ref = TXORef(src0.outputs[0].tx_ref, 0)
    if not spent1:
        i1.txo_ref = TXORef(src1.outputs[1].tx_ref, 1)
    conn = IoConn()
    db._transaction_io(conn, tx, ('pubkey-address', txhash), txhash)
    return conn.statements, ids


H160 = TBytes(length=20)
AMT = TInt(0, 21 * 10 ** 14)


@proof("C09", "transaction_io.rows")
class TransactionIo:
    """Database._transaction_io (with tx_to_row, txo_to_row, _insert_sql) on a transaction with two P2PKH outputs and a P2SH output
    of symbolic hashes and amounts and two inputs, each resolved to a P2PKH output of a symbolic hash or left unresolved, saved
    for an ARBITRARY address hash: every output paying the address gets a txo row (id txid:n, that address, its amount and
    position); every resolved input spending an output of the address gets a txi row naming that output; no row claims the
    address for an output paying somebody else; the transaction row carries the height"""
    inputs = dict(txhash=H160, h0=H160, a0=AMT, h1=H160, a1=AMT, sh=H160, a2=AMT, spent0=TBool(), g0=H160, b0=AMT,
                  spent1=TBool(), g1=H160, b1=AMT, height=TInt(-1, 10 ** 7))
    timeout = 6
    note = "64 seeded combinations of equal / different hashes and resolved / unresolved inputs"

    def run(txhash, h0, a0, h1, a1, sh, a2, spent0, g0, b0, spent1, g1, b1, height):
        return io_scenario(txhash, h0, a0, h1, a1, sh, a2, spent0, g0, b0, spent1, g1, b1, height)

    def ensures_outputs_paying_the_address_are_recorded(txhash, h0, a0, h1, a1, result):
        rows = io_rows(result[0], 'txo')
        txid = result[1][0]
        ok = True
        for n, h, a in ((0, h0, a0), (2, h1, a1)):
            if h == txhash:
                ok = ok and len([r for r in rows if r['txoid'] == '%s:%d' % (txid, n) and r['txid'] == txid and r['position'] == n
                                 and r['amount'] == a and r['address'] == ('pubkey-address', txhash)]) == 1
        return ok

    def ensures_spends_of_the_address_are_recorded(txhash, spent0, g0, spent1, g1, result):
        rows = io_rows(result[0], 'txi')
        txid = result[1][0]
        ok = True
        for k, spent, g in ((0, spent0, g0), (1, spent1, g1)):
            if spent and g == txhash:
                ok = ok and len([r for r in rows if r['txoid'] == result[1][1 + k] and r['txid'] == txid
                                 and r['address'] == ('pubkey-address', txhash) and r['position'] == k]) == 1
        return ok

    def ensures_nothing_foreign_is_booked_on_the_address(txhash, h0, h1, spent0, g0, spent1, g1, result):
        ok = True
        for r in io_rows(result[0], 'txo'):
            mine = r['address'] == ('pubkey-address', txhash)
            ok = ok and (not mine or (r['position'] == 0 and h0 == txhash) or (r['position'] == 2 and h1 == txhash))
        for r in io_rows(result[0], 'txi'):
            ok = ok and ((r['position'] == 0 and spent0 and g0 == txhash) or (r['position'] == 1 and spent1 and g1 == txhash))
        return ok

    def ensures_transaction_row_carries_the_height(height, result):
        rows = io_rows(result[0], 'tx')
        return len(rows) == 1 and rows[0]['txid'] == result[1][0] and rows[0]['height'] == height

    def samples():
        import random
        r = random.Random(9)
        hs = [bytes([k]) * 20 for k in (1, 2, 3)]
        for k in range(64):
            yield dict(txhash=hs[0], h0=r.choice(hs), a0=r.randint(0, 10 ** 9), h1=r.choice(hs), a1=r.randint(0, 10 ** 9), sh=r.choice(hs), a2=5,
                       spent0=r.random() < 0.6, g0=r.choice(hs), b0=r.randint(1, 10 ** 9), spent1=r.random() < 0.6, g1=r.choice(hs),
                       b1=r.randint(1, 10 ** 9), height=r.choice([-1, 0, 1, 700000]))


# ====================================================================== (f) input resolution against the pending batch and the database

class RTxRef:
    def __init__(self, txid):
        self.id = txid


class RTxoRef:
    def __init__(self, txid, position, txo):
        self.tx_ref = RTxRef(txid)
        self.position = position
        self.txo = txo
        self.id = '%s:%d' % (txid, position)


class RInput:
    def __init__(self, txid, position):
        self.txo_ref = RTxoRef(txid, position, None)        # as deserialised from the raw transaction: id and position only


class ROutput:
    def __init__(self, txid, position, amount, origin):
        self.id = '%s:%d' % (txid, position)
        self.amount = amount
        self.origin = origin
        self.ref = RTxoRef(txid, position, self)


class RTx:
    def __init__(self, txid, amounts, origin, inputs=()):
        self.id = txid
        self.outputs = [ROutput(txid, k, amounts[k], origin) for k in range(len(amounts))]
        self.inputs = list(inputs)


class ResolveDb:
    """call-site contract of the two queries _sync makes: outputs by id, a transaction by id"""

    def __init__(self, txos, txs):
        self.txos, self.txs = txos, txs

    async def get_txos(self, txoid__in=None, order_by=None, no_tx=False):
        await asyncio.sleep(0)
        return [t for t in self.txos if t.id in txoid__in]

    async def get_transaction(self, txid=None):
        await asyncio.sleep(0)
        for t in self.txs:
            if t.id == txid:
                return t
        return None


class ResolveLedger:
    _sync = Ledger._sync

    def __init__(self, db):
        self.db = db


async def resolve_scenario(where0, hist0, p0, where1, x0, x1, y0, y1):
    a_id, c_id, b_id = TXIDS[0], TXIDS[1], TXIDS[2]
    spender = RTx(b_id, [1], 'batch', [RInput(a_id, p0), RInput(c_id, 1)])
    pending = {b_id: spender}
    db_txos, db_txs = [], []
    for txid, where, amounts in ((a_id, where0, [x0, x1]), (c_id, where1, [y0, y1])):
        if where == 'pending':
            pending[txid] = RTx(txid, amounts, 'pending')
        elif where == 'db-output':
            db_txos += RTx(txid, amounts, 'db-output').outputs
        elif where == 'db-transaction':
            db_txs.append(RTx(txid, amounts, 'db-transaction'))
    history = {b_id, c_id}
    if hist0:
        history.add(a_id)
    await ResolveLedger(ResolveDb(db_txos, db_txs))._sync(spender, history, pending)
    out = []
    for txi in spender.inputs:
        t = txi.txo_ref.txo
        out.append(None if t is None else (t.id, t.amount, t.origin))
    return out


@proof("C09", "sync.input-resolution")
class InputResolution:
    """BOUNDED stand-in (engine gap C09_4: `check_db_for_txos[txi] = ...` uses a heap object as dictionary key): the real
    Ledger._sync on a transaction with two inputs whose source transactions are, independently, in the pending batch, in the
    database as stored outputs, in the database as a transaction only, or nowhere: an input whose source is in the address's
    history and available anywhere ends up resolved to exactly that output (id, amount, taken from where it is); an input
    whose source is nowhere stays unresolved without an error"""
    bounded_only = True
    inputs = dict(where0=TStr(), hist0=TBool(), p0=TInt(0, 1), where1=TStr(), x0=AMT, x1=AMT, y0=AMT, y1=AMT)
    note = "all 64 combinations of locations, history membership and output position"

    def run(where0, hist0, p0, where1, x0, x1, y0, y1):
        return asyncio.run(resolve_scenario(where0, hist0, p0, where1, x0, x1, y0, y1))

    def ensures_available_sources_are_resolved_to_the_right_output(where0, hist0, p0, where1, x0, x1, y0, y1, result):
        ok = True
        if hist0 and where0 != 'nowhere':
            ok = ok and result[0] == ('%s:%d' % (TXIDS[0], p0), (x0, x1)[p0], where0)
        if where1 != 'nowhere':
            ok = ok and result[1] == ('%s:%d' % (TXIDS[1], 1), y1, where1)
        return ok

    def ensures_unavailable_sources_stay_unresolved(where0, where1, result):
        return (where0 != 'nowhere' or result[0] is None) and (where1 != 'nowhere' or result[1] is None)

    def samples():
        w = ('pending', 'db-output', 'db-transaction', 'nowhere')
        for where0 in w:
            for hist0 in (False, True):
                for p0 in (0, 1):
                    for where1 in w:
                        yield dict(where0=where0, hist0=hist0, p0=p0, where1=where1, x0=11, x1=12, y0=21, y1=22)


# ====================================================================== (d) exception freedom of output classification (bounded)

MINE_HASH = b'\x07' * 20
PLACEHOLDER_HASH = b'\x11' * 20
_REAL = {}


def f10_non_template(script):
    """known finding F10: the script matches none of OutputScript's templates (the script parser refuses it)"""
    try:
        OutputScript(script).parse()
        return False
    except Exception:       # noqa  (ValueError 'No matching templates', struct.error on a truncated PUSHDATA length)
        return True


def is_utf8(name):
    try:
        name.decode()
        return True
    except UnicodeDecodeError:
        return False


def f10b_claim_name_not_utf8(script):
    """known finding F10b: a claim / update / support template script whose claim name is not valid UTF-8"""
    if f10_non_template(script):
        return False
    s = OutputScript(script)
    return s.is_claim_involved and not is_utf8(s.values['claim_name'])


def _real_ledger():
    """a real Ledger around an unopened Database, only for hash160_to_address / headers (classification needs nothing else)"""
    if 'ledger' not in _REAL:
        from lbry.wallet import Headers
        from lbry.wallet.stream import StreamController

        class _Net:
            on_header = StreamController().stream
            on_status = StreamController().stream

        async def make():       # the constructor wants a current event loop (TaskGroup)
            return Ledger({'db': Database(':memory:'), 'headers': Headers(':memory:'), 'network': _Net()})
        _REAL['ledger'] = asyncio.run(make())
    return _REAL['ledger']


def script_corpus():
    """script shapes: every template with sample values, EVERY truncation of each of them, trailing garbage, all one-byte scripts,
    bare multisig, OP_RETURN forms, truncated PUSHDATA1/2/4, segwit v0 / v1 programs, P2PK with a 65-byte key, wrong hash lengths,
    and template scripts with hostile VALUES (names that are empty / 300 bytes / non-ASCII / not UTF-8; undecodable payloads)"""
    from lbry.schema.claim import Claim
    h = PLACEHOLDER_HASH
    claim = Claim()
    claim.stream.title = 't'
    sample = {'pubkey': b'\x02' * 33, 'pubkey_hash': h, 'script_hash': h, 'data': b'data', 'claim_name': b'name', 'claim': claim.to_bytes(),
              'claim_id': b'\x22' * 20, 'support': b''}
    out = []
    for t in OutputScript.templates:
        src = OutputScript(template=t, values={op.name: sample[op.name] for op in t.opcodes if hasattr(op, 'name')}).source
        out += [src[:k] for k in range(len(src) + 1)] + [src + b'\x00', src + b'\x75']
    out += [bytes([b]) for b in range(256)]
    out += [bytes.fromhex(x) for x in (
        '5121' + '02' * 33 + '51ae', '5221' + '02' * 33 + '21' + '03' * 33 + '21' + '02' * 33 + '53ae', '6a', '6a00', '6a0101', '6a0101010102',
        '4c', '4c05aa', '4d', '4d01', '4d0100', '4d0200aa', '4e', '4e010000', '4e01000000', '4e0100000041', '0014' + '11' * 20,
        '0020' + '11' * 32, '5120' + '11' * 32, '41' + '04' * 65 + 'ac', '76a914' + '11' * 19 + '88ac', '76a915' + '11' * 21 + '88ac',
        'a914' + '11' * 20 + '8700')]
    for name in (b'\xff\xfe', b'', b'a' * 300, 'ünï'.encode(), b'ok\xc3', b'\x00'):
        for payload in (b'', b'\x00', b'\xff' * 10, claim.to_bytes(), b'\x01' + b'\x02' * 100):
            out.append(OutputScript(template=OutputScript.CLAIM_NAME_PUBKEY, values={'claim_name': name, 'claim': payload, 'pubkey_hash': h}).source)
            out.append(OutputScript(template=OutputScript.UPDATE_CLAIM_PUBKEY,
                                    values={'claim_name': name, 'claim_id': b'\x01', 'claim': payload, 'pubkey_hash': h}).source)
            out.append(OutputScript(template=OutputScript.SUPPORT_CLAIM_DATA_PUBKEY,
                                    values={'claim_name': name, 'claim_id': b'\x01' * 20, 'support': payload, 'pubkey_hash': h}).source)
        out.append(OutputScript(template=OutputScript.SUPPORT_CLAIM_PUBKEY, values={'claim_name': name, 'claim_id': b'', 'pubkey_hash': h}).source)
        out.append(OutputScript(template=OutputScript.CLAIM_NAME_SCRIPT, values={'claim_name': name, 'claim': b'', 'script_hash': h}).source)
    out += [OutputScript.return_data(d).source for d in (b'P' + b'\x00' * 5, b'P', b'\xff' * 80)]
    seen = set()
    for s in out:
        if s not in seen:
            seen.add(s)
            yield s


def classify_scenario(script, first, spends_mine, to_me):
    """a confirmed transaction, as received from the server (raw bytes), that pays 777 to the wallet address and carries one more
    output with `script` (paying the wallet itself when to_me: the placeholder hash is replaced), saved for the wallet address"""
    import sqlite3
    ledger = _real_ledger()
    address = ledger.hash160_to_address(MINE_HASH)
    conn = sqlite3.connect(':memory:')
    conn.executescript(Database.CREATE_TABLES_QUERY)
    funding = Transaction(height=3).add_outputs([Output.pay_pubkey_hash(10 ** 8, MINE_HASH if spends_mine else b'\x33' * 20)])
    if to_me:
        script = script.replace(PLACEHOLDER_HASH, MINE_HASH)
    other, mine = Output(12345, OutputScript(script)), Output.pay_pubkey_hash(777, MINE_HASH)
    built = Transaction(height=5).add_inputs([Input.spend(funding.outputs[0])]).add_outputs([other, mine] if first else [mine, other])
    tx = Transaction(built.raw, height=5)
    if spends_mine:
        tx.inputs[0].txo_ref = funding.outputs[0].ref
    try:
        ledger.db._transaction_io(conn, tx, address, MINE_HASH)
        return [tuple(r) for r in conn.execute("select address, amount, position from txo order by position").fetchall()], address
    finally:
        conn.close()


class _Classification:
    inputs = dict(script=TBytes(), first=TBool(), spends_mine=TBool(), to_me=TBool())
    bounded_only = True

    def run(script, first, spends_mine, to_me):
        return classify_scenario(script, first, spends_mine, to_me)

    def ensures_own_output_recorded_and_nothing_foreign_booked_on_the_address(script, first, to_me, result):
        rows, address = result
        mine = [r for r in rows if r[0] == address]
        pays_me = to_me and OutputScript(script.replace(PLACEHOLDER_HASH, MINE_HASH)).values.get('pubkey_hash') == MINE_HASH
        expected = [(address, 777, 1 if first else 0)] + ([(address, 12345, 0 if first else 1)] if pays_me else [])
        return sorted(mine) == sorted(expected)


def _classification_samples(keep, placements=None):
    for s in script_corpus():
        if keep(s):
            for first in (True, False):
                for spends_mine in (False, True):
                    for to_me in (False, True):
                        if placements is None or (first, spends_mine, to_me) in placements:
                            yield dict(script=s, first=first, spends_mine=spends_mine, to_me=to_me)


@proof("C09", "classification.any-script")
class Classification(_Classification):
    """BOUNDED stand-in (the tokenizer loop over arbitrary bytes is outside the generator's reach): the real Database._transaction_io
    / txo_to_row / tx_to_row on a real sqlite connection, for a transaction that pays the wallet and carries one more output with an
    ARBITRARY script (before or after ours; the transaction spending from the wallet or not; the extra output paying a third party
    or the wallet): nothing is raised, our output is recorded, nothing foreign is booked on our address.
    Excludes exactly the inputs of known findings F10 (script matches no template) and F10b (claim name not UTF-8)."""
    note = "corpus of script shapes (see script_corpus) x position x spends-from-wallet x pays-wallet, minus the known-finding inputs"

    def requires(script):
        return not f10_non_template(script) and not f10b_claim_name_not_utf8(script)

    def samples():
        yield from _classification_samples(lambda s: not f10_non_template(s) and not f10b_claim_name_not_utf8(s))


@proof("C09", "classification.known-F10")
class ClassificationF10(_Classification):
    """KNOWN FINDING F10 kept alive: the same clause on the scripts that match no template (every truncation of every template, bare
    multisig, OP_RETURN with two pushes, truncated PUSHDATA...): the real code raises ValueError / struct.error"""
    note = "the non-template part of the corpus (about 630 scripts) x 2 placements (before ours / after ours in a spend from the wallet)"

    def requires(script):
        return f10_non_template(script)

    def samples():
        yield from _classification_samples(f10_non_template, ((True, False, False), (False, True, False)))


@proof("C09", "classification.known-F10b")
class ClassificationF10b(_Classification):
    """KNOWN FINDING F10b kept alive: the same clause on claim / update / support template scripts whose name is not valid UTF-8:
    UnicodeDecodeError from txo.claim_name whenever the output has to be stored (pays the wallet, or the wallet spends)"""
    note = "claim, update and support scripts named ff fe / 'ok' c3, x 8 placements"

    def requires(script):
        return f10b_claim_name_not_utf8(script)

    def samples():
        yield from _classification_samples(f10b_claim_name_not_utf8)


# ====================================================================== convergence: the real Ledger + Database + Account, fake server

SEED = "carbon smart garage balance margin twelve chest sword toast envelope bottom stomach absent"
MINE_KINDS = ('plain', 'plain', 'plain', 'stream', 'channel', 'support', 'update')
OTHER_KINDS = ('p2pkh', 'p2sh', 'p2pk', 'segwit', 'data', 'claim_other', 'support_other', 'claim_p2sh')
PAYS_A_KEY_HASH = ('plain', 'stream', 'channel', 'support', 'update', 'p2pkh', 'claim_other', 'support_other')


def double_sha256(b):
    return hashlib.sha256(hashlib.sha256(b).digest()).digest()


def merkle_root_and_branch(hashes, index):
    """Bitcoin merkle tree (protocol definition): pairwise double-SHA256, an odd element is paired with itself"""
    branch, layer, idx = [], list(hashes), index
    while len(layer) > 1:
        if len(layer) % 2:
            layer.append(layer[-1])
        branch.append(layer[idx ^ 1])
        layer = [double_sha256(layer[i] + layer[i + 1]) for i in range(0, len(layer), 2)]
        idx //= 2
    return layer[0], branch


def describe_chain(seed, gaps, stages, third_party_script=None):
    """THE CHAIN DEFINITION (oracle side, purely descriptive): transactions as dict(no, ins, outs) with
    ins = ('ext', k) | ('tx', no, n) and outs = (kind, owner, amount), owner = ('mine', chain, index) | ('other', k); and the plan:
    per stage which transactions appear, how many blocks are mined and how eagerly the mempool is confirmed.
    Wallet addresses are chosen within the gap limit beyond the highest index used so far (often exactly at the limit) or re-used."""
    import random
    r = random.Random(seed)
    txs, unspent_mine, plan = [], [], []
    max_used = {0: -1, 1: -1}
    ext = [0]

    def mine_owner(chain):
        hi = max_used[chain] + gaps[chain]
        pick = r.random()
        if pick < 0.3:
            idx = hi                                    # the furthest address the gap rule lets the wallet find
        elif pick < 0.5 and max_used[chain] >= 0:
            idx = r.randint(0, max_used[chain])         # address re-use
        else:
            idx = r.randint(0, hi)
        max_used[chain] = max(max_used[chain], idx)
        return ('mine', chain, idx)

    def other_out():
        ext[0] += 1
        return (r.choice(OTHER_KINDS) if third_party_script is None else third_party_script, ('other', ext[0]), r.randint(1000, 10 ** 7))

    for s in range(stages):
        new = []
        for _ in range(r.randint(1, 4)):
            no, outs = len(txs), []
            if unspent_mine and r.random() < 0.6:
                chosen = r.sample(unspent_mine, r.randint(1, min(3, len(unspent_mine))))
                for c in chosen:
                    unspent_mine.remove(c)
                ins = [('tx', c[0], c[1]) for c in chosen]
                total = sum(txs[c[0]]['outs'][c[1]][2] for c in chosen)
                if r.random() < 0.8:
                    outs.append(other_out())
                if r.random() < 0.8:
                    outs.append(('plain', mine_owner(1), max(1, total // 3)))       # change
                if r.random() < 0.4:
                    outs.append((r.choice(MINE_KINDS), mine_owner(0), max(1, total // 4)))
                if not outs:
                    outs.append(other_out())
            else:
                ext[0] += 1
                ins = [('ext', ext[0])]
                for _ in range(r.randint(1, 3)):
                    outs.append((r.choice(MINE_KINDS), mine_owner(0), r.randint(10 ** 5, 10 ** 9)))
                if r.random() < 0.5:
                    outs.append(other_out())
            r.shuffle(outs)
            txs.append(dict(no=no, ins=ins, outs=outs))
            unspent_mine += [(no, j) for j, o in enumerate(outs) if o[1][0] == 'mine']
            new.append(no)
        plan.append(dict(new=new, blocks=r.randint(0, 2), confirm=r.random()))
    return txs, plan


def make_output(kind, amount, h160, k, claim_name=None):
    from lbry.schema.claim import Claim
    name = claim_name if claim_name is not None else b'name%d' % (k % 5)
    if kind in ('plain', 'p2pkh'):
        return Output.pay_pubkey_hash(amount, h160)
    if kind in ('stream', 'channel', 'update', 'claim_other', 'claim_p2sh'):
        claim = Claim()
        if kind == 'channel':
            claim.channel.public_key_bytes = b'\x02' + bytes([k % 256]) * 32
        else:
            claim.stream.title = 'title %d' % k
        if kind == 'update':
            return Output(amount, OutputScript.pay_update_claim_pubkey_hash(name, bytes([k % 256]) * 20, claim, h160))
        if kind == 'claim_p2sh':
            return Output(amount, OutputScript(template=OutputScript.CLAIM_NAME_SCRIPT, values={'claim_name': name, 'claim': claim, 'script_hash': h160}))
        return Output(amount, OutputScript.pay_claim_name_pubkey_hash(name, claim, h160))
    if kind in ('support', 'support_other'):
        return Output(amount, OutputScript.pay_support_pubkey_hash(name, bytes([k % 256]) * 20, h160))
    if kind == 'p2sh':
        return Output.pay_script_hash(amount, h160)
    if kind == 'p2pk':
        return Output(amount, OutputScript(template=OutputScript.PAY_PUBKEY_FULL, values={'pubkey': b'\x03' + h160 + b'\x01' * 12}))
    if kind == 'segwit':
        return Output(amount, OutputScript(template=OutputScript.PAY_SEGWIT, values={'script_hash': h160}))
    if kind == 'data':
        return Output(0, OutputScript.return_data(b'third-party data %d' % k))
    if isinstance(kind, bytes):
        return Output(amount, OutputScript(kind))
    raise ValueError(kind)


class FakeServer:
    """stands in for ledger.network: the address-history protocol of a wallet server over a chain that only grows.
    History of an address: the transactions with an output paying it or an input spending such an output - confirmed ones by
    (height, position in block), then the mempool in arrival order with height 0, or -1 when a parent is unconfirmed;
    status: hex SHA-256 of the "txid:height:" string, None for no history.  Which transaction touches which address comes from
    the chain DEFINITION, not from parsing scripts.  Every call yields to the event loop a random number of times."""

    def __init__(self, rnd):
        from lbry.wallet.stream import StreamController
        self.rnd = rnd
        self.height = 0
        self.merkle_roots = {0: b'00' * 32}
        self.block_txs = {}
        self.tx, self.where, self.touch, self.parents = {}, {}, {}, {}
        self.mempool, self.subscribed, self.notified = [], [], {}
        self._on_status_controller = StreamController()
        self.on_status = self._on_status_controller.stream
        self.on_header = StreamController().stream
        self.is_connected = True
        self.client = None
        self.calls = 0
        self.asked = []
        self.after_reply = None
        self.before_subscribe_reply = None

    async def _yield(self):
        self.calls += 1
        for _ in range(self.rnd.randint(0, 3)):
            await asyncio.sleep(0)

    # ---- chain growth
    def add_mempool(self, tx, touches, parents):
        self.tx[tx.id] = tx
        self.where[tx.id] = None
        self.mempool.append(tx.id)
        self.touch[tx.id] = set(touches)
        self.parents[tx.id] = set(parents)

    def mine_block(self, eagerness):
        from binascii import hexlify
        self.height += 1
        ordered = []
        for t in list(self.mempool):        # arrival order is a topological order; a transaction is mined with or after its parents
            if self.rnd.random() < eagerness and all(self.where.get(p, 0) is not None or p in ordered for p in self.parents[t]):
                ordered.append(t)
        for pos, t in enumerate(ordered):
            self.where[t] = (self.height, pos)
            self.mempool.remove(t)
        root = merkle_root_and_branch([self.tx[t].hash for t in ordered], 0)[0] if ordered else b'\x00' * 32
        self.merkle_roots[self.height] = hexlify(root[::-1])
        self.block_txs[self.height] = ordered

    def height_of(self, txid):
        w = self.where[txid]
        if w is not None:
            return w[0]
        return -1 if any(self.where.get(p, 0) is None for p in self.parents[txid]) else 0

    def history(self, address):
        conf = sorted((self.where[t], t) for t in self.tx if self.where[t] is not None and address in self.touch[t])
        return [(t, w[0]) for w, t in conf] + [(t, self.height_of(t)) for t in self.mempool if address in self.touch[t]]

    def status(self, address):
        h = self.history(address)
        return hashlib.sha256(server_history_string(h).encode()).hexdigest() if h else None

    # ---- what the ledger calls
    async def retriable_call(self, function, *args, **kwargs):
        return await function(*args, **kwargs)

    async def subscribe_address(self, address, *addresses):
        await self._yield()
        if self.before_subscribe_reply is not None:     # the reply may be held back while other things happen
            await self.before_subscribe_reply((address,) + addresses)
        out = []
        for a in (address,) + addresses:
            if a not in self.subscribed:
                self.subscribed.append(a)
            self.notified[a] = self.status(a)
            out.append(self.notified[a])
        return out

    async def get_history(self, address):
        await self._yield()
        reply = [{'tx_hash': t, 'height': n} for t, n in self.history(address)]
        self.asked.append(address)
        if self.after_reply is not None:        # the chain may grow while the answer travels: the asker's update is in flight
            self.after_reply(address)
            await self._yield()
        return reply

    def _merkle(self, txid):
        from binascii import hexlify
        w = self.where[txid]
        if w is None:
            return {'block_height': -1}
        branch = merkle_root_and_branch([self.tx[t].hash for t in self.block_txs[w[0]]], w[1])[1]
        return {'block_height': w[0], 'pos': w[1], 'merkle': [hexlify(b[::-1]).decode() for b in branch]}

    async def get_merkle(self, txid, height):
        await self._yield()
        return self._merkle(txid)

    async def get_transaction_batch(self, txids, restricted=True):
        from binascii import hexlify
        await self._yield()
        reply = {t: (hexlify(self.tx[t].raw).decode(), self._merkle(t)) for t in txids}
        if self.after_reply is not None and self.asked:
            self.after_reply(self.rnd.choice(self.asked[-3:]))
            await self._yield()
        return reply

    # ---- notifications
    def pending_notifications(self):
        out = []
        for a in self.subscribed:
            s = self.status(a)
            if s != self.notified.get(a):
                self.notified[a] = s
                out.append((a, s))
        return out

    def notify(self, update):
        self._on_status_controller.add(update)


async def run_sync(seed, gaps=(4, 3), stages=4, mode='mixed', third_party_script=None, claim_name=None, in_flight=0, held_subscriptions=0):
    """build the wallet, grow the chain in stages, deliver the notifications, compare with the oracle; returns the discrepancies"""
    import os
    import random
    import shutil
    import tempfile
    from lbry.wallet import Wallet, Account, Headers

    class ChainHeaders(Headers):
        """header store filled by the fake server (merkle roots of its blocks); everything else is the real class"""

        def __len__(self):
            return server.height + 1

        async def get(self, height):
            return {'merkle_root': server.merkle_roots[height], 'block_height': height}

    rnd = random.Random(seed * 7919 + 1)
    d = tempfile.mkdtemp(prefix='c09_', dir='/dev/shm' if os.path.isdir('/dev/shm') else None)     # a real sqlite file, on RAM disk if there is one
    server = FakeServer(rnd)
    ledger = Ledger({'db': Database(os.path.join(d, 'blockchain.db')), 'headers': ChainHeaders(':memory:'), 'network': server})
    ledger.headers.checkpoints = {}
    await ledger.db.open()
    problems, failures, finished = [], [], []
    real_update = ledger.update_history

    async def recording_update(address, remote_status, address_manager=None, reattempt_update=True):
        try:        # instrumentation only: TaskGroup swallows what an update task raises
            return await real_update(address, remote_status, address_manager, reattempt_update)
        except Exception as e:      # noqa
            failures.append(f'update_history({address}) raised {type(e).__name__}: {str(e)[:80]}')
            raise
        finally:
            finished.append(address)
    ledger.update_history = recording_update
    try:
        account = Account.from_dict(ledger, Wallet(), {"seed": SEED, "address_generator": {
            'name': 'deterministic-chain', 'receiving': {'gap': gaps[0], 'maximum_uses_per_address': 1},
            'change': {'gap': gaps[1], 'maximum_uses_per_address': 1}}})
        txs, plan = describe_chain(seed, {0: gaps[0], 1: gaps[1]}, stages, third_party_script)
        addr_cache, built, owner_of = {}, {}, {}

        def address_of(owner):
            if owner not in addr_cache:
                if owner[0] == 'mine':      # BIP32 public derivation m/chain/index (C06)
                    addr_cache[owner] = account.address_managers[owner[1]].public_key.child(owner[2]).address
                    owner_of[addr_cache[owner]] = owner
                else:
                    addr_cache[owner] = ledger.hash160_to_address(hashlib.sha256(b'other%d' % owner[1]).digest()[:20])
            return addr_cache[owner]

        def build(desc):
            ins, parents, touches = [], [], []
            for i in desc['ins']:
                if i[0] == 'ext':
                    src = Transaction().add_outputs([Output.pay_pubkey_hash(10 ** 10 + i[1], hashlib.sha256(b'ext%d' % i[1]).digest()[:20])])
                    ins.append(Input.spend(src.outputs[0]))
                else:
                    ins.append(Input.spend(built[i[1]].outputs[i[2]]))
                    parents.append(built[i[1]].id)
                    if txs[i[1]]['outs'][i[2]][0] in PAYS_A_KEY_HASH:
                        touches.append(address_of(txs[i[1]]['outs'][i[2]][1]))
            outs = []
            for j, (kind, owner, amount) in enumerate(desc['outs']):
                a = address_of(owner)
                outs.append(make_output(kind, amount, ledger.address_to_hash160(a), desc['no'] * 4 + j,
                                        claim_name if owner[0] == 'mine' else None))
                if kind in PAYS_A_KEY_HASH:
                    touches.append(a)
            built[desc['no']] = Transaction().add_inputs(ins).add_outputs(outs)
            return built[desc['no']], touches, parents

        async def settle():
            for _ in range(500):
                await ledger._update_tasks.done.wait()
                await asyncio.sleep(0)
                if not len(ledger._update_tasks):
                    return
            problems.append('update tasks never settle')

        budget, last_stage = [in_flight], [False]

        def grow_while_update_in_flight(address):
            """the server accepts a payment to `address` (often re-spent at once) right after it answered a request of the update
            of that address, and notifies at once: the notification arrives while that update still holds the address lock"""
            owner = owner_of.get(address)
            if owner is None or budget[0] <= 0 or rnd.random() < (0.0 if last_stage[0] else 0.6):
                return
            budget[0] -= 1
            amount, no = rnd.randint(10 ** 5, 10 ** 8), len(txs)
            txs.append(dict(no=no, ins=[('ext', 100000 + no)], outs=[('plain', owner, amount)]))
            server.add_mempool(*build(txs[no]))
            if rnd.random() < 0.7:
                outs = [('p2pkh', ('other', 100000 + no), amount // 2)]
                if rnd.random() < 0.6:
                    used = [o[1][2] for t in txs if t['no'] in built for o in t['outs'] if o[1][:2] == ('mine', 1)]
                    outs.append(('plain', ('mine', 1, rnd.randint(0, max(used, default=-1) + gaps[1])), amount // 3))
                txs.append(dict(no=no + 1, ins=[('tx', no, 0)], outs=outs))
                server.add_mempool(*build(txs[no + 1]))
            for n in server.pending_notifications():
                server.notify(n)
        if in_flight:
            server.after_reply = grow_while_update_in_flight
        held = [held_subscriptions]

        async def hold_back_subscription_reply(addresses):
            """the wallet subscribes freshly generated addresses: ensure_address_gap of that chain is in flight and holds the generator
            lock while it waits for this reply.  Before replying the server accepts a payment to the address that was the END of the
            chain (fresh, higher than the one whose use started the top-up) and one to the address `gap` beyond it, notifies, and
            waits until the wallet has stored that history and its update has reached gap maintenance (blocked on the generator lock, or
            finished) - only then the held-back reply is sent."""
            owners = [owner_of.get(a) for a in addresses]
            if held[0] <= 0 or any(o is None for o in owners) or any(a in server.subscribed for a in addresses):
                return
            chain, end = owners[0][1], min(o[2] for o in owners) - 1
            if end < 0 or address_of(('mine', chain, end)) not in server.subscribed or server.history(address_of(('mine', chain, end))):
                return
            held[0] -= 1
            for index in (end, end + gaps[chain]):
                no = len(txs)
                txs.append(dict(no=no, ins=[('ext', 200000 + no)], outs=[('plain', ('mine', chain, index), rnd.randint(10 ** 5, 10 ** 8))]))
                server.add_mempool(*build(txs[no]))
            target = address_of(('mine', chain, end))
            before = len([a for a in finished if a == target])
            for n in server.pending_notifications():
                server.notify(n)
            manager = account.address_managers[chain]
            for _ in range(3000):
                await asyncio.sleep(0.001)
                stored = (await ledger.db.get_address(address=target) or {}).get('history') or ''
                if stored == server_history_string(server.history(target)) and \
                        (len([a for a in finished if a == target]) > before or getattr(manager.address_generator_lock, '_waiters', None)):
                    break
            for _ in range(5):
                await asyncio.sleep(0)
        if held_subscriptions:
            for chain in (0, 1):        # reverse lookup address -> (chain, index) for the addresses the wallet may generate
                for index in range(60 + 3 * gaps[chain]):
                    address_of(('mine', chain, index))
            server.before_subscribe_reply = hold_back_subscription_reply

        stale = []
        for s, step in enumerate(plan):
            for no in step['new']:
                server.add_mempool(*build(txs[no]))
            for _ in range(step['blocks']):
                server.mine_block(step['confirm'])
            if s == 0:
                await ledger.subscribe_account(account)     # the real entry point: subscribe, first statuses, gap discovery
                await settle()
                continue
            if s + 1 == len(plan):      # in the last stage nothing later can repair a lost notification: every request grows the chain
                budget[0], last_stage[0] = in_flight, True
            notes = server.pending_notifications()
            rnd.shuffle(notes)
            m = mode if mode != 'mixed' else rnd.choice(['sequential', 'concurrent', 'gather', 'deferred'])
            if m == 'deferred' and s + 1 < len(plan):
                stale += notes          # delivered late, after the chain has grown again (their statuses are stale then)
                continue
            notes, stale = stale + notes, []
            if m == 'sequential':
                for n in notes:
                    server.notify(n)
                    await settle()
            elif m == 'gather':
                await asyncio.gather(*(ledger.update_history(a, st) for a, st in notes + notes[:2]), return_exceptions=True)
                await settle()
            else:
                for n in notes + notes[:2]:     # all at once, the first two twice (same address concurrently)
                    server.notify(n)
                await settle()
        for n in stale + server.pending_notifications():
            server.notify(n)
        await settle()
        if held_subscriptions:
            # a last, deterministic round per chain, after which nothing can repair a chain left short: the LOWEST of the fresh
            # addresses is paid; its update tops the chain up by one address and waits for the subscription reply, which is held
            # back (see above) until the address that was the end of the chain is used, stored and at gap maintenance
            for chain in (0, 1):
                if gaps[chain] >= 2:
                    records = await account.address_managers[chain]._query_addresses(order_by="n asc")
                    held[0], no = 1, len(txs)
                    txs.append(dict(no=no, ins=[('ext', 300000 + no)], outs=[('plain', ('mine', chain, len(records) - gaps[chain]), 12345 + no)]))
                    server.add_mempool(*build(txs[no]))
                    for n in server.pending_notifications():
                        server.notify(n)
                    await settle()
        problems += failures[:3]

        # ---------------- the oracle, from the chain definition
        known = [t for t in txs if t['no'] in built]
        spent = {(i[1], i[2]) for t in known for i in t['ins'] if i[0] == 'tx'}
        mine_unspent = [(t['no'], j, o) for t in known for j, o in enumerate(t['outs']) if o[1][0] == 'mine' and (t['no'], j) not in spent]
        exp_spendable = sorted(f"{built[no].id}:{j}" for no, j, o in mine_unspent if o[0] == 'plain')
        exp_balance = sum(o[2] for no, j, o in mine_unspent if o[0] == 'plain')
        exp_claims = sum(o[2] for no, j, o in mine_unspent if o[0] in ('stream', 'channel', 'update'))
        exp_supports = sum(o[2] for no, j, o in mine_unspent if o[0] == 'support')
        exp_confirmed = sum(o[2] for no, j, o in mine_unspent if o[0] == 'plain' and server.where[built[no].id] is not None)
        got_utxos = sorted(u.id for u in await account.get_utxos())
        if got_utxos != exp_spendable:
            problems.append(f'spendable set differs: missing {sorted(set(exp_spendable) - set(got_utxos))[:3]} '
                            f'extra {sorted(set(got_utxos) - set(exp_spendable))[:3]}')
        bal = await account.get_balance()
        if bal != exp_balance:
            problems.append(f'balance {bal} != {exp_balance}')
        total = await account.get_balance(include_claims=True)
        if total != exp_balance + exp_claims + exp_supports:
            problems.append(f'balance incl. claims {total} != {exp_balance + exp_claims + exp_supports}')
        det = await account.get_detailed_balance()
        sub = det['reserved_subtotals']
        if (det['total'], det['available'], det['reserved'], sub['claims'], sub['supports'] + sub['tips']) != \
                (exp_balance + exp_claims + exp_supports, exp_balance, exp_claims + exp_supports, exp_claims, exp_supports):
            problems.append(f'detailed balance {det} != available {exp_balance} claims {exp_claims} supports {exp_supports}')
        cbal = await account.get_balance(confirmations=1)
        if cbal != exp_confirmed:
            problems.append(f'confirmed balance {cbal} != {exp_confirmed}')
        for tx in await account.get_transactions():
            if tx.id not in server.tx or tx.height != server.height_of(tx.id):
                problems.append(f'stored transaction {tx.id} at height {tx.height}, server: {server.height_of(tx.id) if tx.id in server.tx else None}')
        used_max = {0: -1, 1: -1}
        for t in known:
            for o in t['outs']:
                if o[1][0] == 'mine':
                    used_max[o[1][1]] = max(used_max[o[1][1]], o[1][2])
        for chain in (0, 1):
            records = await account.address_managers[chain]._query_addresses(order_by="n asc")
            ns = [rec['pubkey'].n for rec in records]
            if ns != list(range(len(ns))):
                problems.append(f'chain {chain}: address indices not consecutive {ns}')
            if len(ns) < used_max[chain] + 1 + gaps[chain]:
                problems.append(f'chain {chain}: {len(ns)} addresses, last used {used_max[chain]}, gap {gaps[chain]}: gap not kept / funds not found')
            for rec in records:
                where = f'chain {chain} n {rec["pubkey"].n}'
                if rec['address'] != address_of(('mine', chain, rec['pubkey'].n)):
                    problems.append(f'{where}: address differs from the derivation')
                exp_h = server.history(rec['address'])
                got_h = (await ledger.get_local_status_and_history(rec['address']))[1]
                if got_h != exp_h:
                    problems.append(f'{where}: stored history {got_h} != server {exp_h}')
                if (rec['used_times'] > 0) != (len(exp_h) > 0):
                    problems.append(f'{where}: used_times {rec["used_times"]} with {len(exp_h)} transactions')
                if rec['address'] not in server.subscribed:
                    problems.append(f'{where}: never subscribed')
            for rec in records[-gaps[chain]:]:
                if rec['used_times'] != 0 or server.history(rec['address']):
                    problems.append(f'chain {chain}: address {rec["pubkey"].n} among the last {gaps[chain]} is used')
        return problems[:4]
    finally:
        await ledger.db.close()
        shutil.rmtree(d, ignore_errors=True)


class _Convergence:
    bounded_only = True
    inputs = dict(seed=TInt(0, 10 ** 9), recv_gap=TInt(1, 100), change_gap=TInt(1, 100), stages=TInt(1, 20), mode=TStr(), in_flight=TInt(0, 20),
                  held=TInt(0, 20))

    def run(seed, recv_gap, change_gap, stages, mode, in_flight, held):
        return asyncio.run(run_sync(seed, (recv_gap, change_gap), stages, mode, None, None, in_flight, held))

    def ensures_wallet_equals_the_oracle(result):
        return result == []


CONVERGENCE_DOC = (
    "BOUNDED stand-in for the convergence clauses on the REAL Ledger + sqlite Database + Account with a fake wallet server in place of "
    "ledger.network: seeded random chains (funding, spending, claims, channels, supports, updates, re-spends of unconfirmed outputs, "
    "third-party outputs of every template kind, address re-use, payments at the far end of the gap), grown in stages (blocks and mempool; "
    "mempool transactions get confirmed later, heights -1 -> 0 -> n); first sync through subscribe_account, then the status "
    "notifications of every stage in random order: one by one, all at once through process_status_update (two of them twice), as gathered "
    "update_history calls, or withheld and delivered stale after the next stage; with in_flight > 0 the server also accepts a payment to "
    "an address (usually re-spent at once) right AFTER answering get_history / get_transaction_batch of the running update of that very "
    "address and notifies immediately, i.e. while that update holds the address lock (in the last stage on every request, so that "
    "nothing later can repair a lost notification); with held > 0 the reply to the subscription of freshly generated addresses - awaited "
    "by ensure_address_gap under the generator lock - is held back until the address that was the end of the chain (and the one `gap` "
    "beyond it) has been paid, notified, stored and its update has reached gap maintenance, and a last deterministic round per chain does "
    "the same from the lowest fresh address, after which nothing can repair a chain left short.  Every status is notified ONCE.  "
    "Oracle from the chain definition (final server "
    "state): stored history of every address == server history; balance / balance incl. claims / detailed balance (claims and supports "
    "apart) / confirmed balance; get_utxos() ids; stored heights; addresses consecutive, the last `gap` of each chain unused, enough of "
    "them for the furthest payment, all subscribed; no update task raised. ")


def _cases_gaps43(n):
    for seed in range(n):
        yield dict(seed=seed, recv_gap=4, change_gap=3, stages=4, mode='mixed', in_flight=3 if seed % 3 == 0 else 0, held=2 if seed % 8 == 1 else 0)


def _cases_modes(reps):
    k = 0
    for rep in range(reps):
        for gaps in ((2, 1), (3, 2), (5, 2), (6, 4)):
            for mode in ('sequential', 'concurrent', 'gather', 'deferred'):
                k += 1
                if (k + rep) % 2 == 0 or rep >= 4:
                    yield dict(seed=1000 + k, recv_gap=gaps[0], change_gap=gaps[1], stages=3 + k % 4, mode=mode, in_flight=2 * (k % 2),
                               held=1 if k % 8 == 0 else 0)


def _cases_default_gaps(n):
    for seed in range(n):
        yield dict(seed=5000 + seed, recv_gap=20, change_gap=6, stages=4, mode='mixed', in_flight=2 if seed % 4 == 0 else 0,
                   held=1 if seed % 6 == 1 else 0)


def _cases_in_flight(n):
    for seed in range(n):
        gaps = ((4, 3), (3, 2), (2, 1))[seed % 3]
        yield dict(seed=7000 + seed, recv_gap=gaps[0], change_gap=gaps[1], stages=3 + seed % 2,
                   mode=('mixed', 'concurrent', 'sequential', 'gather')[seed % 4], in_flight=2 + seed % 3, held=0)


def _cases_held(n):
    for seed in range(n):
        gaps = ((4, 3), (3, 2), (2, 2), (6, 4))[seed % 4]
        yield dict(seed=8000 + seed, recv_gap=gaps[0], change_gap=gaps[1], stages=2 + seed % 3,
                   mode=('mixed', 'concurrent', 'sequential', 'gather', 'deferred')[seed % 5], in_flight=(0, 0, 2)[seed % 3], held=1 + seed % 3)


def _convergence_proof(name, doc, note, cases, thorough=False):
    body = dict(__doc__=CONVERGENCE_DOC + doc, note=note, samples=staticmethod(cases), thorough_only=thorough)
    proof("C09", name)(type('Convergence', (_Convergence,), body))


_convergence_proof("sync.convergence[gaps 4/3]", "Receiving gap 4, change gap 3, 4 stages, mixed delivery; every third seed with in-flight growth.",
                   "40 seeds: chains of 4..16 transactions, 20..50 addresses", lambda: _cases_gaps43(40))
_convergence_proof("sync.convergence[modes]", "Each delivery mode on its own, gaps 2/1 .. 6/4, 3..6 stages; every second case with in-flight growth.",
                   "48 cases: 4 delivery modes x gaps (2,1) (3,2) (5,2) (6,4), own seeds", lambda: _cases_modes(5))
_convergence_proof("sync.convergence[default gaps 20/6]", "The default gaps of an account: receiving 20, change 6.",
                   "12 seeds, 4 stages, mixed delivery", lambda: _cases_default_gaps(12))
_convergence_proof("sync.convergence[in-flight growth]",
                   "Every case with in-flight growth: 2..4 payments (mostly re-spent at once) to the address whose update is running, notified "
                   "while that update holds the lock; gaps 4/3, 3/2, 2/1; all delivery modes.",
                   "40 seeds", lambda: _cases_in_flight(40))
_convergence_proof("sync.convergence[held subscription reply]",
                   "Every case with held-back subscription replies (gap maintenance of one chain called while another one of the same chain "
                   "is in flight), gaps 4/3, 3/2, 2/2, 6/4; all delivery modes; every third case also with in-flight growth.",
                   "28 seeds", lambda: _cases_held(28))
_convergence_proof("sync.convergence.more[held subscription reply]", "Thorough tier: more seeds of sync.convergence[held subscription reply].",
                   "400 seeds (300 s budget)", lambda: _cases_held(400), True)
_convergence_proof("sync.convergence.more[gaps 4/3]", "Thorough tier: more seeds of sync.convergence[gaps 4/3].", "700 seeds (300 s budget)",
                   lambda: _cases_gaps43(700), True)
_convergence_proof("sync.convergence.more[modes]", "Thorough tier: more cases of sync.convergence[modes].", "528 cases (300 s budget)",
                   lambda: _cases_modes(35), True)
_convergence_proof("sync.convergence.more[default gaps 20/6]", "Thorough tier: more seeds with the default gaps.", "150 seeds (300 s budget)",
                   lambda: _cases_default_gaps(150), True)
_convergence_proof("sync.convergence.more[in-flight growth]", "Thorough tier: more seeds of sync.convergence[in-flight growth].",
                   "600 seeds (300 s budget)", lambda: _cases_in_flight(600), True)


class _Hostile:
    bounded_only = True
    inputs = dict(seed=TInt(0, 10 ** 9), script=TBytes(), claim_name=TBytes())

    def run(seed, script, claim_name):
        return asyncio.run(run_sync(seed, (4, 3), 3, 'mixed', script, claim_name))

    def ensures_wallet_equals_the_oracle(result):
        return result == []


@proof("C09", "sync.unusual-outputs")
class UnusualOutputs(_Hostile):
    """BOUNDED: the same end-to-end run where EVERY third-party output carries one given script and every claim / support paying the
    wallet one given name: template scripts of unusual kinds (P2PK with a 65-byte key, witness programs, OP_RETURN, empty script, support
    to a script hash) and unusual but valid names (empty, non-ASCII, 255 bytes).  Excludes the inputs of F10 / F10b."""
    note = "6 scripts x 4 names, one seed each"

    def requires(script, claim_name):
        return not f10_non_template(script) and is_utf8(claim_name)

    def samples():
        scripts = [bytes.fromhex(x) for x in ('41' + '04' * 65 + 'ac', '0014' + '11' * 20, '0020' + '11' * 32, '6a0474657374', '')] + \
            [OutputScript(template=OutputScript.SUPPORT_CLAIM_SCRIPT, values={'claim_name': b'n', 'claim_id': b'\x01' * 20, 'script_hash': b'\x11' * 20}).source]
        k = 0
        for s in scripts:
            for name in (b'', 'ünï-名前'.encode(), b'a' * 255, b'plain'):
                k += 1
                yield dict(seed=9000 + k, script=s, claim_name=name)


@proof("C09", "sync.unusual-outputs.known-F10")
class UnusualOutputsF10(_Hostile):
    """KNOWN FINDING F10 end to end: one third-party output with a script that matches no template (bare multisig, OP_RETURN with two
    pushes, truncated PUSHDATA2) in a transaction that pays the wallet: the update task raises, the history is never stored"""
    note = "3 scripts"

    def requires(script):
        return f10_non_template(script)

    def samples():
        for k, x in enumerate(('5121' + '02' * 33 + '51ae', '6a0101010102', '4d01')):
            yield dict(seed=9100 + k, script=bytes.fromhex(x), claim_name=b'plain')


@proof("C09", "sync.unusual-outputs.known-F10b")
class UnusualOutputsF10b(_Hostile):
    """KNOWN FINDING F10b end to end: a claim / support paying a wallet address under a name that is not valid UTF-8: the update task
    of that address raises UnicodeDecodeError, its history is never stored"""
    note = "2 names"

    def requires(claim_name):
        return not is_utf8(claim_name)

    def samples():
        for k, name in enumerate((b'\xff\xfe', b'ok\xc3')):
            yield dict(seed=9200 + k, script=bytes.fromhex('76a914' + '11' * 20 + '88ac'), claim_name=name)


TRUSTED = [
    "asyncio.Lock / sleep / coroutine semantics as modelled in pyvc/pymodels.py (cooperative scheduling, nothing pre-empts between awaits)",
    "operator.itemgetter and the built-in set: the documented semantics as written in ItemGetter / ListSet above (symbolic side only)",
    "contract of Ledger.get_local_status_and_history used by the update_history proofs (first call = stored state; second call = a status "
    "and a list): cross-checked by the bounded stand-in history-string.parse-back; contract of request_synced_transactions (one "
    "transaction per requested entry, with the requested id; heights as requested - _single_batch builds Transaction(raw, height=...))",
    "call-site contract of the SQL layer used by the deductive proofs: GapDb (ORDER BY n DESC LIMIT k, INSERT OR IGNORE of unused rows), "
    "IoConn (statements are recorded, their effect is sqlite's); cross-checked on real sqlite by the bounded stand-ins",
    "address <-> hash160 is a bijection (Base58Check, C06): the transaction_io proof writes an address as the tagged hash; the oracle of "
    "the bounded runs derives wallet addresses with the real BIP32 public derivation (C06)",
    "struct / BytesIO / sha256 models of the transaction serialiser (C05) in transaction_io.rows (the txid is an uninterpreted digest)",
    "the fake server is the address-history protocol as documented (history order, mempool heights 0/-1, status = SHA-256 of "
    "'txid:height:'...); its merkle proofs are real (Bitcoin merkle tree), its header store is the real Headers class with two overrides",
]
NOT_DECIDED = [
    "the convergence clauses themselves (history of every address, balance, UTXO set, gap discovery, independence from order and "
    "interleaving) are NOT proved: only the bounded stand-ins sync.convergence[...] on seeded chains of <= ~25 transactions",
    "update_history deductively: server lists of more than 3 transactions, stored histories of more than 3 entries, more than one batch "
    "(> 100 transactions per address: outside the statement); two updates of one address: proved for the schedule the lock admits (the "
    "second runs when the first has released the lock: update_history.notification-during-update) plus 'everything under the lock'; the "
    "waiting itself (asyncio.Lock fairness, a task blocked inside acquire) is not modelled - engine gap C09_5 - real interleavings are bounded",
    "a server that re-orders or withdraws entries while every (txid, height) it lists is already stored: update_history returns without "
    "saving (warning only) - outside the statement (the server never retracts)",
    "get_local_status_and_history and _sync deductively (engine gaps C09_1, C09_4: bounded stand-ins), request_transactions / "
    "_single_batch / maybe_verify_transaction / save_transaction_io_batch per call (covered end to end by the bounded runs only)",
    "classification of ARBITRARY script bytes deductively (tokenizer loop): bounded corpus; the SQL aggregates behind get_balance / "
    "get_utxos (executed by real sqlite in the bounded runs)",
    "restart of the wallet in the middle of a sync, reorganisations, several accounts or wallets on one ledger, SingleKey accounts",
]
ASSUMPTIONS = [
    "update_history proofs: transaction ids are fixed distinct 64-hex strings (the code uses ids only for equality, as dictionary keys and "
    "in string formatting); the server lists a transaction once; fetched transactions arrive in request order or reversed",
    "the server is honest and consistent: histories only grow, a mempool transaction keeps its place until it is confirmed; it notifies "
    "every status change once (the bounded runs never re-send a notification)",
    "update_history.notification-during-update: statuses are constants per server list (SHA-256 idealised as collision free; the code only "
    "compares statuses); the stored string is mapped back to a list by syntactic equality with the renderings of the server's lists",
    "known findings F10 / F10b: the deductive and bounded main proofs exclude exactly the scripts that match no template and the claim "
    "names that are not UTF-8; the *.known-* proofs keep the witnesses alive",
]


# ------------------------------------------------------------------ "value locked in claims and supports reported apart from spendable funds"
# The balance clause rests on the type Database.txo_to_row stores for an output (txo_type 0 = spendable).  That classification is proved
# for C15 (contracts/c15.py, proof txo_to_row.classification: a claim / update output is never stored as plain, whatever its payload
# decodes to); it is registered here as well because a change to it breaks the balance clause of C09.
from contracts import c15 as _c15      # noqa: E402

proof("C09", "txo_to_row.classification")(type('TxoToRowC09', (_c15.TxoToRow,), {}))
