"""C09 — wallet sync converges to the server's history, balance and UTXO set (work in progress)
"""
import asyncio
from pyvc.api import *
from pyvc.speclib import implies
import hashlib
from lbry.wallet.account import HierarchicalDeterministic
from lbry.wallet.ledger import Ledger


# ====================================================================== (c) gap maintenance

class GapKey:
    """what the address manager reads of a BIP32 public key: the child index and the address (derivation itself: C06)"""

    def __init__(self, path):
        self.path = path
        self.n = path[len(path) - 1] if len(path) > 0 else 0
        self.address = 'address' + ''.join(['/%d' % p for p in path])

    def child(self, n):
        return GapKey(self.path + (n,))


class GapDb:
    """call-site contract of the address tables as the address manager uses them: rows (n, used_times) of one chain;
    ORDER BY n DESC|ASC LIMIT k returns the k rows of highest|lowest n in that order; add_keys inserts unused rows"""

    def __init__(self, manager_ref):
        self.rows = []
        self.manager_ref = manager_ref
        self.writes_without_lock = 0
        self.queries = []

    async def get_addresses(self, read_only=False, accounts=None, chain=None, limit=None, order_by=None):
        self.queries.append((chain, limit, order_by))
        rows = [r for r in self.rows if r['chain'] == chain]
        if order_by == "n desc":
            rows = [rows[len(rows) - 1 - i] for i in range(len(rows))]
        if limit is not None:
            rows = rows[:limit]
        return [dict(address=r['address'], used_times=r['used_times'], pubkey=r['pubkey'], chain=r['chain']) for r in rows]

    async def add_keys(self, account, chain, pubkeys):
        if not self.manager_ref[0].address_generator_lock.locked():
            self.writes_without_lock += 1
        for k in pubkeys:
            if not [r for r in self.rows if r['address'] == k.address]:
                self.rows.append(dict(address=k.address, used_times=0, pubkey=k, chain=chain))


class GapLedger:
    def __init__(self, db):
        self.db = db
        self.announced = []

    async def announce_addresses(self, address_manager, addresses):
        self.announced.append(list(addresses))


class GapAccount:
    def __init__(self, ledger):
        self.ledger = ledger
        self.public_key = GapKey(())


async def gap_scenario(gap, m, used):
    ref = [None]
    db = GapDb(ref)
    ledger = GapLedger(db)
    am = HierarchicalDeterministic(GapAccount(ledger), 1, gap, 1)
    ref[0] = am
    chain_key = GapKey((1,))
    for i in range(m):
        k = chain_key.child(i)
        db.rows.append(dict(address=k.address, used_times=used[i], pubkey=k, chain=1))
    db.rows.append(dict(address='other-chain', used_times=5, pubkey=GapKey((0, 0)), chain=0))
    new = await am.ensure_address_gap()
    after = [(r['pubkey'].n, r['used_times'], r['address']) for r in db.rows if r['chain'] == 1]
    again = await am.ensure_address_gap()
    return new, after, ledger.announced, db.writes_without_lock, am.address_generator_lock.locked(), again, len(db.rows)


def make_gap_proof(gap):
    M = gap + 2

    class Gap:
        inputs = dict(m=TOneOf(*[TConst(i) for i in range(M + 1)]), used=TList(TInt(0, 1000), n=M))
        note = f"gap {gap}: every chain length 0..{M} x every used/unused pattern"

        def run(m, used):
            return gap_scenario(gap, m, used)

        def ensures_last_gap_addresses_unused(result):
            after = result[1]
            ok = len(after) >= gap
            for r in after[len(after) - gap:]:
                ok = ok and r[1] == 0
            return ok

        def ensures_indices_consecutive_from_previous_maximum(m, used, result):
            new, after = result[0], result[1]
            ok = len(after) == m + len(new)
            for i in range(len(after)):
                ok = ok and after[i][0] == i and after[i][2] == 'address/1/%d' % i
                if i < m:
                    ok = ok and after[i][1] == used[i]
                else:
                    ok = ok and after[i][1] == 0 and new[i - m] == after[i][2]
            return ok

        def ensures_nothing_generated_when_gap_is_there(m, used, result):
            there = m >= gap
            for i in range(max(0, m - gap), m):
                there = there and used[i] == 0
            return implies(there, result[0] == [] and len(result[1]) == m and result[2] == [])

        def ensures_new_addresses_announced_for_subscription(result):
            return result[2] == ([result[0]] if result[0] else [])

        def ensures_idempotent_and_lock_discipline(m, result):
            return result[5] == [] and result[3] == 0 and result[4] == False and result[6] == len(result[1]) + 1     # noqa

        def samples():
            import itertools
            for m in range(M + 1):
                for pat in itertools.product([0, 1, 3], repeat=m):
                    yield dict(m=m, used=list(pat) + [0] * (M - m))

    Gap.__doc__ = (f"HierarchicalDeterministic.ensure_address_gap/_generate_keys, gap {gap}, against the call-site contract of the address "
                   f"tables: a chain of 0..{M} addresses with ARBITRARY used_times; afterwards the last {gap} addresses are unused, new "
                   f"indices continue the chain without holes, old rows and the other chain are untouched, nothing is generated when the "
                   f"gap is already there, what was generated is announced (subscribed), a second call generates nothing, keys are "
                   f"written under the generator lock and the lock is released")
    proof("C09", f"gap[{gap}]")(Gap)


for _g in (1, 2, 3):
    make_gap_proof(_g)



# ====================================================================== (a) update_history: diff, fetch, save under the address lock

from operator import itemgetter     # noqa: E402


class ItemGetter:
    """operator.itemgetter(k1, k2, ...) as documented: f(obj) == (obj[k1], obj[k2], ...) (two or more keys)"""

    def __init__(self, *keys):
        self.keys = keys

    def __call__(self, obj):
        return tuple([obj[k] for k in self.keys])


@model_for(itemgetter)
def _m_itemgetter(interp, st, args, kwargs):
    if len(args) < 2:
        raise Unsupported("itemgetter with a single key")
    yield from interp.instantiate(st, ItemGetter, list(args), {})


class ListSet:
    """the built-in set for elements whose equality is symbolic (tuples with symbolic heights): a duplicate-free list.
    Only the operations update_history uses; the semantics are the documented ones of set."""

    def __init__(self, items=()):
        self.items = []
        for x in items:
            if x not in self.items:
                self.items.append(x)

    def __contains__(self, x):
        return x in self.items

    def __len__(self):
        return len(self.items)

    def __iter__(self):
        return iter(self.items)

    def __sub__(self, other):
        return ListSet([x for x in self.items if x not in other.items])

    def difference(self, other):
        return ListSet([x for x in self.items if x not in other.items])

    def symmetric_difference(self, other):
        return ListSet([x for x in self.items if x not in other.items] + [x for x in other.items if x not in self.items])

    def add(self, x):
        if x not in self.items:
            self.items.append(x)


@model_for(set)
def _m_set(interp, st, args, kwargs):
    yield from interp.instantiate(st, ListSet, list(args), {})


TXIDS = ('11' * 32, '22' * 32, '33' * 32, 'ee' * 32)       # three ids the server lists + one only the wallet knows
HEIGHT = TInt()         # any integer (confirmed heights, 0 and -1 for the mempool)


class World:
    """everything the fakes share: the event log (each event with the state of the address lock when it happened)"""

    def __init__(self):
        self.lock = asyncio.Lock()
        self.lock_keys = []
        self.events = []
        self.fail_at = None

    def event(self, *what):
        self.events.append((what[0], self.lock.locked()) + tuple(what[1:]))
        if self.fail_at == what[0]:
            raise OSError('injected failure at ' + what[0])


class LockTable:
    def __init__(self, world):
        self.world = world

    def __getitem__(self, key):
        self.world.lock_keys.append(key)
        return self.world.lock


class Flags:
    def __init__(self, world):
        self.world = world

    def discard(self, x):
        self.world.event('out-of-sync.discard', x)

    def add(self, x):
        self.world.event('out-of-sync.add', x)


class SyncNetwork:
    def __init__(self, world, history):
        self.world = world
        self.history = history

    async def retriable_call(self, function, *args, **kwargs):
        return await function(*args, **kwargs)

    async def get_history(self, address):
        self.world.event('get_history', address)
        await asyncio.sleep(0)
        return [{'tx_hash': t, 'height': h} for t, h in self.history]


class SyncDb:
    def __init__(self, world):
        self.world = world

    async def set_address_history(self, address, history):
        self.world.event('save_history', address, history)
        await asyncio.sleep(0)


class SyncTx:
    def __init__(self, txid, height):
        self.id = txid
        self.height = height
        self._outputs = []


class SyncManager:
    def __init__(self, world, name):
        self.world = world
        self.name = name

    async def ensure_address_gap(self):
        self.world.event('ensure_address_gap', self.name)
        return []


class SyncLedger:
    """the attributes of Ledger that update_history touches; update_history itself is the REAL function.
    get_local_status_and_history is replaced by its contract (first call: the stored state, an input of the proof; second
    call, on the string just written: either the server's status and list again, or ANY other status with a different list -
    an over-approximation of every re-parse); request_synced_transactions by its contract (one transaction per requested
    entry, with the requested id and height, in request order or reversed, then the batch is stored)"""
    update_history = Ledger.update_history
    maybe_has_channel_key = Ledger.maybe_has_channel_key

    def __init__(self, world, remote, remote_status, local_status, local, after_same, status_after, reverse):
        self.world = world
        self.local_status, self.local = local_status, local
        self.remote, self.remote_status = remote, remote_status
        self.after_same, self.status_after, self.reverse = after_same, status_after, reverse
        self._address_update_locks = LockTable(world)
        self._known_addresses_out_of_sync = Flags(world)
        self.network = SyncNetwork(world, remote)
        self.db = SyncDb(world)
        self.accounts = []

    async def get_local_status_and_history(self, address, history=None):
        if not history:
            self.world.event('read_local', address)
            await asyncio.sleep(0)
            return self.local_status, list(self.local)
        self.world.event('reparse', address, history)
        if self.after_same:
            return self.remote_status, list(self.remote)
        return self.status_after, list(self.remote) + [(TXIDS[3], 1)]

    async def request_synced_transactions(self, to_request, remote_history, address):
        wanted = list(to_request.values())
        self.world.event('fetch', address, wanted, sorted(remote_history))
        if self.reverse:
            wanted = [wanted[len(wanted) - 1 - i] for i in range(len(wanted))]
        for txid, height in wanted:
            yield SyncTx(txid, height)
        self.world.event('batch_stored', address)

    async def get_address_manager_for_address(self, address):
        self.world.event('manager_lookup', address)
        return SyncManager(self.world, 'looked-up')


def server_history_string(remote):
    """the address history as the protocol writes it: "txid:height:" per transaction, in the server's order"""
    s = ''
    for t, h in remote:
        s = s + '%s:%d:' % (t, h)
    return s


async def sync_scenario(address, remote_status, local_status, remote, local, after_same, status_after, reverse, pass_manager, fail_at):
    world = World()
    world.fail_at = fail_at
    ledger = SyncLedger(world, remote, remote_status, local_status, local, after_same, status_after, reverse)
    manager = SyncManager(world, 'passed') if pass_manager else None
    try:
        outcome = await ledger.update_history(address, remote_status, manager)
    except OSError:
        outcome = 'failed'
    return outcome, world.events, world.lock_keys, world.lock.locked()


def events_of(events, kind):
    return [e for e in events if e[0] == kind]


def lists_of(n, shape, rs, ls):
    remote = [(TXIDS[i], rs[i]) for i in range(n)]
    local = [(TXIDS[shape[j]], ls[j]) for j in range(len(shape))]
    missing = [x for x in remote if x not in local]
    return remote, local, missing


LOCAL_SHAPES_QUICK = [(), (0,), (1,), (3,), (0, 1), (1, 0), (0, 3), (3, 0), (1, 2)]
LOCAL_SHAPES_ALL = [()] + [(a,) for a in range(4)] + [(a, b) for a in range(4) for b in range(4) if a != b] + \
    [(a, b, c) for a in range(4) for b in range(4) for c in range(4) if len({a, b, c}) == 3]


def make_update_history_proof(n, shapes, tag, pass_manager, thorough=False):
    class UpdateHistory:
        inputs = dict(address=TStr(), remote_status=TStr(), local_status=TOpt(TStr()), r0=HEIGHT, r1=HEIGHT, r2=HEIGHT,
                      shape=TOneOf(*[TConst(x) for x in shapes]), l0=HEIGHT, l1=HEIGHT, l2=HEIGHT,
                      after_same=TBool(), status_after=TStr(), reverse=TBool())
        thorough_only = thorough
        note = "12 seeded cases per stored-history shape: local history a prefix, a permutation, stale heights, foreign entries"

        def requires(remote_status, local_status):
            return local_status != remote_status

        def run(address, remote_status, local_status, r0, r1, r2, shape, l0, l1, l2, after_same, status_after, reverse):
            remote, local, missing = lists_of(n, shape, (r0, r1, r2), (l0, l1, l2))
            return sync_scenario(address, remote_status, local_status, remote, local, after_same, status_after, reverse,
                                 pass_manager, None)

        def ensures_saved_history_is_the_servers_list_for_that_address(address, r0, r1, r2, shape, l0, l1, l2, result):
            remote, local, missing = lists_of(n, shape, (r0, r1, r2), (l0, l1, l2))
            saves = events_of(result[1], 'save_history')
            ok = len(saves) <= 1
            for e in saves:
                ok = ok and e[2] == address and e[3] == server_history_string(remote)
            return ok

        def ensures_saves_whenever_the_server_lists_something_new(r0, r1, r2, shape, l0, l1, l2, result):
            remote, local, missing = lists_of(n, shape, (r0, r1, r2), (l0, l1, l2))
            return (len(events_of(result[1], 'save_history')) == 1) == (len(missing) > 0)

        def ensures_fetches_every_new_entry_and_only_server_entries(address, r0, r1, r2, shape, l0, l1, l2, result):
            remote, local, missing = lists_of(n, shape, (r0, r1, r2), (l0, l1, l2))
            fetches = events_of(result[1], 'fetch')
            if len(missing) == 0:
                return fetches == []
            ok = len(fetches) == 1 and fetches[0][2] == address and fetches[0][4] == sorted([t for t, h in remote])
            for x in missing:
                ok = ok and x in fetches[0][3]
            for x in fetches[0][3]:
                ok = ok and x in remote
            return ok

        def ensures_everything_happens_under_the_lock_of_this_address(address, result):
            ok = result[2] == [address] and result[3] == False      # noqa
            for e in result[1]:
                ok = ok and e[1] == True                            # noqa
            return ok

        def ensures_order_read_fetch_store_save_then_gap(result):
            kinds = [e[0] for e in result[1] if e[0] in ('read_local', 'get_history', 'fetch', 'batch_stored', 'save_history',
                                                          'manager_lookup', 'ensure_address_gap')]
            if 'save_history' not in kinds:
                return kinds == ['read_local', 'get_history']
            gap = [e for e in result[1] if e[0] == 'ensure_address_gap']
            return (kinds == ['read_local', 'get_history', 'fetch', 'batch_stored', 'save_history']
                    + ([] if pass_manager else ['manager_lookup']) + ['ensure_address_gap']
                    and gap[0][2] == ('passed' if pass_manager else 'looked-up'))

        def samples():
            import random
            r = random.Random(n * 100 + len(shapes))
            for shape in shapes:
                for k in range(12):
                    rs = [r.choice([-1, 0, 5, 6, 7, 100]) for _ in range(3)]
                    ls = [rs[shape[j]] if shape[j] < 3 and r.random() < 0.6 else r.choice([-1, 0, 5, 9]) for j in range(len(shape))] \
                        + [0] * (3 - len(shape))
                    yield dict(address='bAddr%d' % k, remote_status=r.choice(['aa', 'bb']), local_status=r.choice([None, 'cc']), r0=rs[0],
                               r1=rs[1], r2=rs[2], shape=shape, l0=ls[0], l1=ls[1], l2=ls[2], after_same=r.random() < 0.7, status_after='dd',
                               reverse=r.random() < 0.5)

    UpdateHistory.__doc__ = (
        f"Ledger.update_history when the stored status differs from the notified one: ANY address and statuses, a server list of {n} "
        f"transaction(s) with symbolic heights (any integer: mempool 0/-1 included) and an ARBITRARY stored history ({tag}: entries of "
        f"the server list in any order with any heights, and an entry the server does not list).  Whatever is saved is exactly the "
        f"server's list rendered 'txid:height:' in the server's order, for that address, at most once; it IS saved iff the server lists "
        f"an entry the wallet does not have; every such entry is requested, only server entries are requested, and the full id set goes "
        f"to input resolution; all reads, fetches and writes happen while the lock of this address (and no other key) is held and the "
        f"lock is free afterwards; gap maintenance runs after the save on the manager "
        f"{'passed in' if pass_manager else 'looked up for the address'}")
    proof("C09", f"update_history[{n},{tag}]")(UpdateHistory)


make_update_history_proof(0, LOCAL_SHAPES_QUICK, 'stored<=2', True)
make_update_history_proof(1, LOCAL_SHAPES_QUICK, 'stored<=2', False)
make_update_history_proof(2, LOCAL_SHAPES_QUICK, 'stored<=2', True)
make_update_history_proof(3, LOCAL_SHAPES_QUICK, 'stored<=2', True)
for _n in (1, 2, 3):
    make_update_history_proof(_n, LOCAL_SHAPES_ALL, 'stored<=3,all-shapes', _n == 2, thorough=True)


@proof("C09", "update_history.same-status")
class UpdateHistorySameStatus:
    """Ledger.update_history when the stored status equals the notified one (both None included), whatever the stored and the
    server's lists are: returns True, nothing is asked of the server, nothing is fetched, nothing is saved, no gap maintenance;
    the stored state is read under the lock of this address and the lock is free afterwards"""
    inputs = dict(address=TStr(), status=TOpt(TStr()), r0=HEIGHT, l0=HEIGHT, n=TOneOf(TConst(0), TConst(2)))
    note = "None / equal strings x empty and non-empty lists"

    def run(address, status, r0, l0, n):
        remote, local, missing = lists_of(n, (1,), (r0, 5, 6), (l0, 0, 0))
        return sync_scenario(address, status, status, remote, local, True, 'x', False, False, None)

    def ensures_nothing_fetched_nothing_saved(address, result):
        return (result[0] == True and [e[0] for e in result[1]] == ['out-of-sync.discard', 'read_local']        # noqa
                and result[1][1][2] == address)

    def ensures_under_the_lock_of_this_address(address, result):
        return result[2] == [address] and result[3] == False and result[1][1][1] == True      # noqa

    def samples():
        for status in (None, '', 'aa' * 32):
            for n in (0, 2):
                yield dict(address='bAddr', status=status, r0=7, l0=7, n=n)


@proof("C09", "update_history.failure-releases-lock")
class UpdateHistoryFailure:
    """Ledger.update_history when the server or the database fails (an OSError raised by get_history, by the batch fetch, by
    the batch store or by the history write): the error propagates, nothing is saved after the failure, and the lock of the
    address is free again (released on every path)"""
    inputs = dict(address=TStr(), remote_status=TStr(), r0=HEIGHT, r1=HEIGHT,
                  fail_at=TOneOf(TConst('read_local'), TConst('get_history'), TConst('fetch'), TConst('batch_stored'), TConst('save_history'),
                                 TConst('ensure_address_gap')))
    note = "6 failure points"

    def run(address, remote_status, r0, r1, fail_at):
        remote, local, missing = lists_of(2, (), (r0, r1, 0), (0, 0, 0))
        return sync_scenario(address, remote_status, None, remote, local, True, 'x', False, True, fail_at)

    def ensures_error_propagates_and_lock_is_released(address, fail_at, result):
        kinds = [e[0] for e in result[1]]
        return (result[0] == 'failed' and result[3] == False and result[2] == [address] and kinds[len(kinds) - 1] == fail_at      # noqa
                and (fail_at in ('save_history', 'ensure_address_gap') or 'save_history' not in kinds))

    def samples():
        for f in ('read_local', 'get_history', 'fetch', 'batch_stored', 'save_history', 'ensure_address_gap'):
            yield dict(address='bAddr', remote_status='aa', r0=5, r1=0, fail_at=f)


TRUSTED = []
NOT_DECIDED = []
ASSUMPTIONS = []
