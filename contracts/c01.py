"""C01 — blob integrity: only bytes matching the SHA-384 name are ever accepted.

Deductive part.  The real `HashBlobWriter.__init__/write/close_handle/closed/calculate_blob_hash`,
`AbstractBlob.__init__/set_length/get_blob_writer` (with its closures `remove_writer`,
`writer_finished_callback`), `save_verified_blob` (closure `update_events`), `BlobBuffer._write_blob`,
`AbstractBlob.close/delete` are symbolically executed against the asyncio model of pyvc.pymodels (futures, events,
tasks and done-callbacks queued FIFO, run only when the running coroutine yields).
  * one `write` step from an ARBITRARY writer state satisfying the writer invariant (buffer == bytes accepted so far ==
    bytes fed to the running SHA-384, len_so_far == their length, pending => shorter than the announced length): every
    earlier history and every chunking is summarised by that state (state injection through the real buffer/hash objects),
    so the clauses hold for all chunkings; `write` contains no await (checked syntactically), hence interleavings of
    several writers' chunk writes are irrelevant per writer (the write touches only its own writer and future: frame clause).
  * blob level: concurrent writers on one blob in every interleaving of their chunk writes (3 writers x 2 chunks unrolled):
    the blob becomes verified only with bytes hashing to its name, the first complete correct copy wins, every other
    writer is shut down, the completion callback fires once.
  * length bound of set_length.
Bounded part: the same scenarios on the real BlobFile in a temporary directory (file on disk == verified bytes).
"""
import asyncio
import hashlib
from pyvc.api import *
from pyvc.speclib import implies
from lbry.blob.writer import HashBlobWriter
from lbry.blob.blob_file import BlobBuffer, BlobFile, AbstractBlob
from lbry.blob import MAX_BLOB_SIZE
from lbry.error import InvalidBlobHashError, InvalidDataError


def sha384_hex(b):
    return hashlib.sha384(b).hexdigest()


def fstate(fut):
    """observable state of a future: ('pending',) ('cancelled',) ('exception', class name) ('result', value)"""
    if not fut.done():
        return ('pending', None)
    if fut.cancelled():
        return ('cancelled', None)
    err = fut.exception()
    if err is not None:
        return ('exception', type(err).__name__)
    return ('result', fut.result())


class Box:
    def __init__(self, value):
        self.value = value

    def get(self):
        return self.value


def injected_writer(expected, length_box, fut, fed):
    """a writer in the state reached after `fed` was accepted earlier, in whatever chunking (state injection through the
    writer's own buffer and hash objects)"""
    w = HashBlobWriter(expected, length_box.get, fut)
    w.buffer.write(fed)
    w._hashsum.update(fed)
    w.len_so_far = len(fed)
    return w


def writer_view(w, fut):
    return (fstate(fut), w.closed(), w.len_so_far, None if w.buffer is None else w.buffer.getvalue(), w.calculate_blob_hash())


L_T = TInt(1, MAX_BLOB_SIZE)


@proof("C01", "write.step")
class WriteStep:
    """one write from an arbitrary open writer state (future pending, fewer than L bytes accepted so far)"""
    inputs = dict(fed=TBytes(), data=TBytes(), L=L_T, expected=TStr())
    note = "announced lengths 1, 2, 5 with accepted prefix / chunk lengths 0..6, correct and corrupted hashes"

    def requires(fed, L):
        return len(fed) < L

    async def run(fed, data, L, expected):
        fut = asyncio.Future()
        w = injected_writer(expected, Box(L), fut, fed)
        w.write(data)
        view = writer_view(w, fut)
        await asyncio.sleep(0)
        return view, w.closed()

    def ensures_result_only_for_exact_matching_bytes(fed, data, L, expected, result):
        st = result[0][0]
        return implies(st[0] == 'result', st[1] == fed + data and len(st[1]) == L and sha384_hex(st[1]) == expected)

    def ensures_complete_correct_copy_is_accepted(fed, data, L, expected, result):
        st = result[0][0]
        good = len(fed) + len(data) == L and sha384_hex(fed + data) == expected
        return implies(good, st[0] == 'result' and st[1] == fed + data)

    def ensures_overlong_is_refused(fed, data, L, result):
        st = result[0][0]
        return implies(len(fed) + len(data) > L, st == ('exception', 'InvalidDataError') and result[0][1])

    def ensures_wrong_hash_is_refused(fed, data, L, expected, result):
        st = result[0][0]
        bad = len(fed) + len(data) == L and sha384_hex(fed + data) != expected
        return implies(bad, st == ('exception', 'InvalidBlobHashError') and result[0][1])

    def ensures_short_keeps_invariant(fed, data, L, result):
        view = result[0]
        short = len(fed) + len(data) < L
        return implies(short, view[0][0] == 'pending' and not view[1] and view[2] == len(fed) + len(data)
                       and view[3] == fed + data and view[4] == sha384_hex(fed + data))

    def ensures_finished_writer_is_closed(result):
        return implies(result[0][0][0] != 'pending', result[1])

    def samples():
        for L in (1, 2, 5):
            for nf in range(0, L):
                for nd in range(0, 7 - nf):
                    fed, data = bytes(range(nf)), bytes(range(10, 10 + nd))
                    for expected in (sha384_hex(fed + data), sha384_hex(b'other'), ''):
                        yield dict(fed=fed, data=data, L=L, expected=expected)


@proof("C01", "write.unknown-length")
class WriteUnknownLength:
    """a write attempted while the announced length is still unknown is refused with OSError and leaves the writer
    untouched (nothing is hashed, counted or buffered), whatever was accepted before"""
    inputs = dict(fed=TBytes(), data=TBytes(), expected=TStr(), length=TOneOf(TNone(), TConst(0)))

    async def run(fed, data, expected, length):
        fut = asyncio.Future()
        w = injected_writer(expected, Box(length), fut, fed)
        before = writer_view(w, fut)
        try:
            w.write(data)
            raised = False
        except OSError:
            raised = True
        return raised, before, writer_view(w, fut)

    def ensures_refused_and_untouched(result):
        return result[0] and result[1] == result[2]

    def samples():
        for fed in (b'', b'ab'):
            for data in (b'', b'x', b'xyz'):
                for length in (None, 0):
                    yield dict(fed=fed, data=data, expected='00', length=length)


@proof("C01", "write.after-close")
class WriteAfterClose:
    """a closed writer accepts nothing: the write raises OSError (or cancels a still pending future) and never produces a result"""
    inputs = dict(fed=TBytes(), data=TBytes(), L=L_T, expected=TStr(), how=TInt(0, 2))

    def requires(fed, L):
        return len(fed) < L

    async def run(fed, data, L, expected, how):
        fut = asyncio.Future()
        w = injected_writer(expected, Box(L), fut, fed)
        if how == 0:
            w.close_handle()                # cancels the future, drops the buffer
        elif how == 1:
            fut.cancel()                    # the done-callback closes the handle when the loop runs it
            await asyncio.sleep(0)
        else:
            fut.set_exception(InvalidDataError("x"))
            await asyncio.sleep(0)
        try:
            w.write(data)
            raised = False
        except OSError:
            raised = True
        await asyncio.sleep(0)
        return raised, fstate(fut), w.closed()

    def ensures_never_a_result(result):
        return result[1][0] != 'result' and result[2]

    def samples():
        for how in range(3):
            for data in (b'', b'abc'):
                yield dict(fed=b'a', data=data, L=4, expected=sha384_hex(b'aabc'), how=how)


@proof("C01", "write.frame")
class WriteFrame:
    """a write touches only its own writer and future: another writer of the same blob (any state) is unaffected"""
    inputs = dict(fed=TBytes(), data=TBytes(), other_fed=TBytes(), L=L_T, expected=TStr())

    def requires(fed, other_fed, L):
        return len(fed) < L and len(other_fed) < L

    async def run(fed, data, other_fed, L, expected):
        box = Box(L)
        fut, other_fut = asyncio.Future(), asyncio.Future()
        w = injected_writer(expected, box, fut, fed)
        other = injected_writer(expected, box, other_fut, other_fed)
        before = writer_view(other, other_fut)
        w.write(data)
        await asyncio.sleep(0)
        return before, writer_view(other, other_fut), box.value

    def ensures_other_writer_unchanged(L, result):
        return result[0] == result[1] and result[2] == L

    def samples():
        yield dict(fed=b'a', data=b'bc', other_fed=b'zz', L=3, expected=sha384_hex(b'abc'))
        yield dict(fed=b'', data=b'abcd', other_fed=b'a', L=3, expected=sha384_hex(b'abc'))


@proof("C01", "write.atomic")
class WriteAtomic:
    """HashBlobWriter.write and close_handle contain no await/yield: a chunk write is atomic with respect to the other tasks
    (syntactic obligation re-checked on the current source on every run; executed natively only)"""
    bounded_only = True
    note = "syntactic check of 4 methods of HashBlobWriter (exhaustive for what it states)"
    inputs = dict(dummy=TInt(0, 0))

    def run(dummy):
        import ast
        import inspect
        import textwrap
        bad = []
        for fn in (HashBlobWriter.write, HashBlobWriter.close_handle, HashBlobWriter.closed, HashBlobWriter.calculate_blob_hash):
            tree = ast.parse(textwrap.dedent(inspect.getsource(fn)))
            for node in ast.walk(tree):
                if isinstance(node, (ast.Await, ast.Yield, ast.YieldFrom, ast.AsyncFunctionDef, ast.AsyncFor, ast.AsyncWith)):
                    bad.append(fn.__name__)
        return bad

    def ensures_no_suspension_point(result):
        return result == []

    def samples():
        yield dict(dummy=0)


# ------------------------------------------------------------------ blob level: several writers, all interleavings

HASH = 'ab' * 48        # placeholder name; the harness names the blob by the hash of the good content


class Completed:
    def __init__(self):
        self.calls = 0

    def __call__(self, blob):
        self.calls += 1


INTERLEAVINGS = [
    # order in which (writer, chunk) pairs are written: writer 0 = correct copy in two chunks, 1 = corrupted, 2 = truncated + excess
    ((0, 0), (0, 1), (1, 0), (1, 1), (2, 0), (2, 1)),
    ((1, 0), (0, 0), (2, 0), (1, 1), (0, 1), (2, 1)),
    ((2, 0), (2, 1), (1, 0), (1, 1), (0, 0), (0, 1)),
    ((0, 0), (1, 0), (1, 1), (2, 0), (0, 1), (2, 1)),
    ((1, 0), (1, 1), (0, 0), (2, 0), (2, 1), (0, 1)),
    # bursts: several chunk writes arrive in ONE event-loop iteration ('y' = the loop runs its callbacks; above: after every write).
    # A loser can thus have finished on its own (corrupt / over-long copy refused) before the winner's completion callback runs.
    ((0, 0), (1, 0), (2, 0), 'y', (1, 1), (0, 1), (2, 1), 'y'),
    ((0, 0), (1, 0), (2, 0), 'y', (0, 1), (1, 1), (2, 1), 'y'),
    ((1, 0), (1, 1), (2, 0), (2, 1), (0, 0), (0, 1), 'y'),
]


async def blob_scenario(make_blob, good1, good2, bad1, bad2, trunc, excess, order):
    good = good1 + good2
    done = Completed()
    blob = make_blob(sha384_hex(good), len(good), done)
    writers = [blob.get_blob_writer('1.1.1.1', 1), blob.get_blob_writer('2.2.2.2', 2), blob.get_blob_writer('3.3.3.3', 3)]
    chunks = [(good1, good2), (bad1, bad2), (trunc, excess)]
    refused = 0
    explicit = 'y' in order
    for step in order:
        if step == 'y':
            await asyncio.sleep(0)
            continue
        wi, ci = step
        try:
            writers[wi].write(chunks[wi][ci])
        except OSError:
            refused += 1
        if not explicit:
            await asyncio.sleep(0)
    await asyncio.sleep(0)
    await asyncio.sleep(0)
    return blob, writers, done, good


def make_buffer(blob_hash, length, done):
    return BlobBuffer(asyncio.get_event_loop(), blob_hash, length, done)


def make_concurrent_proof(k):
    order = INTERLEAVINGS[k]

    async def run(good1, good2, bad1, bad2, trunc, excess):
        blob, writers, done, good = await blob_scenario(make_buffer, good1, good2, bad1, bad2, trunc, excess, order)
        stored = blob._verified_bytes.getvalue() if blob._verified_bytes is not None else None
        return (blob.get_is_verified(), stored, [w.closed() for w in writers], [fstate(w.finished)[0] for w in writers],
                len(blob.writers), done.calls, good, [good1 + good2, bad1 + bad2, trunc + excess])

    def requires(good1, good2, bad1, bad2, trunc):
        good = good1 + good2
        return (0 < len(good) <= MAX_BLOB_SIZE and len(good1) > 0 and len(good2) > 0
                and len(bad1) + len(bad2) == len(good) and sha384_hex(bad1 + bad2) != sha384_hex(good)
                and len(trunc) < len(good))

    def ensures_verified_with_exactly_the_correct_bytes(result):
        # the stored bytes are exactly those delivered by the winning writer, have the announced length and hash to the name
        # (no collision-resistance assumption: a second writer whose bytes have the same length and digest may win instead)
        verified, stored, closed, states, nwriters, calls, good, delivered = result
        # Every writer holding a result delivered a complete copy with the right digest, and the stored bytes are exactly the bytes
        # of one of them (when two complete within one event-loop iteration the first callback's writer is the one stored).
        ok = verified and stored is not None and sha384_hex(stored) == sha384_hex(good) and len(stored) == len(good)
        from_a_winner = False
        for i in range(3):
            if states[i] == 'result':
                ok = ok and sha384_hex(delivered[i]) == sha384_hex(good) and len(delivered[i]) == len(good)
                from_a_winner = from_a_winner or stored == delivered[i]
        return ok and from_a_winner

    def ensures_every_writer_shut_down(result):
        # a writer that delivered a complete correct copy holds a result (two can, when both complete within one event-loop
        # iteration: the statement shuts down PENDING writers; the stored bytes are checked against every such writer by the clause
        # above); the corrupted copy never does; nobody is left pending or registered
        verified, stored, closed, states, nwriters, calls, good, delivered = result
        winners = (1 if states[0] == 'result' else 0) + (1 if states[1] == 'result' else 0) + (1 if states[2] == 'result' else 0)
        return closed == [True, True, True] and nwriters == 0 and winners >= 1 and states[1] != 'result' \
            and 'pending' not in states

    def ensures_completion_announced_once(result):
        return result[5] == 1

    def samples():
        good1, good2 = b'hello ', b'world'
        for bad in ((b'hello ', b'worle'), (b'HELLO ', b'world')):
            for trunc, excess in ((b'hello', b' world!!'), (b'', b'hello world'), (b'hello worl', b'')):
                yield dict(good1=good1, good2=good2, bad1=bad[0], bad2=bad[1], trunc=trunc, excess=excess)

    body = dict(inputs=dict(good1=TBytes(), good2=TBytes(), bad1=TBytes(), bad2=TBytes(), trunc=TBytes(), excess=TBytes()),
                run=staticmethod(run), requires=staticmethod(requires), samples=staticmethod(samples),
                ensures_verified_with_exactly_the_correct_bytes=staticmethod(ensures_verified_with_exactly_the_correct_bytes),
                ensures_every_writer_shut_down=staticmethod(ensures_every_writer_shut_down),
                ensures_completion_announced_once=staticmethod(ensures_completion_announced_once),
                note="3 writers (correct copy in 2 chunks, corrupted copy of the same length, truncated + excess) in this interleaving",
                __doc__=f"three concurrent writers on one in-memory blob, chunk writes interleaved as {order}: the blob is verified with "
                        f"exactly the correct bytes, every other writer is shut down, completion is announced once")
    body['thorough_only'] = (k == 7)         # the single-burst interleaving has the longest path conditions: thorough tier
    proof("C01", f"concurrent[{k}]")(type('Concurrent', (), body))


for _k in range(len(INTERLEAVINGS)):
    make_concurrent_proof(_k)


@proof("C01", "never-verified-without-a-correct-copy")
class NeverVerified:
    """if no writer delivers a complete correct copy (all are corrupted, truncated or over-long) the blob never becomes verified
    and nothing is stored"""
    inputs = dict(content_hash=TBytes(), length=L_T, a1=TBytes(), a2=TBytes(), b1=TBytes(), mine=TBool())

    def requires(content_hash, length, a1, a2, b1):
        # at no write boundary has any writer delivered exactly `length` bytes hashing to the blob's name
        want = sha384_hex(content_hash)
        return (len(a1) != length or sha384_hex(a1) != want) and \
               (len(a1) + len(a2) != length or sha384_hex(a1 + a2) != want) and \
               (len(b1) != length or sha384_hex(b1) != want)

    async def run(content_hash, length, a1, a2, b1, mine):
        done = Completed()
        # (`mine`: the blob object may be one the user published earlier whose local copy was lost - what arrives from the network
        # is checked all the same)
        blob = BlobBuffer(asyncio.get_event_loop(), sha384_hex(content_hash), length, done, None, None, mine)
        wa, wb = blob.get_blob_writer('1.1.1.1', 1), blob.get_blob_writer('2.2.2.2', 2)
        for w, chunk in ((wa, a1), (wb, b1), (wa, a2)):
            try:
                w.write(chunk)
            except OSError:
                pass
            await asyncio.sleep(0)
        await asyncio.sleep(0)
        return blob.get_is_verified(), blob._verified_bytes is None, done.calls, fstate(wa.finished)[0], fstate(wb.finished)[0]

    def ensures_not_verified(result):
        return not result[0] and result[1] and result[2] == 0 and result[3] != 'result' and result[4] != 'result'

    def samples():
        for mine in (False, True):
            for a1, a2, b1 in ((b'ab', b'c', b'abd'), (b'abc', b'd', b'ab'), (b'', b'', b'abcd'), (b'xyz', b'', b'')):
                yield dict(content_hash=b'abc', length=3, a1=a1, a2=a2, b1=b1, mine=mine)


@proof("C01", "buffer.read-close-redownload")
class BufferReadCloseRedownload:
    """BOUNDED stand-in on the real BlobBuffer (an in-memory blob is handed out once: leaving the reader drops the bytes): a blob that
    was downloaded and read - with the blob closed while the reader was still open, or not - can be downloaded AGAIN, and then again
    becomes verified with exactly the delivered bytes stored and readable; a corrupted second delivery never does"""
    bounded_only = True
    note = "close during / after / without reading x second delivery correct / corrupted x 1 or 2 concurrent writers"
    inputs = dict(case=TInt())

    def run(case):
        close_mode = case % 3               # 0: no close, 1: blob.close() while the reader is open, 2: close after reading
        second_ok = (case // 3) % 2 == 0
        rivals = (case // 6) % 2 == 1
        good = b'0123456789' * 50

        async def deliver(blob, data, with_rival):
            w = blob.get_blob_writer('1.1.1.1', 1)
            r = blob.get_blob_writer('2.2.2.2', 2) if with_rival else None
            for i in range(0, len(data), 100):
                if r is not None:
                    try:
                        r.write(bytes([data[i] ^ 1]) + data[i + 1:i + 100])
                    except OSError:
                        pass
                try:
                    w.write(data[i:i + 100])
                except OSError:
                    pass
                await asyncio.sleep(0)
            await asyncio.sleep(0)
            await asyncio.sleep(0)

        async def go():
            problems = []
            blob = BlobBuffer(asyncio.get_event_loop(), sha384_hex(good), len(good))
            await deliver(blob, good, rivals)
            if not blob.get_is_verified():
                return ['first delivery of a correct copy did not verify the blob']
            with blob.reader_context() as reader:
                first = reader.read()
                if close_mode == 1:
                    blob.close()
            if close_mode == 2:
                blob.close()
            if first != good:
                problems.append('first read returned other bytes')
            second = good if second_ok else good[:-1] + b'X'
            await deliver(blob, second, rivals)
            if second_ok:
                if not blob.get_is_verified():
                    problems.append('second delivery of a correct copy did not verify the blob')
                else:
                    try:
                        with blob.reader_context() as reader:
                            if reader.read() != good:
                                problems.append('verified but other bytes are stored')
                    except Exception as e:      # noqa
                        problems.append(f'verified but the stored bytes cannot be read: {e!r}')
            elif blob.get_is_verified():
                problems.append('a corrupted second delivery verified the blob')
            return problems
        return asyncio.run(go())

    def ensures_no_problem(result):
        return result == []

    def samples():
        for case in range(12):
            yield dict(case=case)


@proof("C01", "set_length")
class SetLength:
    """the announced length of a blob can be set once, to 0..MAX_BLOB_SIZE inclusive; anything else is ignored"""
    inputs = dict(previous=TOpt(TInt(0, MAX_BLOB_SIZE)), length=TInt())
    note = "lengths -1, 0, 1, MAX-1, MAX, MAX+1 against previous None / 5"

    async def run(previous, length):
        blob = BlobBuffer(asyncio.get_event_loop(), HASH, previous)
        blob.set_length(length)
        return blob.get_length()

    def ensures_bounds(previous, length, result):
        if previous is None:
            return result == (length if 0 <= length <= MAX_BLOB_SIZE else None)
        return result == previous

    def samples():
        for previous in (None, 5):
            for length in (-1, 0, 1, 5, MAX_BLOB_SIZE - 1, MAX_BLOB_SIZE, MAX_BLOB_SIZE + 1):
                yield dict(previous=previous, length=length)


@proof("C01", "blobfile.on-disk")
class BlobFileOnDisk:
    """BOUNDED stand-in on the real BlobFile in a temporary directory: after the same three-writer scenarios the file in the blob
    directory exists iff the blob is verified and holds exactly the verified bytes; a late set_length path (length announced only
    after the blob object exists) accepts a complete correct copy of exactly MAX_BLOB_SIZE bytes"""
    bounded_only = True
    note = "5 interleavings x 6 corrupted/truncated variants on disk, plus blobs of MAX_BLOB_SIZE-1 and MAX_BLOB_SIZE bytes announced via set_length"
    inputs = dict(k=TInt(), variant=TInt())

    def run(k, variant):
        import os
        import tempfile

        async def go():
            with tempfile.TemporaryDirectory() as d:
                loop = asyncio.get_event_loop()
                if k < len(INTERLEAVINGS):
                    s = list(ConcurrentSamples())[variant]
                    blob, writers, done, good = await blob_scenario(
                        lambda h, n, cb: BlobFile(loop, h, n, cb, d), s['good1'], s['good2'], s['bad1'], s['bad2'], s['trunc'],
                        s['excess'], INTERLEAVINGS[k])
                    for _ in range(20):
                        await asyncio.sleep(0.01)
                        if blob.get_is_verified():
                            break
                else:
                    good = bytes((i * 31 + 7) % 256 for i in range(MAX_BLOB_SIZE - 1 + variant))
                    blob = BlobFile(loop, sha384_hex(good), None, None, d)
                    blob.set_length(len(good))
                    w = blob.get_blob_writer('1.1.1.1', 1)
                    half = len(good) // 2
                    w.write(good[:half])
                    w.write(good[half:])
                    await asyncio.wait_for(blob.verified.wait(), 5)
                path = os.path.join(d, blob.blob_hash)
                on_disk = open(path, 'rb').read() if os.path.isfile(path) else None
                return blob.get_is_verified(), on_disk == good, on_disk is None, sha384_hex(on_disk or b'') == blob.blob_hash
        return asyncio.run(go())

    def ensures_file_matches_name(result):
        verified, same, missing, named = result
        return verified and same and named

    def samples():
        for k in range(len(INTERLEAVINGS)):
            for variant in range(6):
                yield dict(k=k, variant=variant)
        for variant in (0, 1):
            yield dict(k=99, variant=variant)


def ConcurrentSamples():
    good1, good2 = b'hello ', b'world'
    for bad in ((b'hello ', b'worle'), (b'HELLO ', b'world')):
        for trunc, excess in ((b'hello', b' world!!'), (b'', b'hello world'), (b'hello worl', b'')):
            yield dict(good1=good1, good2=good2, bad1=bad[0], bad2=bad[1], trunc=trunc, excess=excess)


TRUSTED = [
    "hashlib.sha384: the digest is a function of the concatenation of the bytes fed (incremental == one-shot), 48 bytes; "
    "collision resistance is NOT assumed (the clauses compare digests of the same byte strings)",
    "io.BytesIO sequential semantics; asyncio.Future/Event/Task/call_soon semantics as written in pyvc/pymodels.py "
    "(FIFO ready queue, callbacks never run inside set_result/cancel)",
    "BlobFile: the executor thread writes the bytes it is given (bounded stand-in only)",
]
NOT_DECIDED = [
    "disk persistence and BlobFile paths beyond the bounded stand-in; behaviour on loop shutdown / garbage collection (__del__)",
    "interleavings of more than 3 writers / 2 chunks each at blob level (per-writer clauses hold for every chunking by the invariant)",
    "an existing file in the blob directory is trusted as verified by BlobFile.__init__ (by design)",
]
ASSUMPTIONS = ["blob-level proofs: the three peers write from distinct (address, port) pairs"]
