"""C15 — script templates: generation and parsing are mutually inverse and unambiguous.

The real `push_data`/`read_data`, `Template.generate`, `tokenize`/`token_producer`, `Parser.parse`,
`consume_many_non_greedy`, `Script.parse` (template search in list order) and the `is_*`
classification properties are symbolically executed for every template of
`InputScript.templates`, `OutputScript.templates` and `TIME_LOCK_SCRIPT` (multi-signature redeem
scripts excluded, as in the statement).  Data values are byte strings of *any* length below 2**32
(one path per push-data range), hashes are 20 bytes, lock heights are all integers below 2**32.
Generated scripts are kept as segment lists (pyvc.segs), so tokenising them is structural and the
obligations left for the solver are arithmetic facts about lengths and the to_bytes/from_bytes pair.
"""
from pyvc.api import *
from pyvc.speclib import implies
from lbry.wallet import script as S
from lbry.wallet.script import InputScript, OutputScript
from lbry.wallet.bcd_data_stream import BCDataStream

BOUNDARY_LENGTHS = [0, 1, 2, 20, 33, 74, 75, 76, 77, 254, 255, 256, 257, 65534, 65535, 65536, 65537, 70000]


@proof("C15", "push_data.roundtrip")
class PushDataRoundTrip:
    """read_data inverts push_data at every length, with the minimal push form; what follows the push is untouched"""
    inputs = dict(data=TBytes())
    note = "data lengths 0,1,2,20,33,74..77,254..257,65534..65537,70000"

    def requires(data):
        return len(data) < 2 ** 32

    def run(data):
        stream = BCDataStream()
        stream.write_many(S.push_data(data))
        stream.write_uint8(S.OP_CHECKSIG)
        raw = stream.get_bytes()
        rd = BCDataStream(raw)
        token = rd.read_uint8()
        back = S.read_data(token, rd)
        return raw, token, back, rd.read_uint8(), rd.read_uint8()

    def ensures_inverse(data, result):
        return result[2] == data and result[3] == S.OP_CHECKSIG and result[4] is None

    def ensures_minimal_form(data, result):
        n = len(data)
        tok = result[1]
        return (implies(n < 76, tok == n) and implies(76 <= n <= 255, tok == 76)
                and implies(256 <= n <= 65535, tok == 77) and implies(n >= 65536, tok == 78))

    def ensures_total_length(data, result):
        n = len(data)
        extra = 1 if n < 76 else (2 if n <= 255 else (3 if n <= 65535 else 5))
        return len(result[0]) == n + extra + 1

    def samples():
        for n in BOUNDARY_LENGTHS:
            yield dict(data=bytes((i * 7 + n) % 256 for i in range(n)))


@proof("C15", "small_integer.roundtrip")
class SmallInt:
    inputs = dict(num=TInt(1, 16))

    def run(num):
        stream = BCDataStream()
        stream.write_many(S.push_small_integer(num))
        tokens = S.tokenize(BCDataStream(stream.get_bytes()))
        return tokens

    def ensures_inverse(num, result):
        return len(result) == 1 and isinstance(result[0], S.SmallIntegerToken) and result[0].value == num

    def samples():
        for n in range(1, 17):
            yield dict(num=n)


HASH_FIELDS = {'pubkey_hash', 'script_hash', 'claim_id'}


def field_types(template):
    out = {}
    has_sub = any(isinstance(op, S.PUSH_SUBSCRIPT) for op in template.opcodes)
    for op in template.opcodes:
        if isinstance(op, S.PUSH_SINGLE):
            if op.name in HASH_FIELDS:
                out[op.name] = TBytes(length=20)
            elif has_sub and op.name == 'pubkey':
                out[op.name] = TBytes(length=33)
            elif has_sub and op.name == 'signature':
                out[op.name] = TBytes(minlen=1, maxlen=75)
            else:
                out[op.name] = TBytes(maxlen=2 ** 32 - 1)
        elif isinstance(op, S.PUSH_INTEGER):
            out[op.name] = TInt(0, 2 ** 32 - 1)
        elif isinstance(op, S.PUSH_SUBSCRIPT):
            for k, v in field_types(op.template).items():
                out['sub_' + k] = v
    return out


def expected_flags(template):
    """classification as the opcodes say (oracle from the statement, not from the name tests)"""
    first = template.opcodes[0]
    tail = template.opcodes
    is_claim = first == S.OP_CLAIM_NAME
    is_update = first == S.OP_UPDATE_CLAIM
    is_support = first == S.OP_SUPPORT_CLAIM
    ends_p2pkh = tuple(o for o in tail[-5:] if not isinstance(o, tuple)) == (S.OP_DUP, S.OP_HASH160, S.OP_EQUALVERIFY, S.OP_CHECKSIG) \
        and len(tail) >= 5 and isinstance(tail[-3], S.PUSH_SINGLE)
    ends_p2sh = len(tail) >= 3 and tail[-3] == S.OP_HASH160 and tail[-1] == S.OP_EQUAL
    support_data = is_support and sum(1 for o in tail if isinstance(o, S.PUSH_SINGLE)) == 4
    return dict(is_claim_name=is_claim, is_update_claim=is_update, is_support_claim=is_support,
                is_support_claim_data=support_data, is_claim_involved=is_claim or is_update or is_support,
                is_pay_pubkey_hash=ends_p2pkh, is_pay_script_hash=ends_p2sh,
                is_return_data=first == S.OP_RETURN)


def make_template_proof(cls, template, in_list):
    names = [op.name for op in template.opcodes if isinstance(op, (S.PUSH_SINGLE, S.PUSH_INTEGER))]
    subs = [op for op in template.opcodes if isinstance(op, S.PUSH_SUBSCRIPT)]
    types = field_types(template)
    flags = expected_flags(template) if cls is OutputScript else {}

    def run(**kw):
        values = {n: kw[n] for n in names}
        for sub in subs:
            sub_values = {k[4:]: v for k, v in kw.items() if k.startswith('sub_')}
            values[sub.name] = cls(template=sub.template, values=sub_values)
        generated = cls(template=template, values=values)
        source = generated.source
        parsed = cls(source) if in_list else cls(source, template_hint=template)
        parsed.parse(None if in_list else template)
        out = {n: parsed.values[n] for n in names}
        for sub in subs:
            inner = parsed.values[sub.name]
            for k in sub_values:
                out['sub_' + k] = inner.values[k]
        observed = {f: getattr(parsed, f) for f in flags}
        return parsed.template.name, out, observed, source

    def ensures_same_template(result):
        return result[0] == template.name

    def ensures_same_values(result, **kw):
        ok = True
        for k in kw:
            ok = ok and result[1][k] == kw[k]
        return ok

    def ensures_classified_as_opcodes_say(result):
        ok = True
        for f in flags:
            ok = ok and result[2][f] == flags[f]
        return ok

    # explicit signatures so that the driver can bind inputs by name
    import inspect
    params = [inspect.Parameter(n, inspect.Parameter.POSITIONAL_OR_KEYWORD) for n in types]
    run.__signature__ = inspect.Signature(params)
    ensures_same_values.__signature__ = inspect.Signature(
        [inspect.Parameter('result', inspect.Parameter.POSITIONAL_OR_KEYWORD)] + params)

    def samples():
        import itertools
        var = [n for n, t in types.items() if isinstance(t, TBytes) and t.length is None and t.maxlen != 75]
        ints = [n for n, t in types.items() if isinstance(t, TInt)]
        lens = [0, 1, 75, 76, 255, 256, 65535, 65536] if len(var) <= 2 else [0, 75, 76, 256, 65536]
        for combo in itertools.product(lens, repeat=len(var)):
            for h in ([0] if not ints else [0, 1, 127, 128, 255, 256, 32767, 32768, 65535, 65536, 8388607, 8388608, 2 ** 31 - 1,
                                            2 ** 31, 2 ** 32 - 1, 717738]):
                d = {}
                for n, t in types.items():
                    if isinstance(t, TInt):
                        d[n] = h
                    elif t.length is not None:
                        d[n] = bytes(range(1, t.length + 1))
                    elif t.maxlen == 75:
                        d[n] = bytes(range(1, 73))
                    else:
                        ln = combo[var.index(n)]
                        d[n] = bytes((i * 13 + 5) % 256 for i in range(ln))
                yield d

    body = dict(inputs=types, run=staticmethod(run), ensures_same_template=staticmethod(ensures_same_template),
                ensures_same_values=staticmethod(ensures_same_values), samples=staticmethod(samples),
                note="every combination of data lengths 0/1/75/76/255/256/65535/65536, 16 lock heights across byte widths",
                __doc__=f"generate then parse with template {template.name}: same template (first match in list order), same values, "
                        f"classification as the opcodes say")
    if flags:
        body['ensures_classified_as_opcodes_say'] = staticmethod(ensures_classified_as_opcodes_say)
    proof("C15", f"template[{cls.__name__}.{template.name}]")(type('TemplateProof', (), body))


for _t in OutputScript.templates:
    make_template_proof(OutputScript, _t, True)
for _t in (InputScript.REDEEM_PUBKEY, InputScript.REDEEM_PUBKEY_HASH, InputScript.REDEEM_SCRIPT_HASH_TIME_LOCK):
    make_template_proof(InputScript, _t, True)
make_template_proof(InputScript, InputScript.TIME_LOCK_SCRIPT, False)


def _garbage():
    import itertools
    alphabet = [0x00, 0x01, 0x14, 0x4b, 0x4c, 0x4d, 0x4e, 0x51, 0x60, 0x6a, 0x76, 0xa9, 0x88, 0xac, 0x87, 0xb5, 0xb6, 0xb7, 0xae, 0xff]
    for n in range(0, 4):
        for combo in itertools.product(alphabet, repeat=n):
            yield bytes(combo)
    for extra in (bytes.fromhex('5121' + '02' * 33 + '51ae'), bytes.fromhex('6a0101010102'), bytes.fromhex('4d01'),
                  bytes.fromhex('4e010000'), bytes.fromhex('76a914') + b'\x11' * 20 + bytes.fromhex('88ac'),
                  bytes.fromhex('76a914') + b'\x11' * 19 + bytes.fromhex('88ac'), bytes.fromhex('b5') + b'\x00' * 3):
        yield extra


@proof("C15", "arbitrary-bytes.classification")
class Garbage:
    """BOUNDED stand-in (run-time contract check, no deductive part: the tokenizer loop over an arbitrary
    byte string is outside the generator's reach).  For arbitrary bytes offered as an output script: parsing
    either is refused (no template) or yields a template whose claim predicates agree with the first opcode."""
    bounded_only = True
    note = "all byte strings of length <= 3 over a 20-byte alphabet of opcodes/push markers (8421 strings) + 7 crafted scripts"
    inputs = dict(raw=TBytes())

    def run(raw):
        s = OutputScript(raw)
        s.parse()
        return (s.template.name, s.is_claim_name, s.is_update_claim, s.is_support_claim, raw[:1])

    def ensures_claim_flags_follow_first_opcode(result):
        first = result[4]
        return (result[1] == (first == bytes([S.OP_CLAIM_NAME])) and result[2] == (first == bytes([S.OP_UPDATE_CLAIM]))
                and result[3] == (first == bytes([S.OP_SUPPORT_CLAIM])))

    # a script no template matches is refused (ValueError); a truncated PUSHDATA2/4 length surfaces as struct.error
    # (remark, DESIGN F10: harmless for classification, reported under C09 where it aborts a sync batch)
    import struct as _struct
    raises = {ValueError: True, _struct.error: True}

    def samples():
        for raw in _garbage():
            yield dict(raw=raw)


TRUSTED = [
    "struct.Struct(fmt).pack/unpack for the formats in the BCDataStream class body: unpack(pack(v)) == v on the format's range, "
    "struct.error outside it; len(pack(v)) == size",
    "io.BytesIO: sequential write appends, read(n) returns the next n bytes (short at the end), read(negative) the rest",
    "int.to_bytes/from_bytes (little endian) are inverse on values that fit",
]
NOT_DECIDED = [
    "multi-signature redeem scripts (outside the statement)",
    "arbitrary byte strings offered as scripts: only the bounded stand-in above (tokenizer loop over unbounded input)",
]
ASSUMPTIONS = ["in the script_hash+timelock redeem template the signature is 1..75 bytes and the public key 33 bytes "
               "(push-data ranges for arbitrary lengths are covered by the push_data proof and the other templates)",
               "hash-like fields (pubkey_hash, script_hash, claim_id) are 20 bytes; other data values are below 2**32 bytes"]


# ------------------------------------------------------------------ classification stored by the database (txo_to_row)

from lbry.wallet.database import Database          # noqa: E402
from lbry.wallet.constants import TXO_TYPES         # noqa: E402


class _Ref:
    def __init__(self, claim_id):
        self.claim_id = claim_id


class _Repost:
    def __init__(self, claim_id):
        self.reference = _Ref(claim_id)


class _Stream:
    def __init__(self, has_source):
        self.has_source = has_source


class _Claim:
    def __init__(self, claim_type, is_signed, has_source):
        self.claim_type = claim_type
        self.is_repost = claim_type == 'repost'
        self.is_stream = claim_type == 'stream'
        self.is_signed = is_signed
        self.signing_channel_id = 'ch'
        self.repost = _Repost('rid')
        self.stream = _Stream(has_source)


class _Script:
    def __init__(self, source, involved):
        self.source = source
        self.is_claim_involved = involved


class _Txo:
    def __init__(self, is_claim, is_support, can_decode, claim, purchase, script):
        self.id = 'txoid'
        self.position = 0
        self.amount = 1
        self.script = script
        self.is_claim = is_claim
        self.is_support = is_support
        self.can_decode_claim = can_decode
        self.claim = claim
        self.can_decode_support = None
        self.purchase = purchase
        self.purchased_claim_id = 'pid'
        self.claim_id = 'cid'
        self.claim_name = 'name'

    def get_address(self, ledger):
        return 'addr'


class _Tx:
    id = 'txid'


class _Db:
    ledger = None


@proof("C15", "txo_to_row.classification")
class TxoToRow:
    """the type the wallet database stores for an output: a claim/update output is never stored as plain
    ('other' = spendable) whatever its payload decodes to; supports and purchases get their own type; only
    outputs that are none of these are left as 'other'"""
    inputs = dict(is_claim=TBool(), is_support=TBool(), can_decode=TBool(), is_signed=TBool(), has_source=TBool(),
                  has_purchase=TBool(),
                  claim_type=TOneOf(TNone(), TConst('stream'), TConst('channel'), TConst('collection'), TConst('repost'),
                                    TConst('something-new')))

    def run(is_claim, is_support, can_decode, is_signed, has_source, has_purchase, claim_type):
        claim = _Claim(claim_type, is_signed, has_source)
        script = _Script(b'\\x00', is_claim or is_support)
        txo = _Txo(is_claim, is_support, can_decode, claim, _Txo(False, False, False, None, None, script) if has_purchase else None,
                   script)
        row = Database.txo_to_row(_Db(), _Tx(), txo)
        return row.get('txo_type', TXO_TYPES['other'])

    def ensures_claims_never_plain(is_claim, result):
        return implies(is_claim, result in (TXO_TYPES['stream'], TXO_TYPES['channel'], TXO_TYPES['collection'], TXO_TYPES['repost']))

    def ensures_supports(is_claim, is_support, result):
        return implies(is_support and not is_claim, result == TXO_TYPES['support'])

    def ensures_purchases(is_claim, is_support, has_purchase, result):
        return implies(has_purchase and not is_claim and not is_support, result == TXO_TYPES['purchase'])

    def ensures_plain_only_when_nothing_else(is_claim, is_support, has_purchase, result):
        return implies(result == TXO_TYPES['other'], not is_claim and not is_support and not has_purchase)

    def ensures_known_claim_types_kept(is_claim, can_decode, claim_type, result):
        known = is_claim and can_decode and claim_type in ('stream', 'channel', 'collection', 'repost')
        return (not known) or result == TXO_TYPES[claim_type]

    def samples():
        import itertools
        for combo in itertools.product([False, True], repeat=6):
            for ct in (None, 'stream', 'channel', 'collection', 'repost', 'something-new'):
                yield dict(is_claim=combo[0], is_support=combo[1], can_decode=combo[2], is_signed=combo[3], has_source=combo[4],
                           has_purchase=combo[5], claim_type=ct)
