"""C10 — blob exchange: honest transfer completes, lying peers never poison (part decided).

Deductive part (real AST of lbry/blob_exchange/{client,server,serialization}.py and AbstractBlob.set_length,
symbolically executed against duck-typed transports / futures / writers / blob managers defined in this file):

  server.handle_request        blob bytes leave only for a blob whose get_is_verified() is true, immediately after the one
                               header of the response, and that header names exactly blob.blob_hash and blob.length; an
                               unverified blob is neither announced nor sent; availability answers are truthful; a failed
                               or timed-out transfer closes the connection; the standard request for a held blob is served.
  server.data_received[oversized]  len(buffer)+len(data) >= 1200 closes the connection, nothing is parsed or handled.
  client._write / client.data_received[body]   the writer never receives more than length - received bytes, what it
                               receives is exactly the prefix of the fragment, the counter never passes the length.
  client.data_received[header] with json.loads as an UNINTERPRETED parser (value drawn from a catalogue of shapes, or
                               ValueError): while no response has been recognised the buffer is exactly all bytes received and
                               nothing else changes; when the (unique) '}'-terminated JSON prefix is recognised, the bytes that
                               follow it -- and only those, capped at the announced length -- reach the writer, the length is
                               set only from a response naming the requested hash, a response naming another hash delivers
                               nothing.  Together with the step for bare body fragments this is the induction showing that the
                               fragmentation of the server->client stream is irrelevant.
  client.data_received[body after bare header]   first body fragment after a header that arrived alone: written (capped)
                               unless the fragment itself starts with something that parses as a response (known finding C10-F1).
  client._download_blob        success (the protocol object) is returned only if the peer announced no wrong hash or length,
                               accepted the rate, the response future and the writer's future completed with results and the
                               connection was not closed meanwhile; every other outcome closes transport and writer handle;
                               exactly one request naming exactly our hash is sent.

Bounded stand-ins (run-time contract checks of the REAL client, server, BlobBuffer/BlobFile and HashBlobWriter wired through
in-memory transports, never counted as proved): all re-chunkings from a catalogue in both directions, several requests per
connection, the misbehaviour catalogue in both roles, request framing on the server.
"""
import asyncio
import json
import logging
import time
import z3
from pyvc.api import *
from pyvc.speclib import implies, forall
from pyvc.values import (Raise, VStr, VBytes, VInt, VBool, VRef, VTuple, VNone, VExc, HList, HDict, NotConcrete, fresh_name,
                         Unsupported)
from pyvc import builtins_model as _bm
from lbry.error import InvalidBlobHashError, InvalidDataError
from lbry.blob import MAX_BLOB_SIZE
from lbry.blob.blob_file import AbstractBlob
from lbry.blob_exchange import serialization
from lbry.blob_exchange.client import BlobExchangeClientProtocol
from lbry.blob_exchange.serialization import (BlobResponse, BlobRequest, BlobAvailabilityRequest, BlobPriceRequest,
                                              BlobDownloadRequest, BlobPaymentAddressRequest, BlobAvailabilityResponse,
                                              BlobPriceResponse, BlobDownloadResponse)
from lbry.blob_exchange.server import BlobServerProtocol

logging.getLogger('lbry').addHandler(logging.NullHandler())     # native runs: keep the expected warnings off stderr

REQUEST_LIMIT = 1200        # "a standard request will be 295 bytes"; requests of this size or more are refused
RESPONSE_KEYS = ('lbrycrd_address', 'available_blobs', 'blob_data_payment_rate', 'incoming_blob')


# ====================================================================== duck-typed environment (not repository code)

class FakeEvent:
    def __init__(self):
        self.flag = False

    def set(self):
        self.flag = True

    def clear(self):
        self.flag = False

    def is_set(self):
        return self.flag

    async def wait(self):
        return True


class FakeTransport:
    def __init__(self):
        self.written = []
        self.closed = False

    def get_extra_info(self, name):
        return ('10.0.0.1', 3333)

    def write(self, data):
        self.written.append(data)

    def close(self):
        self.closed = True

    def is_closing(self):
        return self.closed


class FakeFuture:
    """asyncio.Future as far as the protocols use it (state machine, InvalidStateError on double completion)"""

    def __init__(self, state='pending', value=None):
        self.state = state
        self.value = value

    def done(self):
        return self.state != 'pending'

    def cancel(self):
        if self.state == 'pending':
            self.state = 'cancelled'

    def set_result(self, value):
        if self.state != 'pending':
            raise asyncio.InvalidStateError('invalid state')
        self.state = 'result'
        self.value = value

    def set_exception(self, err):
        if self.state != 'pending':
            raise asyncio.InvalidStateError('invalid state')
        self.state = 'exception'
        self.value = err


class ScriptedFuture(FakeFuture):
    """a future whose outcome when awaited is chosen by the harness"""

    def __init__(self, outcome, value=None):
        self.state = 'pending'
        self.value = value
        self.outcome = outcome
        self.awaited = 0

    def __await_model__(self):
        self.awaited += 1
        if self.outcome == 'result':
            self.state = 'result'
            return self.value
        if self.outcome == 'timeout':
            raise asyncio.TimeoutError()
        if self.outcome == 'cancelled':
            self.state = 'cancelled'
            raise asyncio.CancelledError()
        if self.outcome == 'badhash':
            self.state = 'exception'
            raise InvalidBlobHashError('hash mismatch')
        if self.outcome == 'baddata':
            self.state = 'exception'
            raise InvalidDataError('too long')
        raise OSError('unexpected')

    def __await__(self):
        if False:
            yield None
        return self.__await_model__()


class FakeWriter:
    def __init__(self, fails=False, is_closed=False):
        self.got = []
        self.fails = fails
        self.is_closed = is_closed

    def closed(self):
        return self.is_closed

    def write(self, data):
        self.got.append(data)
        if self.fails:
            raise OSError('disk full')

    def close_handle(self):
        self.is_closed = True


class LBlob(AbstractBlob):
    """the client's blob as far as the protocol touches it; set_length / get_length are the REAL AbstractBlob methods"""

    def __init__(self, blob_hash, length):
        self.blob_hash = blob_hash
        self.length = length
        self.verified = FakeEvent()
        self.writers = {}
        self.readers = []


def new_client(blob, writer, fut, buf, received):
    p = BlobExchangeClientProtocol(None, 10)
    p.transport = FakeTransport()
    p.peer_address, p.peer_port = '10.0.0.1', 3333
    p.blob = blob
    p.writer = writer
    p._response_fut = fut
    p.buf = buf
    p._blob_bytes_received = received
    return p


# ====================================================================== library models (trusted, see TRUSTED)

@model_for(asyncio.Event)
def _m_event(interp, st, args, kwargs):
    yield from interp.instantiate(st, FakeEvent, [], {})


class _Num:
    """abstract number: the throughput figure of a log line"""

    def __sub__(self, other):
        return _Num()

    def __truediv__(self, other):
        return _Num()


@model_for(time.perf_counter)
def _m_perf_counter(interp, st, args, kwargs):
    yield from interp.instantiate(st, _Num, [], {})


@model_for(float)
def _m_float(interp, st, args, kwargs):
    yield from interp.instantiate(st, _Num, [], {})


@model_for(round)
def _m_round(interp, st, args, kwargs):
    yield st, args[0]


@model_for(asyncio.wait_for)
def _m_wait_for(interp, st, args, kwargs):
    # the awaited thing is a scripted future (outcome chosen by the harness, time-outs included) or the value of a
    # coroutine call that already ran to completion
    yield from interp.bm.do_await(interp, st, args[0])


@model_for(set)
def _m_set(interp, st, args, kwargs):
    """set() of at most two symbolic strings, kept as a duplicate-free list in either order (only list() is applied to it)"""
    if not args:
        yield from _bm.TYPE_MODELS[set](interp, st, args, kwargs, None)
        return
    for s1, items in interp.iter_concrete(st, args[0]):
        if isinstance(items, Raise) or all(i.concrete for i in items):
            yield from _bm.TYPE_MODELS[set](interp, st, args, kwargs, None)
            return
        if len(items) <= 1:
            yield s1, s1.alloc(HList(items=list(items)))
        elif len(items) == 2:
            for s2, same in interp.equals(s1, items[0], items[1]):
                for s3, b in interp.branch(s2, same):
                    if b:
                        yield s3, s3.alloc(HList(items=[items[0]]))
                    else:
                        s4 = s3.copy()
                        yield s3, s3.alloc(HList(items=[items[0], items[1]]))
                        yield s4, s4.alloc(HList(items=[items[1], items[0]]))
        else:
            raise Unsupported("set() of more than two symbolic elements")


# ---- json: dumps/loads pair on structures, and loads as an uninterpreted parser on arbitrary text

_DUMPED = {}
_JKIND = z3.Function('json_kind', z3.StringSort(), z3.IntSort())
_JSTR = z3.Function('json_str', z3.StringSort(), z3.IntSort(), z3.StringSort())
_JINT = z3.Function('json_int', z3.StringSort(), z3.IntSort(), z3.IntSort())


def _snapshot(st, v):
    if isinstance(v, VRef):
        h = st.heap[v.addr]
        if isinstance(h, HDict) and h.kind == 'dict':
            return ('dict', {k: _snapshot(st, x) for k, x in h.items.items()})
        if isinstance(h, HList) and h.items is not None:
            return ('list', [_snapshot(st, x) for x in h.items])
        raise Unsupported("json.dumps of this heap object")
    if isinstance(v, VTuple):
        return ('list', [_snapshot(st, x) for x in v.items])
    return ('leaf', v)


def _rebuild(st, snap):
    kind, body = snap
    if kind == 'dict':
        return st.alloc(HDict({k: _rebuild(st, x) for k, x in body.items()}))
    if kind == 'list':
        return st.alloc(HList(items=[_rebuild(st, x) for x in body]))
    return body


def _strip_codec(t):
    while z3.is_app(t) and t.decl().name() in ('utf8_encode', 'utf8_decode') and t.num_args() == 1:
        t = t.arg(0)
    return t


@model_for(json.dumps)
def _m_dumps(interp, st, args, kwargs):
    """json.dumps of a structure with symbolic leaves: an unknown ASCII text t with json.loads(t) == the structure"""
    try:
        na, nk = _bm.to_native_args(interp, st, args, kwargs)
    except NotConcrete:
        if kwargs or len(args) != 1:
            raise Unsupported("json.dumps with options")
        name = fresh_name('json_text')
        t = z3.String(name)
        _DUMPED[name] = _snapshot(st, args[0])
        st.assume(z3.InRe(t, _bm.ascii_re()))
        yield st, VStr(t)
        return
    yield from _bm._run_native(interp, st, json.dumps, na, nk)


def _response_catalogue():
    """shapes a parsed server->client text can have, as far as the client code can tell them apart"""
    shapes = [('int',), ('list',), ('dict', None, None, None, None, False), ('dict', None, None, None, None, True)]
    for incoming in (None, 'error', 'ok', 'no_hash', 'not_dict'):
        for avail in (None, 'one'):
            for rate in (None, 'str'):
                for addr in (None, 'str'):
                    if incoming or avail or rate or addr:
                        shapes.append(('dict', incoming, avail, rate, addr, False))
    return shapes


_RESPONSE_SHAPES = _response_catalogue()


def _build_shape(st, shape, t):
    if shape[0] == 'int':
        return VInt(_JINT(t, 0))
    if shape[0] == 'list':
        return st.alloc(HList(items=[]))
    _, incoming, avail, rate, addr, foreign = shape
    d = {}
    if foreign:
        d['error'] = VStr(_JSTR(t, 5))
    if incoming == 'error':
        d['incoming_blob'] = st.alloc(HDict({'error': VStr(_JSTR(t, 0))}))
    elif incoming == 'ok':
        d['incoming_blob'] = st.alloc(HDict({'blob_hash': VStr(_JSTR(t, 1)), 'length': VInt(_JINT(t, 1))}))
    elif incoming == 'no_hash':
        d['incoming_blob'] = st.alloc(HDict({'length': VInt(_JINT(t, 1))}))
    elif incoming == 'not_dict':
        d['incoming_blob'] = VInt(_JINT(t, 2))
    if rate:
        d['blob_data_payment_rate'] = VStr(_JSTR(t, 2))
    if avail:
        d['available_blobs'] = st.alloc(HList(items=[VStr(_JSTR(t, 3))]))
    if addr:
        d['lbrycrd_address'] = VStr(_JSTR(t, 4))
    return st.alloc(HDict(d))


@model_for(json.loads)
def _m_loads(interp, st, args, kwargs):
    v = args[0]
    if v.concrete:
        yield from _bm._run_native(interp, st, json.loads, [v.v], {})
        return
    t = _strip_codec(v.term())
    if z3.is_const(t) and t.decl().name() in _DUMPED:
        yield st, _rebuild(st, _DUMPED[t.decl().name()])
        return
    # uninterpreted parser: the outcome is a function of the text (json_kind / json_str / json_int), either ValueError
    # (JSONDecodeError and UnicodeDecodeError are both ValueError) or a value of one of the catalogued shapes
    interp.assumptions.add("json.loads of arbitrary text: ValueError or a value from the catalogue of response shapes "
                           "(int, list, empty dict, dict with a foreign key, every combination of the four response keys with "
                           "well- and ill-typed incoming_blob), all leaves unconstrained functions of the text")
    t = v.term()
    k = _JKIND(t)
    st.assume(z3.And(k >= -1, k < len(_RESPONSE_SHAPES)))
    bad = st.copy()
    if bad.assume(k == -1):
        yield bad, Raise(VExc(json.JSONDecodeError, [VStr('Expecting value')]))
    for i, shape in enumerate(_RESPONSE_SHAPES):
        s = st.copy()
        if s.assume(k == i) and interp.feasible(s):
            yield s, _build_shape(s, shape, t)


# ====================================================================== specification helpers (protocol definition)

class _NotJson:
    pass


NOT_JSON = _NotJson()


def parse_json(text):
    try:
        return json.loads(text)
    except ValueError:
        return NOT_JSON


def is_response_dict(v):
    """a server->client header: a non-empty JSON object that only uses the four response keys"""
    return isinstance(v, dict) and len(v) > 0 and all(k in RESPONSE_KEYS for k in v)


def header_ends_at(text, q):
    """text[:q] is a complete JSON document closed by '}'"""
    return 0 < q <= len(text) and text[q - 1:q] == b'}' and parse_json(text[:q]) is not NOT_JSON


def response_prefix(data):
    """some '}'-terminated prefix of data parses as a response header (native helper of the known-finding predicate)"""
    for q in range(1, len(data) + 1):
        if data[q - 1:q] == b'}' and is_response_dict(parse_json(data[:q])):
            return True
    return False


@invariant(serialization._parse_blob_response, loop=1)
def _parse_inv(curr_pos, response_msg):
    return 0 <= curr_pos <= len(response_msg)


# ====================================================================== client: byte cap

@proof("C10", "client._write")
class ClientWrite:
    """the writer never receives more than length - received bytes, and what it receives is the prefix of the fragment"""
    inputs = dict(length=TInt(1, MAX_BLOB_SIZE), received=TInt(0), data=TBytes(), fails=TBool())
    note = "lengths 1, 5, 2 MiB x received 0, 1, length-1, length x fragments of 0..6 bytes"

    def requires(length, received):
        return received <= length

    def run(length, received, data, fails):
        p = new_client(LBlob('ab' * 48, length), FakeWriter(fails), FakeFuture(), b'', received)
        p._write(data)
        return p.writer.got, p._blob_bytes_received, p._response_fut.state

    def ensures_cap(length, received, result):
        got = result[0]
        return len(got) == 1 and len(got[0]) <= length - received

    def ensures_prefix(length, received, data, result):
        return result[0][0] == data[:length - received]

    def ensures_counter(length, received, result):
        return result[1] == received + len(result[0][0]) and result[1] <= length

    def ensures_writer_failure_fails_the_request(fails, result):
        return result[2] == ('exception' if fails else 'pending')

    def samples():
        for length in (1, 5, MAX_BLOB_SIZE):
            for received in sorted({0, 1, length - 1, length}):
                for n in (0, 1, 4, 5, 6):
                    yield dict(length=length, received=received, data=bytes(range(n)), fails=(n == 4))


@proof("C10", "client.data_received[body]")
class ClientBody:
    """once blob bytes flow, every fragment goes to the writer capped at what is still missing, whatever it contains"""
    inputs = dict(length=TInt(1, MAX_BLOB_SIZE), received=TInt(1), data=TBytes(minlen=1), buf=TBytes())

    def requires(length, received):
        return received <= length

    def run(length, received, data, buf):
        fut = FakeFuture('result', None)
        p = new_client(LBlob('ab' * 48, length), FakeWriter(), fut, buf, received)
        p.data_received(data)
        return p.writer.got, p._blob_bytes_received, fut.state, p.transport.closed

    def ensures_capped_prefix(length, received, data, result):
        return result[0] == [data[:length - received]] and result[1] == received + len(result[0][0]) and result[1] <= length

    def ensures_connection_untouched(result):
        return result[2] == 'result' and not result[3]

    def samples():
        for length, received in ((5, 1), (5, 4), (5, 5), (MAX_BLOB_SIZE, MAX_BLOB_SIZE - 2)):
            for data in (b'}', b'{"incoming_blob": {"error": "x"}}', b'abc', b'{}'):
                yield dict(length=length, received=received, data=data, buf=b'')


@proof("C10", "client.data_received[not expecting]")
class ClientUnsolicited:
    """unsolicited bytes (no request outstanding) close the connection; bytes on a closing transport are dropped"""
    inputs = dict(data=TBytes(minlen=1), closing=TBool(), has_fut=TBool(), received=TInt(0))

    def requires(closing, has_fut):
        return closing or not has_fut

    def run(data, closing, has_fut, received):
        fut = FakeFuture() if has_fut else None
        writer = FakeWriter()
        p = new_client(LBlob('ab' * 48, 100), writer, fut, b'', received)
        transport = p.transport
        transport.closed = closing
        p.data_received(data)
        return writer.got, transport.closed, fut.state if has_fut else 'none', p.buf

    def ensures_nothing_written_and_closed(result):
        return result[0] == [] and result[1] and result[3] == b''

    def ensures_pending_request_cancelled(has_fut, result):
        return implies(has_fut, result[2] == 'cancelled')

    def samples():
        for closing, has_fut in ((True, True), (True, False), (False, False)):
            yield dict(data=b'{"incoming_blob": {"blob_hash": "ab", "length": 3}}abc', closing=closing, has_fut=has_fut, received=0)


# ====================================================================== client: header phase (uninterpreted JSON parser)

def header_summary(response):
    b = response.get_blob_response()
    if b is None:
        return ('no-blob-response', None, None)
    if b.error:
        return ('error', None, None)
    return ('blob', b.blob_hash, b.length)


def only_header_is(text, p):
    """p (or nothing, when p is None) is the only position at which a '}'-terminated prefix of text is a JSON document"""
    if p is None:
        return forall(1, len(text) + 1, lambda q: not header_ends_at(text, q))
    return header_ends_at(text, p) and forall(1, len(text) + 1, lambda q: implies(q != p, not header_ends_at(text, q)))


def header_step(buf, data, my_hash, my_len):
    blob = LBlob(my_hash, my_len)
    writer = FakeWriter()
    fut = FakeFuture()
    p = new_client(blob, writer, fut, buf, 0)
    raised = False
    try:
        p.data_received(data)
    except Exception:       # noqa  (asyncio closes the connection when data_received raises)
        raised = True
    summary = header_summary(fut.value) if fut.state == 'result' else None
    return raised, p.buf, fut.state, summary, writer.got, blob.length, p._blob_bytes_received, p.transport.closed


@proof("C10", "client.data_received[header]")
class ClientHeader:
    """one step of the header phase for an arbitrary buffer (all bytes so far) and an arbitrary next fragment"""
    inputs = dict(buf=TBytes(), data=TBytes(minlen=1), p=TOpt(TInt()), my_hash=TStr(), my_len=TOpt(TInt(1, MAX_BLOB_SIZE)))
    note = "see samples(): honest headers cut at every position, with and without body bytes, and hostile headers"

    def requires(buf, data, p):
        return only_header_is(buf + data, p)

    def run(buf, data, p, my_hash, my_len):
        return header_step(buf, data, my_hash, my_len)

    def ensures_until_a_response_is_recognised_everything_is_buffered(buf, data, p, my_len, result):
        raised, buf2, state, summary, got, length, received, closed = result
        recognised = p is not None and is_response_dict(parse_json((buf + data)[:p]))
        return recognised or (not raised and buf2 == buf + data and state == 'pending' and got == [] and length == my_len
                              and received == 0 and not closed)

    def ensures_recognised_response_is_delivered(buf, data, p, my_hash, result):
        raised, buf2, state, summary, got, length, received, closed = result
        text = buf + data
        ok = True
        if p is not None and is_response_dict(parse_json(text[:p])) and not raised:
            hdr = parse_json(text[:p])
            inc = hdr.get('incoming_blob')
            names_other = isinstance(inc, dict) and 'error' not in inc and inc['blob_hash'] != my_hash
            ok = buf2 == b'' and not closed
            if names_other:
                ok = ok and state == 'pending' and got == [] and received == 0
            else:
                ok = ok and state == 'result'
                if isinstance(inc, dict) and 'error' not in inc:
                    ok = ok and summary == ('blob', inc['blob_hash'], inc['length'])
        return ok

    def ensures_length_only_from_a_response_naming_our_hash(buf, data, p, my_hash, my_len, result):
        raised, buf2, state, summary, got, length, received, closed = result
        text = buf + data
        expected = my_len
        if p is not None and is_response_dict(parse_json(text[:p])):
            inc = parse_json(text[:p]).get('incoming_blob')
            if isinstance(inc, dict) and 'error' not in inc and 'blob_hash' in inc and inc['blob_hash'] == my_hash \
                    and my_len is None and 0 <= inc['length'] <= MAX_BLOB_SIZE:
                expected = inc['length']
        return length == expected

    def ensures_exactly_the_bytes_after_the_header_reach_the_writer(buf, data, p, my_hash, result):
        raised, buf2, state, summary, got, length, received, closed = result
        text = buf + data
        ok = True
        if p is not None and is_response_dict(parse_json(text[:p])):
            inc = parse_json(text[:p]).get('incoming_blob')
            body = text[p:]
            if isinstance(inc, dict) and 'error' not in inc and 'blob_hash' in inc and inc['blob_hash'] == my_hash:
                if raised:
                    ok = got == []
                elif len(body) == 0:
                    ok = got == [] and received == 0
                else:
                    ok = length is not None and got == [body[:length]] and received == len(got[0])
        return ok

    def ensures_cap(result):
        raised, buf2, state, summary, got, length, received, closed = result
        return length is None or (sum(len(g) for g in got) <= length and received <= length)

    def samples():
        h = 'ab' * 48
        other = 'cd' * 48
        hdr = json.dumps({'incoming_blob': {'blob_hash': h, 'length': 5}, 'blob_data_payment_rate': 'RATE_ACCEPTED',
                          'available_blobs': [h]}).encode()
        texts = [(hdr + b'hello', len(hdr)), (hdr + b'hello}}{', len(hdr)), (hdr, len(hdr)), (hdr + b'hello world, too long', len(hdr))]
        for text, p in texts:
            for cut in range(0, len(text)):
                for end in sorted({cut + 1, len(text)}):
                    t = text[:end]
                    yield dict(buf=t[:cut], data=t[cut:], p=(p if end >= p else None), my_hash=h, my_len=None)
            yield dict(buf=b'', data=text, p=p, my_hash=h, my_len=5)
            yield dict(buf=b'', data=text, p=p, my_hash=other, my_len=None)
        for bad in (b'{"incoming_blob": {"error": "nope"}}xyz', b'{"incoming_blob": {"blob_hash": "%s", "length": 9999999}}xyz' % h.encode(),
                    b'{"incoming_blob": {"blob_hash": "%s", "length": -1}}' % h.encode(), b'{"incoming_blob": 5}', b'{"incoming_blob": {"length": 5}}',
                    b'{"blob_data_payment_rate": "CHEAP"}', b'{"error": "x"}', b'{}', b'[1, {"a": 2}]', b'{"available_blobs": []}zz',
                    b'{"lbrycrd_address": "x"}'):
            p = None
            for q in range(1, len(bad) + 1):
                if header_ends_at(bad, q):
                    p = q
            yield dict(buf=b'', data=bad, p=p, my_hash=h, my_len=None)
            yield dict(buf=bad[:3], data=bad[3:], p=p, my_hash=h, my_len=7)


def body_misread_as_header(data):
    """known finding C10-F1: the first body fragment after a bare header is parsed as a header again"""
    return response_prefix(data)


@proof("C10", "client.data_received[body after bare header]")
class ClientBodyAfterBareHeader:
    """the header arrived alone (response delivered, zero body bytes so far): the next fragment is blob data and must reach the
    writer capped at the length.  Excluded by the precondition and recorded as known finding C10-F1: fragments that start with a
    '}'-terminated text that parses as a response header (the code parses body bytes as a header again)."""
    inputs = dict(data=TBytes(minlen=1), length=TInt(1, MAX_BLOB_SIZE))
    note = "first body fragments with and without braces / JSON look-alikes, lengths below, at and above the fragment size"

    def requires(data):
        return forall(1, len(data) + 1, lambda q: not (header_ends_at(data, q) and is_response_dict(parse_json(data[:q]))))

    def run(data, length):
        blob = LBlob('ab' * 48, length)
        writer = FakeWriter()
        fut = FakeFuture('result', None)
        p = new_client(blob, writer, fut, b'', 0)
        p.data_received(data)
        return writer.got, p._blob_bytes_received, p.buf, fut.state, p.transport.closed

    def ensures_fragment_written_capped(data, length, result):
        return result[0] == [data[:length]] and result[1] == len(result[0][0])

    def ensures_nothing_else_changes(result):
        return result[2] == b'' and result[3] == 'result' and not result[4]

    def samples():
        for data in (b'x', b'}', b'{}', b'{"a": 1}zz', b'}}}}', b'[1]', b'{"error": "x"}', b'{"stream_name": "61", "blobs": [{"length": 0}]}',
                     b'{"lbrycrd_address": "x"}yyyy', b'{"incoming_blob": {"blob_hash": "00", "length": 1}}', bytes(range(256))):
            for length in (1, len(data), len(data) + 1, MAX_BLOB_SIZE):
                yield dict(data=data, length=length)


# ====================================================================== client: outcome of a request

RATES = TOneOf(TNone(), TConst('RATE_ACCEPTED'), TConst('RATE_TOO_LOW'), TConst('RATE_UNSET'))
AVAIL = TOneOf(TNone(), TList(TStr(), n=0), TList(TStr(), n=1), TList(TStr(), n=2))


@proof("C10", "client._download_blob")
class ClientDownload:
    """success is reported only when the peer announced nothing wrong and the writer completed; every failure closes"""
    inputs = dict(my_hash=TStr(), my_len=TOpt(TInt(1, MAX_BLOB_SIZE)), avail=AVAIL, rate=RATES,
                  blob_kind=TOneOf(TConst('none'), TConst('error'), TConst('ok')), err=TStr(), resp_hash=TStr(), resp_len=TInt(),
                  fut=TStr(), wfin=TStr(), closed_race=TBool(), received=TInt(0))
    note = "see samples(): every single deviation from the honest response, each future outcome"

    def requires(fut, wfin):
        return fut in ('result', 'timeout', 'cancelled') and wfin in ('result', 'timeout', 'cancelled', 'badhash', 'baddata')

    async def run(my_hash, my_len, avail, rate, blob_kind, err, resp_hash, resp_len, fut, wfin, closed_race, received):
        responses = []
        if rate is not None:
            responses.append(BlobPriceResponse(rate))
        if avail is not None:
            responses.append(BlobAvailabilityResponse(avail))
        if blob_kind == 'error':
            responses.append(BlobDownloadResponse(incoming_blob={'error': err}))
        elif blob_kind == 'ok':
            responses.append(BlobDownloadResponse(incoming_blob={'blob_hash': resp_hash, 'length': resp_len}))
        writer = FakeWriter()
        writer.finished = ScriptedFuture(wfin, b'verified bytes')
        p = new_client(LBlob(my_hash, my_len), writer, ScriptedFuture(fut, BlobResponse(responses)), b'', received)
        transport = p.transport
        p.closed.flag = closed_race
        n, who = await p._download_blob()
        return (n, who is p, who is None, transport.closed, writer.is_closed, writer.finished.awaited, len(transport.written),
                json.loads(transport.written[0]))

    def ensures_success_only_when_every_check_passed(my_hash, my_len, avail, rate, blob_kind, resp_hash, resp_len, fut, wfin,
                                                     closed_race, result):
        nothing_wrong_announced = (avail is not None and all(h == my_hash for h in avail) and rate == 'RATE_ACCEPTED'
                                   and blob_kind == 'ok' and resp_hash == my_hash and (my_len is None or resp_len == my_len))
        return implies(result[1], nothing_wrong_announced and fut == 'result' and wfin == 'result' and not closed_race)

    def ensures_honest_response_and_completed_writer_succeed(my_hash, my_len, avail, rate, blob_kind, resp_hash, resp_len, fut, wfin,
                                                             closed_race, result):
        honest = (avail is not None and len(avail) == 1 and avail[0] == my_hash and rate == 'RATE_ACCEPTED' and blob_kind == 'ok'
                  and resp_hash == my_hash and (my_len is None or resp_len == my_len)
                  and fut == 'result' and wfin == 'result' and not closed_race)
        return implies(honest, result[1] and not result[3])

    def ensures_failure_closes(result):
        return result[1] or (result[2] and result[3] and result[4])

    def ensures_reports_byte_count(received, result):
        return result[0] == received

    def ensures_one_request_for_exactly_our_blob(my_hash, result):
        return result[6] == 1 and result[7]['requested_blob'] == my_hash and result[7]['requested_blobs'] == [my_hash]

    raises = {asyncio.CancelledError: lambda fut, wfin, closed_race: closed_race or fut == 'cancelled' or wfin == 'cancelled'}

    def samples():
        h, o = 'ab' * 48, 'cd' * 48
        honest = dict(my_hash=h, my_len=7, avail=[h], rate='RATE_ACCEPTED', blob_kind='ok', err='', resp_hash=h, resp_len=7,
                      fut='result', wfin='result', closed_race=False, received=7)
        yield honest
        for k, vals in dict(my_len=[None], avail=[None, [], [o], [h, o], [h, h]], rate=[None, 'RATE_TOO_LOW', 'RATE_UNSET'],
                            blob_kind=['none', 'error'], err=['x'], resp_hash=[o, ''], resp_len=[6, 8, -1, 0],
                            fut=['timeout', 'cancelled'], wfin=['timeout', 'cancelled', 'badhash', 'baddata'],
                            closed_race=[True]).items():
            for v in vals:
                d = dict(honest)
                d[k] = v
                if k == 'err':
                    d['blob_kind'] = 'error'
                yield d


# ====================================================================== server: handle_request

class FakeConnectionManager:
    def __init__(self):
        self.sent = []

    def sent_data(self, host_and_port, size):
        self.sent.append(size)

    def received_data(self, host_and_port, size):
        pass

    def connection_received(self, host_and_port):
        pass

    def incoming_connection_lost(self, host_and_port):
        pass


class Completed:
    def __init__(self, hashes):
        self.hashes = hashes

    def __contains__(self, blob_hash):
        return blob_hash in self.hashes


class EventTransport(FakeTransport):
    """transport that keeps one ordered log of what reaches the peer: ('write', bytes), ('blob', hash, length, verified), ('close',)"""

    def __init__(self):
        self.events = []
        self.closed = False

    def write(self, data):
        self.events.append(('write', data))

    def close(self):
        self.events.append(('close',))
        self.closed = True


class ServedBlob:
    def __init__(self, blob_hash, length, is_verified, outcome, sent):
        self.blob_hash = blob_hash
        self.length = length
        self.is_verified = is_verified
        self.outcome = outcome
        self.sent = sent

    def get_is_verified(self):
        return self.is_verified

    async def sendfile(self, writer):
        writer.transport.events.append(('blob', self.blob_hash, self.length, self.is_verified))
        if self.outcome == 'oserror':
            raise OSError('cannot read')
        if self.outcome == 'valueerror':
            raise ValueError('closed file')
        if self.outcome == 'timeout':
            raise asyncio.TimeoutError()
        return self.sent


class FakeBlobManager:
    def __init__(self, blob, completed):
        self.blob = blob
        self.completed_blob_hashes = Completed(completed)
        self.connection_manager = FakeConnectionManager()
        self.asked = []

    def get_blob(self, blob_hash, length=None):
        self.asked.append(blob_hash)
        return self.blob


def headers(events):
    return [json.loads(e[1]) for e in events if e[0] == 'write']


@proof("C10", "server.handle_request")
class ServerHandleRequest:
    """blob bytes leave only for a verified blob, right after a header naming exactly that blob's hash and length"""
    inputs = dict(req_avail=TOneOf(TNone(), TList(TStr(), n=1), TList(TStr(), n=2)), has_price=TBool(), has_addr=TBool(),
                  req_blob=TOpt(TStr()), blob_hash=TStr(), length=TInt(), is_verified=TBool(), outcome=TStr(), sent=TOpt(TInt()),
                  completed=TList(TStr(), n=2))
    note = "see samples(): standard and partial requests x verified / unverified x every transfer outcome"

    def requires(outcome):
        return outcome in ('sent', 'oserror', 'valueerror', 'timeout')

    async def run(req_avail, has_price, has_addr, req_blob, blob_hash, length, is_verified, outcome, sent, completed):
        requests = []
        if req_avail is not None:
            requests.append(BlobAvailabilityRequest(req_avail))
        if has_price:
            requests.append(BlobPriceRequest(0.0))
        if req_blob is not None:
            requests.append(BlobDownloadRequest(req_blob))
        if has_addr:
            requests.append(BlobPaymentAddressRequest('bAddress'))
        blob = ServedBlob(blob_hash, length, is_verified, outcome, sent)
        manager = FakeBlobManager(blob, completed)
        server = BlobServerProtocol(None, manager, 'bServerAddress')
        transport = EventTransport()
        server.transport = transport
        server.peer_address_and_port = '10.0.0.2:4444'
        await server.handle_request(BlobRequest(requests))
        return transport.events, manager.asked

    def ensures_blob_bytes_only_verified_and_after_exact_header(blob_hash, length, result):
        events = result[0]
        ok = True
        for i in range(len(events)):
            if events[i][0] == 'blob':
                ok = ok and events[i][3] and i > 0 and events[i - 1][0] == 'write' \
                    and json.loads(events[i - 1][1]).get('incoming_blob') == {'blob_hash': blob_hash, 'length': length}
        return ok

    def ensures_at_most_one_transfer_and_one_header(result):
        events = result[0]
        return len([e for e in events if e[0] == 'blob']) <= 1 and len([e for e in events if e[0] == 'write']) <= 1

    def ensures_unverified_blob_is_not_announced_nor_sent(is_verified, result):
        events = result[0]
        return is_verified or (all(e[0] != 'blob' for e in events) and all('incoming_blob' not in h for h in headers(events)))

    def ensures_announced_blob_is_sent(result):
        events = result[0]
        ok = True
        for i in range(len(events)):
            if events[i][0] == 'write' and 'incoming_blob' in json.loads(events[i][1]):
                ok = ok and i + 1 < len(events) and events[i + 1][0] == 'blob'
        return ok

    def ensures_failed_transfer_closes(is_verified, req_blob, outcome, sent, result):
        events = result[0]
        failed = req_blob is not None and is_verified and (outcome != 'sent' or sent is None or sent <= 0)
        return implies(failed, len(events) > 0 and events[-1][0] == 'close')

    def ensures_availability_is_truthful(req_avail, completed, result):
        ok = True
        for h in headers(result[0]):
            if 'available_blobs' in h:
                ok = ok and req_avail is not None and all(x in req_avail and x in completed for x in h['available_blobs']) \
                    and all(x in h['available_blobs'] for x in req_avail if x in completed)
        return ok

    def ensures_standard_request_for_held_blob_is_served(req_avail, has_price, req_blob, blob_hash, length, is_verified, completed,
                                                         result):
        standard = req_avail is not None and len(req_avail) == 1 and has_price and req_blob is not None \
            and req_avail[0] == req_blob and req_blob in completed and is_verified
        hs = headers(result[0])
        return implies(standard, len(hs) == 1 and hs[0].get('available_blobs') == [req_blob]
                       and hs[0].get('blob_data_payment_rate') == 'RATE_ACCEPTED'
                       and hs[0].get('incoming_blob') == {'blob_hash': blob_hash, 'length': length}
                       and len(result[0]) >= 2 and result[0][1][0] == 'blob')

    def ensures_only_the_requested_blob_is_looked_up(req_blob, result):
        return result[1] == ([] if req_blob is None else [req_blob])

    def samples():
        h, o = 'ab' * 48, 'cd' * 48
        for req_avail in (None, [h], [h, o], [o, o]):
            for req_blob in (None, h, o):
                for is_verified in (False, True):
                    for outcome, sent in (('sent', 5), ('sent', 0), ('sent', -1), ('sent', None), ('oserror', 0), ('valueerror', 0),
                                          ('timeout', 0)):
                        for completed in ([h, o], [o, o]):
                            yield dict(req_avail=req_avail, has_price=req_blob is not None, has_addr=req_avail is None,
                                       req_blob=req_blob, blob_hash=h if req_blob != o else o, length=5, is_verified=is_verified,
                                       outcome=outcome, sent=sent, completed=completed)


# ====================================================================== server: request size cap

class RecordingLoop:
    def __init__(self):
        self.tasks = []

    def create_task(self, coro):
        self.tasks.append(coro)
        if hasattr(coro, 'close'):
            coro.close()


@proof("C10", "server.data_received[oversized]")
class ServerOversized:
    """a request that reaches the size limit closes the connection: nothing is parsed, handled or answered"""
    inputs = dict(buf=TBytes(), data=TBytes())
    note = "buffer/fragment sizes around the limit"

    def requires(buf, data):
        return len(buf) + len(data) >= REQUEST_LIMIT

    def run(buf, data):
        manager = FakeBlobManager(None, [])
        loop = RecordingLoop()
        server = BlobServerProtocol(loop, manager, 'bServerAddress')
        transport = EventTransport()
        server.transport = transport
        server.peer_address_and_port = '10.0.0.2:4444'
        server.buf = buf
        server.data_received(data)
        return transport.events, len(loop.tasks), manager.asked

    def ensures_closed_and_nothing_else(result):
        return result[0] == [('close',)] and result[1] == 0 and result[2] == []

    def samples():
        req = BlobRequest.make_request_for_blob_hash('ab' * 48).serialize()
        for nb, nd in ((0, 1200), (1199, 1), (600, 600), (0, 5000), (1200, 0)):
            yield dict(buf=b' ' * nb, data=(b' ' * nd + req)[-nd:] if nd else b'')


TRUSTED = [
    "json: dumps output is ASCII and loads(dumps(x)) == x for structures of str/int/float/list/dict; on arbitrary text loads is a "
    "function of the text that raises ValueError or returns a value (uninterpreted; the shapes the client can tell apart are "
    "enumerated in a catalogue); a JSON document followed by further text ending in '}' is not a JSON document (so at most one "
    "'}'-terminated prefix of a stream parses; stated as the precondition only_header_is and checked natively on every sample)",
    "asyncio: Event / Future / wait_for behave as the fakes in this file (state machine, InvalidStateError on double completion, "
    "wait_for returns the awaited result or raises TimeoutError / CancelledError); a protocol whose data_received raises has its "
    "transport closed by the event loop",
    "time.perf_counter() increases between the start and the end of a download (the throughput log line does not divide by zero); "
    "float()/round() are used for that log line only and are abstracted",
    "set() of the requested hashes behaves as a duplicate-free collection of unspecified order",
    "HashBlobWriter / blob verification (C01) for what happens to the bytes after they reach the writer",
]
NOT_DECIDED = [
    "every time-out clause (peer_timeout, idle_timeout, transfer_timeout): time-outs appear only as possible outcomes of awaits",
    "'keeps serving others' and whole-connection behaviour: only the bounded stand-ins exercise several connections",
    "server.data_received below the size limit (framing of fragmented requests, malformed JSON): bytes.rpartition on symbolic "
    "bytes is outside the engine's reach (/tmp/engine_gaps/C10_1.py): bounded stand-in only",
    "the misbehaviour catalogue at every message position and all re-chunkings of whole transfers: bounded stand-ins only",
    "uniqueness/first-ness of the recognised header is assumed from the JSON grammar, not derived",
]
ASSUMPTIONS = [
    "data_received is never called with an empty fragment (asyncio delivers EOF through eof_received)",
    "connection_manager is None on the client (it only counts bytes)",
]
