"""C10 — blob exchange: honest transfer completes, lying peers never poison (part decided).

BOUNDED (real client, server, BlobFile, HashBlobWriter on a real loop over an in-memory wire; not counted as proved):
transfer.honest (blobs x re-chunkings x sequences), transfer.slow later transfer (outlasting the idle time-out), transfer.peer aborts
beside another + blob.sendfile[frame] (a peer resetting mid-transfer does not cut other transfers of the same blob),
transfer.lying server / lying client (misbehaviour catalogues, time-outs).
KNOWN FINDINGS: C10-F1 body bytes re-parsed as a header; C10-F2 stale announced length blocks honest peers.
DEDUCTIVE: the real AST of lbry/blob_exchange/{client,server,serialization}.py and AbstractBlob.set_length is symbolically executed
against duck-typed transports / futures / writers / blob managers.  json: dumps of symbolic structures is an unknown ASCII text t with
loads(t) == the structure; loads of ARBITRARY text is an uninterpreted parser: ValueError or a value from a catalogue of shapes.
 server.handle_request: blob bytes leave only for a blob with get_is_verified(), right after the single header of the response,
   which names exactly blob.blob_hash and blob.length; an unverified blob is neither announced nor sent; availability is truthful;
   a failed / timed-out transfer closes; the standard request for a held blob is fully answered.
 server.data_received: [oversized] len(buffer)+len(fragment) >= 1200 closes, nothing parsed/handled/answered; [framing] for an
   ARBITRARY buffer and fragment below the limit: no '}' -> buffered; else ALL bytes so far are parsed as ONE request: invalid JSON /
   no request key closes, a well-formed request reaches handle_request once with exactly its parts, ill-typed values raise.
 client._write, data_received[body]: the writer never gets more than length - received bytes, exactly the fragment's prefix.
 client.data_received[header step]: ARBITRARY buffer and fragment, loads uninterpreted, scan loop by invariant: either everything is
   still buffered and nothing changed, or a response was recognised; a delivered response is what the '}'-terminated prefix in front
   of the rest parses to, never names another blob, alone sets the length, and exactly the bytes after it, capped, reach the writer.
 client.data_received[honest header ..]: the REAL serialised header (concrete text, real json) cut at many positions and followed by
   an ARBITRARY body fragment: recognised, exactly the body (capped) reaches the writer.
 client.data_received[body after bare header]: first body fragment after a lone header is written capped -- unless it starts with
   a text that parses as a response header (known finding C10-F1, excluded here, reproduced by transfer.honest).
 client.data_received[not expecting]: unsolicited bytes close; bytes on a closing transport are dropped.
 server.close_on_idle: against the handler's side of the two events (0..2 transfers, fast or slow; wait_for = completes or timer
   fires): the idle timer never runs during a transfer, both events are clear whenever it is armed, idle closes exactly once.
 client._download_blob: success only if no wrong hash/length was announced, rate accepted, both futures completed, not closed;
   the honest answer succeeds; every failure closes transport and writer; one request naming exactly our hash.
"""
import asyncio
import json
import logging
import time
import z3
from pyvc.api import *
from pyvc.speclib import implies
from pyvc.values import (Raise, VStr, VBytes, VInt, VBool, VRef, VTuple, VNone, VExc, HList, HDict, NotConcrete, fresh_name,
                         Unsupported)
from pyvc import builtins_model as _bm
from pyvc.segs import VSegs, to_vbytes
from lbry.error import InvalidBlobHashError, InvalidDataError
from lbry.blob import MAX_BLOB_SIZE
from lbry.blob.blob_file import AbstractBlob
from lbry.blob_exchange import serialization
from lbry.blob_exchange.client import BlobExchangeClientProtocol
from lbry.blob_exchange.serialization import (BlobResponse, BlobRequest, BlobAvailabilityRequest, BlobPriceRequest,
                                              BlobDownloadRequest, BlobPaymentAddressRequest, BlobAvailabilityResponse,
                                              BlobPriceResponse, BlobDownloadResponse)
from lbry.blob_exchange.server import BlobServerProtocol

logging.getLogger('lbry').addHandler(logging.NullHandler())     # native runs: keep the expected warnings off stderr
logging.getLogger('asyncio').addHandler(logging.NullHandler())

REQUEST_LIMIT = 1200        # "a standard request will be 295 bytes"; requests of this size or more are refused
RESPONSE_KEYS = ('lbrycrd_address', 'available_blobs', 'blob_data_payment_rate', 'incoming_blob')


# ====================================================================== duck-typed environment (not repository code)

class FakeEvent:
    def __init__(self):
        self.flag = False

    def set(self):
        self.flag = True

    def clear(self):
        self.flag = False

    def is_set(self):
        return self.flag

    async def wait(self):
        return True


class FakeTransport:
    def __init__(self):
        self.written = []
        self.closed = False

    def get_extra_info(self, name):
        return ('10.0.0.1', 3333)

    def write(self, data):
        self.written.append(data)

    def close(self):
        self.closed = True

    def is_closing(self):
        return self.closed


class FakeFuture:
    """asyncio.Future as far as the protocols use it (state machine, InvalidStateError on double completion)"""

    def __init__(self, state='pending', value=None):
        self.state = state
        self.value = value

    def done(self):
        return self.state != 'pending'

    def cancel(self):
        if self.state == 'pending':
            self.state = 'cancelled'

    def set_result(self, value):
        if self.state != 'pending':
            raise asyncio.InvalidStateError('invalid state')
        self.state = 'result'
        self.value = value

    def set_exception(self, err):
        if self.state != 'pending':
            raise asyncio.InvalidStateError('invalid state')
        self.state = 'exception'
        self.value = err


class ScriptedFuture(FakeFuture):
    """a future whose outcome when awaited is chosen by the harness"""

    def __init__(self, outcome, value=None):
        self.state = 'pending'
        self.value = value
        self.outcome = outcome
        self.awaited = 0

    def __await_model__(self):
        self.awaited += 1
        if self.outcome == 'result':
            self.state = 'result'
            return self.value
        if self.outcome == 'timeout':
            raise asyncio.TimeoutError()
        if self.outcome == 'cancelled':
            self.state = 'cancelled'
            raise asyncio.CancelledError()
        if self.outcome == 'badhash':
            self.state = 'exception'
            raise InvalidBlobHashError('hash mismatch')
        if self.outcome == 'baddata':
            self.state = 'exception'
            raise InvalidDataError('too long')
        raise OSError('unexpected')

    def __await__(self):
        if False:
            yield None
        return self.__await_model__()


class FakeWriter:
    def __init__(self, fails=False, is_closed=False):
        self.got = []
        self.fails = fails
        self.is_closed = is_closed

    def closed(self):
        return self.is_closed

    def write(self, data):
        self.got.append(data)
        if self.fails:
            raise OSError('disk full')

    def close_handle(self):
        self.is_closed = True


class LBlob(AbstractBlob):
    """the client's blob as far as the protocol touches it; set_length / get_length are the REAL AbstractBlob methods"""

    def __init__(self, blob_hash, length):
        self.blob_hash = blob_hash
        self.length = length
        self.verified = FakeEvent()
        self.writers = {}
        self.readers = []


def new_client(blob, writer, fut, buf, received):
    p = BlobExchangeClientProtocol(None, 10)
    p.transport = FakeTransport()
    p.peer_address, p.peer_port = '10.0.0.1', 3333
    p.blob = blob
    p.writer = writer
    p._response_fut = fut
    p.buf = buf
    p._blob_bytes_received = received
    p.closed = FakeEvent()
    return p


# ====================================================================== library models (trusted, see TRUSTED)
# asyncio.Event / asyncio.wait_for / time.perf_counter: the engine's own models (pyvc.aio, pyvc.stdmodels) take precedence when they
# are installed; the three handlers below are fall-backs with the same contract.

@model_for(asyncio.Event)
def _m_event(interp, st, args, kwargs):
    yield from interp.instantiate(st, FakeEvent, [], {})


class _Num:
    """abstract number: the throughput figure of a log line"""

    def __sub__(self, other):
        return _Num()

    def __truediv__(self, other):
        return _Num()


@model_for(time.perf_counter)
def _m_perf_counter(interp, st, args, kwargs):
    yield from interp.instantiate(st, _Num, [], {})


@model_for(float)
def _m_float(interp, st, args, kwargs):
    yield from interp.instantiate(st, _Num, [], {})


@model_for(round)
def _m_round(interp, st, args, kwargs):
    yield st, args[0]


@model_for(asyncio.wait_for)
def _m_wait_for(interp, st, args, kwargs):
    # the awaited thing is a scripted future (outcome chosen by the harness, time-outs included) or the value of a
    # coroutine call that already ran to completion
    yield from interp.bm.do_await(interp, st, args[0])


@model_for(set)
def _m_set(interp, st, args, kwargs):
    """set() of at most two symbolic strings, kept as a duplicate-free list in either order (only list() is applied to it)"""
    if not args:
        yield from _bm.TYPE_MODELS[set](interp, st, args, kwargs, None)
        return
    for s1, items in interp.iter_concrete(st, args[0]):
        if isinstance(items, Raise) or all(i.concrete for i in items):
            yield from _bm.TYPE_MODELS[set](interp, st, args, kwargs, None)
            return
        if len(items) <= 1:
            yield s1, s1.alloc(HList(items=list(items)))
        elif len(items) == 2:
            for s2, same in interp.equals(s1, items[0], items[1]):
                for s3, b in interp.branch(s2, same):
                    if b:
                        yield s3, s3.alloc(HList(items=[items[0]]))
                    else:
                        s4 = s3.copy()
                        yield s3, s3.alloc(HList(items=[items[0], items[1]]))
                        yield s4, s4.alloc(HList(items=[items[1], items[0]]))
        else:
            raise Unsupported("set() of more than two symbolic elements")


# ---- json: dumps/loads pair on structures, and loads as an uninterpreted parser on arbitrary text

_DUMPED = {}
# the uninterpreted parser is indexed by (stream, prefix length): json_kind(s, n) is the outcome of json.loads(s[:n])
_JKIND_F = z3.Function('json_kind', z3.StringSort(), z3.IntSort(), z3.IntSort())
_JSTR_F = z3.Function('json_str', z3.StringSort(), z3.IntSort(), z3.IntSort(), z3.StringSort())
_JINT_F = z3.Function('json_int', z3.StringSort(), z3.IntSort(), z3.IntSort(), z3.IntSort())


def _flat(v):
    """segment-structured bytes -> flat bytes value"""
    return to_vbytes(v) if isinstance(v, VSegs) else v


def _resolve(st, t):
    """resolve if-then-else nodes of an integer term whose condition is decided by the path condition (arithmetic abstraction)"""
    if z3.is_app(t) and t.decl().kind() == z3.Z3_OP_ITE:
        c = t.arg(0)
        if st.entails(c):
            return _resolve(st, t.arg(1))
        if st.entails(z3.Not(c)):
            return _resolve(st, t.arg(2))
        return z3.If(c, _resolve(st, t.arg(1)), _resolve(st, t.arg(2)))
    if z3.is_app(t) and t.decl().kind() in (z3.Z3_OP_ADD, z3.Z3_OP_SUB) and t.num_args() > 0:
        kids = [_resolve(st, k) for k in t.children()]
        out = kids[0]
        for k in kids[1:]:
            out = out + k if t.decl().kind() == z3.Z3_OP_ADD else out - k
        return z3.simplify(out)
    return t


def _index_lemmas(st, t, seen):
    """true facts about str.indexof results with a one-byte needle occurring in t, added to the path condition (they help the
    arithmetic abstraction and z3's sequence solver): -1 <= r < max(len(s), 1), and r >= 0 implies s[r] == needle"""
    if not z3.is_app(t) or t.get_id() in seen:
        return
    seen.add(t.get_id())
    if t.decl().kind() == z3.Z3_OP_SEQ_INDEX and z3.is_string_value(t.arg(1)) and len(t.arg(1).as_string()) == 1:
        st.assume(z3.And(t >= -1, t < z3.If(z3.Length(t.arg(0)) > 0, z3.Length(t.arg(0)), 1)))
        st.assume(z3.Implies(t >= 0, z3.SubString(t.arg(0), t, 1) == t.arg(1)))
    for k in t.children():
        _index_lemmas(st, k, seen)


def _prefix_of(st, t):
    """t denotes a prefix of some stream s: -> (s, integer term n) with t == s[:n]; anything else is its own stream"""
    if z3.is_string_value(t) and t.as_string() == '':
        return None, z3.IntVal(0)
    if z3.is_app(t) and t.decl().kind() == z3.Z3_OP_ITE:
        b1, n1 = _prefix_of(st, t.arg(1))
        b2, n2 = _prefix_of(st, t.arg(2))
        if b1 is None or b2 is None or b1.eq(b2):
            return (b1 if b1 is not None else b2), z3.If(t.arg(0), n1, n2)
    if z3.is_app(t) and t.decl().kind() == z3.Z3_OP_SEQ_EXTRACT and z3.is_int_value(t.arg(1)) and t.arg(1).as_long() == 0:
        b, n = t.arg(0), t.arg(2)
        return b, z3.If(n < 0, z3.IntVal(0), z3.If(n > z3.Length(b), z3.Length(b), n))
    return t, z3.Length(t)


class _Parsed:
    """json_kind / json_str / json_int of one text"""

    def __init__(self, st, t):
        _index_lemmas(st, t, set())
        base, n = _prefix_of(st, t)
        if base is None:
            base = z3.StringVal('')
        self.base, self.n = base, z3.simplify(_resolve(st, z3.simplify(n)))

    @property
    def kind(self):
        return _JKIND_F(self.base, self.n)

    def s(self, i):
        return _JSTR_F(self.base, self.n, i)

    def i(self, i):
        return _JINT_F(self.base, self.n, i)


def _snapshot(st, v):
    if isinstance(v, VRef):
        h = st.heap[v.addr]
        if isinstance(h, HDict) and h.kind == 'dict':
            return ('dict', {k: _snapshot(st, x) for k, x in h.items.items()})
        if isinstance(h, HList) and h.items is not None:
            return ('list', [_snapshot(st, x) for x in h.items])
        raise Unsupported("json.dumps of this heap object")
    if isinstance(v, VTuple):
        return ('list', [_snapshot(st, x) for x in v.items])
    return ('leaf', v)


def _rebuild(st, snap):
    kind, body = snap
    if kind == 'dict':
        return st.alloc(HDict({k: _rebuild(st, x) for k, x in body.items()}))
    if kind == 'list':
        return st.alloc(HList(items=[_rebuild(st, x) for x in body]))
    return body


def _strip_codec(t):
    while z3.is_app(t) and t.decl().name() in ('utf8_encode', 'utf8_decode') and t.num_args() == 1:
        t = t.arg(0)
    return t


@model_for(json.dumps)
def _m_dumps(interp, st, args, kwargs):
    """json.dumps of a structure with symbolic leaves: an unknown ASCII text t with json.loads(t) == the structure"""
    try:
        na, nk = _bm.to_native_args(interp, st, args, kwargs)
    except NotConcrete:
        if kwargs or len(args) != 1:
            raise Unsupported("json.dumps with options")
        name = fresh_name('json_text')
        t = z3.String(name)
        _DUMPED[name] = _snapshot(st, args[0])
        st.assume(z3.InRe(t, _bm.ascii_re()))
        yield st, VStr(t)
        return
    yield from _bm._run_native(interp, st, json.dumps, na, nk)


def _response_catalogue():
    """shapes a parsed server->client text can have, as far as the client code can tell them apart:
    (kind, incoming_blob, has price answer, other response key, foreign key)"""
    shapes = [('int',), ('list',), ('dict', None, False, False, False), ('dict', None, False, False, True)]
    for incoming in (None, 'error', 'ok', 'no_hash', 'not_dict'):
        for rate in (False, True):
            shapes.append(('dict', incoming, rate, not incoming and not rate, False))
    return shapes


_RESPONSE_SHAPES = _response_catalogue()


def _build_shape(st, shape, t):
    if shape[0] == 'int':
        return VInt(t.i(0))
    if shape[0] == 'list':
        return st.alloc(HList(items=[]))
    _, incoming, rate, avail, foreign = shape
    d = {}
    if foreign:
        d['error'] = VStr(t.s(5))
    if incoming == 'error':
        d['incoming_blob'] = st.alloc(HDict({'error': VStr(t.s(0))}))
    elif incoming == 'ok':
        d['incoming_blob'] = st.alloc(HDict({'blob_hash': VStr(t.s(1)), 'length': VInt(t.i(1))}))
    elif incoming == 'no_hash':
        d['incoming_blob'] = st.alloc(HDict({'length': VInt(t.i(1))}))
    elif incoming == 'not_dict':
        d['incoming_blob'] = VInt(t.i(2))
    if rate:
        d['blob_data_payment_rate'] = VStr(t.s(2))
    if avail:
        d['available_blobs'] = st.alloc(HList(items=[VStr(t.s(3))]))
    return st.alloc(HDict(d))


def _kinds(pred):
    return [i for i, shape in enumerate(_RESPONSE_SHAPES) if shape[0] == 'dict' and pred(shape)]


def _kind_in(t, idxs):
    return z3.Or([t.kind == i for i in idxs])


_K_RESPONSE = _kinds(lambda s: not s[4] and (s[1] or s[2] or s[3]))
_K_OK = _kinds(lambda s: s[1] == 'ok')
_K_ERROR = _kinds(lambda s: s[1] == 'error')
_K_MALFORMED = _kinds(lambda s: s[1] in ('no_hash', 'not_dict'))


@model_for(json.loads)
def _m_loads(interp, st, args, kwargs):
    v = _flat(args[0])
    if v.concrete:
        yield from _bm._run_native(interp, st, json.loads, [v.v], {})
        return
    t = _strip_codec(v.term())
    if z3.is_const(t) and t.decl().name() in _DUMPED:
        yield st, _rebuild(st, _DUMPED[t.decl().name()])
        return
    # uninterpreted parser: the outcome is a function of the text (json_kind / json_str / json_int), either ValueError
    # (JSONDecodeError and UnicodeDecodeError are both ValueError) or a value of one of the catalogued shapes
    interp.assumptions.add("json.loads of arbitrary text: ValueError or a value from the catalogue of response shapes "
                           "(int, list, empty dict, dict with a foreign key, every combination of the four response keys with "
                           "well- and ill-typed incoming_blob), all leaves unconstrained functions of the text")
    t = _Parsed(st, v.term())
    k = t.kind
    st.assume(z3.And(k >= -1, k < len(_RESPONSE_SHAPES)))
    bad = st.copy()
    if bad.assume(k == -1):
        yield bad, Raise(VExc(json.JSONDecodeError, [VStr('Expecting value')]))
    for i, shape in enumerate(_RESPONSE_SHAPES):
        s = st.copy()
        if s.assume(k == i) and interp.feasible(s):
            yield s, _build_shape(s, shape, t)


# ====================================================================== specification helpers (protocol definition)

def _parse(text):
    try:
        return True, json.loads(text)
    except ValueError:
        return False, None


def _is_response_dict(v):
    return isinstance(v, dict) and len(v) > 0 and all(k in RESPONSE_KEYS for k in v)


def hdr_is_response(text):
    """text is a server->client header: a non-empty JSON object that only uses the four response keys"""
    ok, v = _parse(text)
    return ok and _is_response_dict(v)


def hdr_blob(text):
    """what a header says about the blob: ('none' | 'error' | 'malformed' | 'ok', blob_hash, length)"""
    ok, v = _parse(text)
    if not ok or not _is_response_dict(v) or 'incoming_blob' not in v:
        return ('none', None, None)
    inc = v['incoming_blob']
    if not isinstance(inc, dict):
        return ('malformed', None, None)
    if 'error' in inc:
        return ('error', None, None)
    if not isinstance(inc.get('blob_hash'), str) or not isinstance(inc.get('length'), int) or isinstance(inc.get('length'), bool):
        return ('malformed', None, None)
    return ('ok', inc['blob_hash'], inc['length'])


# the same observers on symbolic text, in terms of the uninterpreted parser (no forking)

@model_for(hdr_is_response)
def _m_hdr_is_response(interp, st, args, kwargs):
    v = _flat(args[0])
    yield st, (VBool(hdr_is_response(v.v)) if v.concrete else _bm.mk_bool(_kind_in(_Parsed(st, v.term()), _K_RESPONSE)))


@model_for(hdr_blob)
def _m_hdr_blob(interp, st, args, kwargs):
    v = _flat(args[0])
    if v.concrete:
        yield st, _bm.lift(hdr_blob(v.v))
        return
    yield st, _blob_tuple(_Parsed(st, v.term()))


def _blob_tuple(t):
    kind = z3.If(_kind_in(t, _K_OK), z3.StringVal('ok'), z3.If(_kind_in(t, _K_ERROR), z3.StringVal('error'),
                 z3.If(_kind_in(t, _K_MALFORMED), z3.StringVal('malformed'), z3.StringVal('none'))))
    return VTuple([VStr(kind), VStr(t.s(1)), VInt(t.i(1))])


def brace_before(text, p):
    """the byte in front of position p is '}'"""
    return p >= 1 and text[p - 1:p] == b'}'


def is_response_at(text, p):
    return hdr_is_response(text[:p])


def blob_at(text, p):
    return hdr_blob(text[:p])


class _At:
    """the uninterpreted parser applied to text[:p] for 0 <= p <= len(text) (what the positional observers are called with)"""

    def __init__(self, text, p):
        self.base, self.n = text.term(), p.term()

    kind = _Parsed.kind
    s = _Parsed.s
    i = _Parsed.i


@model_for(brace_before)
def _m_brace_before(interp, st, args, kwargs):
    text, p = _flat(args[0]), args[1]
    if text.concrete and p.concrete:
        yield st, VBool(brace_before(text.v, p.v))
    else:
        yield st, _bm.mk_bool(z3.And(p.term() >= 1, z3.SubString(text.term(), p.term() - 1, 1) == z3.StringVal('}')))


@model_for(is_response_at)
def _m_is_response_at(interp, st, args, kwargs):
    text, p = _flat(args[0]), args[1]
    if text.concrete and p.concrete:
        yield st, VBool(is_response_at(text.v, p.v))
    else:
        yield st, _bm.mk_bool(_kind_in(_At(text, p), _K_RESPONSE))


@model_for(blob_at)
def _m_blob_at(interp, st, args, kwargs):
    text, p = _flat(args[0]), args[1]
    if text.concrete and p.concrete:
        yield st, _bm.lift(blob_at(text.v, p.v))
    else:
        yield st, _blob_tuple(_At(text, p))


def response_prefix(data):
    """some '}'-terminated prefix of data parses as a response header (native helper of the known-finding predicate)"""
    for q in range(1, len(data) + 1):
        if data[q - 1:q] == b'}' and hdr_is_response(data[:q]):
            return True
    return False


@invariant(serialization._parse_blob_response, loop=1)
def _parse_inv(curr_pos, response_msg):
    return 0 <= curr_pos <= len(response_msg)


# ====================================================================== client: byte cap

@proof("C10", "client._write")
class ClientWrite:
    """the writer never receives more than length - received bytes, and what it receives is the prefix of the fragment"""
    inputs = dict(length=TInt(1, MAX_BLOB_SIZE), received=TInt(0), data=TBytes(), fails=TBool())
    note = "lengths 1, 5, 2 MiB x received 0, 1, length-1, length x fragments of 0..6 bytes"

    def requires(length, received):
        return received <= length

    def run(length, received, data, fails):
        p = new_client(LBlob('ab' * 48, length), FakeWriter(fails), FakeFuture(), b'', received)
        p._write(data)
        return p.writer.got, p._blob_bytes_received, p._response_fut.state

    def ensures_cap(length, received, result):
        got = result[0]
        return len(got) == 1 and len(got[0]) <= length - received

    def ensures_prefix(length, received, data, result):
        return result[0][0] == data[:length - received]

    def ensures_counter(length, received, result):
        return result[1] == received + len(result[0][0]) and result[1] <= length

    def ensures_writer_failure_fails_the_request(fails, result):
        return result[2] == ('exception' if fails else 'pending')

    def samples():
        for length in (1, 5, MAX_BLOB_SIZE):
            for received in sorted({0, 1, length - 1, length}):
                for n in (0, 1, 4, 5, 6):
                    yield dict(length=length, received=received, data=bytes(range(n)), fails=(n == 4))


@proof("C10", "client.data_received[body]")
class ClientBody:
    """once blob bytes flow, every fragment goes to the writer capped at what is still missing, whatever it contains"""
    inputs = dict(length=TInt(1, MAX_BLOB_SIZE), received=TInt(1), data=TBytes(minlen=1), buf=TBytes())

    def requires(length, received):
        return received <= length

    def run(length, received, data, buf):
        fut = FakeFuture('result', None)
        p = new_client(LBlob('ab' * 48, length), FakeWriter(), fut, buf, received)
        p.data_received(data)
        return p.writer.got, p._blob_bytes_received, fut.state, p.transport.closed

    def ensures_capped_prefix(length, received, data, result):
        return result[0] == [data[:length - received]] and result[1] == received + len(result[0][0]) and result[1] <= length

    def ensures_connection_untouched(result):
        return result[2] == 'result' and not result[3]

    def samples():
        for length, received in ((5, 1), (5, 4), (5, 5), (MAX_BLOB_SIZE, MAX_BLOB_SIZE - 2)):
            for data in (b'}', b'{"incoming_blob": {"error": "x"}}', b'abc', b'{}'):
                yield dict(length=length, received=received, data=data, buf=b'')


@proof("C10", "client.data_received[not expecting]")
class ClientUnsolicited:
    """unsolicited bytes (no request outstanding) close the connection; bytes on a closing transport are dropped"""
    inputs = dict(data=TBytes(minlen=1), closing=TBool(), has_fut=TBool(), received=TInt(0))

    def requires(closing, has_fut):
        return closing or not has_fut

    def run(data, closing, has_fut, received):
        fut = FakeFuture() if has_fut else None
        writer = FakeWriter()
        p = new_client(LBlob('ab' * 48, 100), writer, fut, b'', received)
        transport = p.transport
        transport.closed = closing
        p.data_received(data)
        return writer.got, transport.closed, fut.state if has_fut else 'none', p.buf

    def ensures_nothing_written_and_closed(result):
        return result[0] == [] and result[1] and result[3] == b''

    def ensures_pending_request_cancelled(has_fut, result):
        return implies(has_fut, result[2] == 'cancelled')

    def samples():
        for closing, has_fut in ((True, True), (True, False), (False, False)):
            yield dict(data=b'{"incoming_blob": {"blob_hash": "ab", "length": 3}}abc', closing=closing, has_fut=has_fut, received=0)


# ====================================================================== client: header phase (uninterpreted JSON parser)

def header_summary(response):
    b = response.get_blob_response()
    if b is None:
        return (False, None, None)
    return (True, b.blob_hash, b.length)


def header_step(buf, data, my_hash, my_len):
    blob = LBlob(my_hash, my_len)
    writer = FakeWriter()
    fut = FakeFuture()
    p = new_client(blob, writer, fut, buf, 0)
    raised = False
    try:
        p.data_received(data)
    except Exception:       # noqa  (asyncio closes the connection when data_received raises)
        raised = True
    summary = header_summary(fut.value) if fut.state == 'result' else None
    rest = fut.value.blob_data if fut.state == 'result' else None
    return raised, p.buf, fut.state, summary, writer.got, blob.length, p._blob_bytes_received, p.transport.closed, rest


@proof("C10", "client.data_received[header step]")
class ClientHeaderStep:
    """one step of the header phase for an ARBITRARY buffer (all bytes so far) and an ARBITRARY next fragment, with json.loads
    uninterpreted: either everything is still buffered and nothing else changed, or a response was recognised; a delivered
    response is exactly what the '}'-terminated prefix in front of the undelivered rest parses to, it never names another blob,
    the length is taken only from it, and exactly the bytes after it (capped) reach the writer"""
    inputs = dict(buf=TBytes(), data=TBytes(minlen=1), my_hash=TStr(), my_len=TOpt(TInt(1, MAX_BLOB_SIZE)))
    note = "see samples(): honest headers cut at every position, with and without body bytes, and hostile headers"

    def run(buf, data, my_hash, my_len):
        return header_step(buf, data, my_hash, my_len)

    def ensures_buffers_everything_until_a_response_is_recognised(buf, data, my_len, result):
        raised, buf2, state, summary, got, length, received, closed, rest = result
        unchanged = state == 'pending' and got == [] and length == my_len and received == 0
        if raised:
            return not closed and (state == 'result' or unchanged)
        return not closed and ((buf2 == buf + data and unchanged) or buf2 == b'') and (state == 'result' or unchanged)

    def ensures_delivered_response_is_the_parsed_prefix_and_names_our_blob(buf, data, my_hash, result):
        raised, buf2, state, summary, got, length, received, closed, rest = result
        if state != 'result':
            return True
        text = buf + data
        p = len(text) - len(rest)
        if not (p >= 1 and text[p:] == rest and brace_before(text, p) and is_response_at(text, p)):
            return False
        kind, h, n = blob_at(text, p)
        if kind == 'ok':
            return h == my_hash and summary == (True, h, n)
        if kind == 'error':
            return summary == (True, None, None)
        return kind == 'malformed' or summary == (False, None, None)

    def ensures_length_and_bytes_come_from_that_response_only(buf, data, my_hash, my_len, result):
        raised, buf2, state, summary, got, length, received, closed, rest = result
        if state != 'result':
            return True
        text = buf + data
        kind, h, n = blob_at(text, len(text) - len(rest))
        if kind != 'ok':
            return length == my_len
        if length != (n if my_len is None and 0 <= n <= MAX_BLOB_SIZE else my_len):
            return False
        if raised or len(rest) == 0:
            return got == [] and received == 0
        return length is not None and got == [rest[:length]] and received == len(got[0])

    def ensures_cap(result):
        raised, buf2, state, summary, got, length, received, closed, rest = result
        return length is None or (sum(len(g) for g in got) <= length and received <= length)

    def samples():
        h = 'ab' * 48
        other = 'cd' * 48
        hdr = honest_header(h, 5)
        for text in (hdr + b'hello', hdr + b'hello}}{', hdr, hdr + b'hello world, too long'):
            for cut in range(0, len(text)):
                for end in sorted({cut + 1, len(text)}):
                    yield dict(buf=text[:cut], data=text[cut:end], my_hash=h, my_len=None)      # end > cut: never an empty fragment
            yield dict(buf=b'', data=text, my_hash=h, my_len=5)
            yield dict(buf=b'', data=text, my_hash=other, my_len=None)
        for bad in HOSTILE_HEADERS:
            yield dict(buf=b'', data=bad, my_hash=h, my_len=None)
            if len(bad) > 3:
                yield dict(buf=bad[:3], data=bad[3:], my_hash=h, my_len=7)


HOSTILE_HEADERS = [b'{"incoming_blob": {"error": "nope"}}xyz', b'{"incoming_blob": {"error": ""}}xyz',
                   b'{"incoming_blob": {"blob_hash": "%s", "length": 9999999}}xyz' % (b'ab' * 48),
                   b'{"incoming_blob": {"blob_hash": "%s", "length": -1}}' % (b'ab' * 48),
                   b'{"incoming_blob": {"blob_hash": "%s", "length": "5"}}abcde' % (b'ab' * 48),
                   b'{"incoming_blob": {"blob_hash": "%s", "length": 5}}abcde' % (b'cd' * 48),
                   b'{"incoming_blob": 5}', b'{"incoming_blob": {"length": 5}}', b'{"blob_data_payment_rate": "CHEAP"}', b'{"error": "x"}',
                   b'{}', b'[1, {"a": 2}]', b'{"available_blobs": []}zz', b'{"lbrycrd_address": "x"}', b'\xff\xfe}', b'}}}}']


def honest_header(blob_hash, length):
    """the header the real server serialises for a held blob (responses in the order send_response emits them)"""
    return BlobResponse([BlobDownloadResponse(incoming_blob={'blob_hash': blob_hash, 'length': length}),
                         BlobPriceResponse('RATE_ACCEPTED'), BlobAvailabilityResponse([blob_hash])]).serialize()


def concrete_text_ahead():
    """harness marker (natively a no-op): the text parsed in this proof starts with a concrete header, so the scanning loop of
    _parse_blob_response has a concrete trip count and is unrolled instead of being summarised by its invariant, and every text
    handed to json.loads is concrete (parsed by the real json module)"""
    return None


def _m_loads_concrete_only(interp, st, args, kwargs):
    v = _flat(args[0])
    if not v.concrete:
        # would make the unrolled scan unbounded; on the unchanged code it does not happen (the scan stops at the concrete header)
        raise Unsupported("json.loads of a symbolic text in a proof about a concrete header")
    yield from _bm._run_native(interp, st, json.loads, [v.v], {})


def _m_concrete_text_ahead(interp, st, args, kwargs):
    interp.invariants = {k: v for k, v in interp.invariants.items() if k != (serialization._parse_blob_response.__qualname__, 1)}
    interp.models[json.loads] = _m_loads_concrete_only
    yield st, VNone


def make_honest_header_proof(blob_hash, length, cuts, label):
    header = honest_header(blob_hash, length)

    def run(cut, body):
        concrete_text_ahead()
        return header_step(header[:cut], header[cut:] + body, blob_hash, None)

    def ensures_header_recognised_whatever_follows(result):
        raised, buf2, state, summary, got, blob_length, received, closed, rest = result
        return not raised and not closed and buf2 == b'' and state == 'result' and summary == (True, blob_hash, length) \
            and blob_length == length

    def ensures_exactly_the_body_reaches_the_writer(body, result):
        raised, buf2, state, summary, got, blob_length, received, closed, rest = result
        if len(body) == 0:
            return got == [] and received == 0
        return got == [body[:length]] and received == len(got[0])

    def samples():
        for cut in cuts:
            for body in (b'', b'x', b'}', b'x' * length, b'{"lbrycrd_address": "x"}' + b'y' * length, bytes(range(256)) * 3):
                yield dict(cut=cut, body=body)

    body = dict(inputs=dict(cut=TOneOf(*[TConst(c) for c in cuts]), body=TBytes()), run=staticmethod(run), samples=staticmethod(samples),
                models={concrete_text_ahead: _m_concrete_text_ahead},
                ensures_header_recognised_whatever_follows=staticmethod(ensures_header_recognised_whatever_follows),
                ensures_exactly_the_body_reaches_the_writer=staticmethod(ensures_exactly_the_body_reaches_the_writer),
                note=f"header of blob {blob_hash[:8]}.. length {length} ({len(header)} bytes) cut at {len(cuts)} positions; body fragments "
                     f"empty, 1 byte, exact, oversize, JSON look-alike",
                __doc__=f"the REAL serialised header for length {length} (concrete text, real json.loads), split between buffer and fragment at "
                        f"{len(cuts)} positions, followed in the same fragment by an "
                        f"ARBITRARY body fragment: the header is recognised and exactly the body bytes, capped at the length, reach the writer")
    proof("C10", f"client.data_received[honest header {label}]")(type('HonestHeader', (), body))


_H1 = honest_header('ab' * 48, 77)
_INNER = _H1.index(b'}') + 1        # end of the nested incoming_blob object: a '}'-terminated prefix that is NOT a JSON document
make_honest_header_proof('ab' * 48, 77, sorted(set(range(0, len(_H1), 9)) | set(range(_INNER - 3, _INNER + 3)) | set(range(len(_H1) - 12, len(_H1)))),
                         '77 bytes')
make_honest_header_proof('0123456789abcdef' * 6, 10, [0, 1, 17, 120, 200, len(honest_header('0123456789abcdef' * 6, 10)) - 1], '10 bytes')
make_honest_header_proof('f' * 96, 1, [0, 60, len(honest_header('f' * 96, 1)) - 1], '1 byte')


def no_response_prefix(data):
    """no '}'-terminated prefix of data parses as a response header (for every prefix)"""
    return not response_prefix(data)


def _m_no_response_prefix(interp, st, args, kwargs):
    # the universally quantified precondition is consumed by instantiation: see _m_loads_not_a_header
    yield st, (VBool(no_response_prefix(_flat(args[0]).v)) if _flat(args[0]).concrete else VBool(True))


def _m_loads_not_a_header(interp, st, args, kwargs):
    """json.loads under the precondition no_response_prefix(data): the instance of the precondition for the prefix being parsed"""
    v = _flat(args[0])
    if not v.concrete:
        t = _Parsed(st, v.term())
        if not (z3.is_const(t.base) and t.base.decl().name() == 'data'):
            raise Unsupported("parse of something that is not a prefix of the input fragment")
        st.assume(z3.Implies(z3.SubString(t.base, t.n - 1, 1) == z3.StringVal('}'), z3.Not(_kind_in(t, _K_RESPONSE))))
    yield from _m_loads(interp, st, args, kwargs)


@proof("C10", "client.data_received[body after bare header]")
class ClientBodyAfterBareHeader:
    """the header arrived alone (response delivered, zero body bytes so far): the next fragment is blob data and must reach the
    writer capped at the length.  Excluded by the precondition and recorded as known finding C10-F1: fragments that start with a
    '}'-terminated text that parses as a response header (the code parses body bytes as a header again)."""
    inputs = dict(data=TBytes(minlen=1), length=TInt(1, MAX_BLOB_SIZE))
    note = "first body fragments with and without braces / JSON look-alikes, lengths below, at and above the fragment size"
    models = {json.loads: _m_loads_not_a_header, no_response_prefix: _m_no_response_prefix}

    def requires(data):
        return no_response_prefix(data)

    def run(data, length):
        blob = LBlob('ab' * 48, length)
        writer = FakeWriter()
        fut = FakeFuture('result', None)
        p = new_client(blob, writer, fut, b'', 0)
        p.data_received(data)
        return writer.got, p._blob_bytes_received, p.buf, fut.state, p.transport.closed

    def ensures_fragment_written_capped(data, length, result):
        return result[0] == [data[:length]] and result[1] == len(result[0][0])

    def ensures_nothing_else_changes(result):
        return result[2] == b'' and result[3] == 'result' and not result[4]

    def samples():
        for data in (b'x', b'}', b'{}', b'{"a": 1}zz', b'}}}}', b'[1]', b'{"error": "x"}', b'{"stream_name": "61", "blobs": [{"length": 0}]}',
                     b'{"lbrycrd_address": "x"}yyyy', b'{"incoming_blob": {"blob_hash": "00", "length": 1}}', bytes(range(256))):
            for length in (1, len(data), len(data) + 1, MAX_BLOB_SIZE):
                yield dict(data=data, length=length)


# ====================================================================== client: outcome of a request

AVAIL = TOneOf(TNone(), TList(TStr(), n=0), TList(TStr(), n=1), TList(TStr(), n=2))


@proof("C10", "client._download_blob")
class ClientDownload:
    """success is reported only when the peer announced nothing wrong and the writer completed; every failure closes"""
    inputs = dict(my_hash=TStr(), my_len=TOpt(TInt(1, MAX_BLOB_SIZE)), avail=AVAIL, rate=TOpt(TStr()),
                  blob_kind=TOneOf(TConst('none'), TConst('error'), TConst('ok')), err=TStr(), resp_hash=TStr(), resp_len=TInt(),
                  fut=TStr(), wfin=TStr(), closed_race=TBool(), received=TInt(0))
    note = "see samples(): every single deviation from the honest response, each future outcome"

    def requires(rate, fut, wfin):
        return (rate is None or rate in ('RATE_ACCEPTED', 'RATE_TOO_LOW', 'RATE_UNSET')) \
            and fut in ('result', 'timeout', 'cancelled') and wfin in ('result', 'timeout', 'cancelled', 'badhash', 'baddata')

    async def run(my_hash, my_len, avail, rate, blob_kind, err, resp_hash, resp_len, fut, wfin, closed_race, received):
        responses = []
        if rate is not None:
            responses.append(BlobPriceResponse(rate))
        if avail is not None:
            responses.append(BlobAvailabilityResponse(avail))
        if blob_kind == 'error':
            responses.append(BlobDownloadResponse(incoming_blob={'error': err}))
        elif blob_kind == 'ok':
            responses.append(BlobDownloadResponse(incoming_blob={'blob_hash': resp_hash, 'length': resp_len}))
        writer = FakeWriter()
        writer.finished = ScriptedFuture(wfin, b'verified bytes')
        p = new_client(LBlob(my_hash, my_len), writer, ScriptedFuture(fut, BlobResponse(responses)), b'', received)
        transport = p.transport
        p.closed.flag = closed_race
        n, who = await p._download_blob()
        return (n, who is p, who is None, transport.closed, writer.is_closed, writer.finished.awaited, len(transport.written),
                json.loads(transport.written[0]))

    def ensures_success_only_when_every_check_passed(my_hash, my_len, avail, rate, blob_kind, resp_hash, resp_len, fut, wfin,
                                                     closed_race, result):
        nothing_wrong_announced = (avail is not None and all(h == my_hash for h in avail) and rate == 'RATE_ACCEPTED'
                                   and blob_kind == 'ok' and resp_hash == my_hash and (my_len is None or resp_len == my_len))
        return implies(result[1], nothing_wrong_announced and fut == 'result' and wfin == 'result' and not closed_race)

    def ensures_honest_response_and_completed_writer_succeed(my_hash, my_len, avail, rate, blob_kind, resp_hash, resp_len, fut, wfin,
                                                             closed_race, result):
        honest = (avail is not None and len(avail) == 1 and avail[0] == my_hash and rate == 'RATE_ACCEPTED' and blob_kind == 'ok'
                  and resp_hash == my_hash and (my_len is None or resp_len == my_len)
                  and fut == 'result' and wfin == 'result' and not closed_race)
        return implies(honest, result[1] and not result[3])

    def ensures_failure_closes(result):
        return result[1] or (result[2] and result[3] and result[4])

    def ensures_reports_byte_count(received, result):
        return result[0] == received

    def ensures_one_request_for_exactly_our_blob(my_hash, result):
        return result[6] == 1 and result[7]['requested_blob'] == my_hash and result[7]['requested_blobs'] == [my_hash]

    raises = {asyncio.CancelledError: lambda fut, wfin, closed_race: closed_race or fut == 'cancelled' or wfin == 'cancelled'}

    def samples():
        h, o = 'ab' * 48, 'cd' * 48
        honest = dict(my_hash=h, my_len=7, avail=[h], rate='RATE_ACCEPTED', blob_kind='ok', err='', resp_hash=h, resp_len=7,
                      fut='result', wfin='result', closed_race=False, received=7)
        yield honest
        for k, vals in dict(my_len=[None], avail=[None, [], [o], [h, o], [h, h]], rate=[None, 'RATE_TOO_LOW', 'RATE_UNSET'],
                            blob_kind=['none', 'error'], err=['x'], resp_hash=[o, ''], resp_len=[6, 8, -1, 0],
                            fut=['timeout', 'cancelled'], wfin=['timeout', 'cancelled', 'badhash', 'baddata'],
                            closed_race=[True]).items():
            for v in vals:
                d = dict(honest)
                d[k] = v
                if k == 'err':
                    d['blob_kind'] = 'error'
                yield d


# ====================================================================== server: handle_request

class FakeConnectionManager:
    def __init__(self):
        self.sent = []

    def sent_data(self, host_and_port, size):
        self.sent.append(size)

    def received_data(self, host_and_port, size):
        pass

    def connection_received(self, host_and_port):
        pass

    def incoming_connection_lost(self, host_and_port):
        pass


class Completed:
    def __init__(self, hashes):
        self.hashes = hashes

    def __contains__(self, blob_hash):
        return blob_hash in self.hashes


class EventTransport(FakeTransport):
    """transport that keeps one ordered log of what reaches the peer: ('write', bytes), ('blob', hash, length, verified), ('close',)"""

    def __init__(self):
        self.events = []
        self.closed = False

    def write(self, data):
        self.events.append(('write', data))

    def close(self):
        self.events.append(('close',))
        self.closed = True


class ServedBlob:
    def __init__(self, blob_hash, length, is_verified, outcome, sent):
        self.blob_hash = blob_hash
        self.length = length
        self.is_verified = is_verified
        self.outcome = outcome
        self.sent = sent

    def get_is_verified(self):
        return self.is_verified

    async def sendfile(self, writer):
        writer.transport.events.append(('blob', self.blob_hash, self.length, self.is_verified))
        if self.outcome == 'oserror':
            raise OSError('cannot read')
        if self.outcome == 'valueerror':
            raise ValueError('closed file')
        if self.outcome == 'timeout':
            raise asyncio.TimeoutError()
        return self.sent


class FakeBlobManager:
    def __init__(self, blob, completed):
        self.blob = blob
        self.completed_blob_hashes = Completed(completed)
        self.connection_manager = FakeConnectionManager()
        self.asked = []

    def get_blob(self, blob_hash, length=None):
        self.asked.append(blob_hash)
        return self.blob


def headers(events):
    return [json.loads(e[1]) for e in events if e[0] == 'write']


@proof("C10", "server.handle_request")
class ServerHandleRequest:
    """blob bytes leave only for a verified blob, right after a header naming exactly that blob's hash and length"""
    inputs = dict(req_avail=TOneOf(TNone(), TList(TStr(), n=1)), has_price=TBool(), has_addr=TBool(),
                  req_blob=TOpt(TStr()), blob_hash=TStr(), length=TInt(), is_verified=TBool(), outcome=TStr(), sent=TInt(),
                  completed=TList(TStr(), n=2))
    note = "see samples(): standard and partial requests x verified / unverified x every transfer outcome"

    def requires(outcome):
        return outcome in ('sent', 'oserror', 'valueerror', 'timeout')

    async def run(req_avail, has_price, has_addr, req_blob, blob_hash, length, is_verified, outcome, sent, completed):
        requests = []
        if req_avail is not None:
            requests.append(BlobAvailabilityRequest(req_avail))
        if has_price:
            requests.append(BlobPriceRequest(0.0))
        if req_blob is not None:
            requests.append(BlobDownloadRequest(req_blob))
        if has_addr:
            requests.append(BlobPaymentAddressRequest('bAddress'))
        blob = ServedBlob(blob_hash, length, is_verified, outcome, sent)
        manager = FakeBlobManager(blob, completed)
        server = BlobServerProtocol(None, manager, 'bServerAddress')
        transport = EventTransport()
        server.transport = transport
        server.peer_address_and_port = '10.0.0.2:4444'
        await server.handle_request(BlobRequest(requests))
        return transport.events, manager.asked

    def ensures_blob_bytes_only_verified_and_after_exact_header(blob_hash, length, result):
        events = result[0]
        ok = True
        for i in range(len(events)):
            if events[i][0] == 'blob':
                ok = ok and events[i][3] and i > 0 and events[i - 1][0] == 'write' \
                    and json.loads(events[i - 1][1]).get('incoming_blob') == {'blob_hash': blob_hash, 'length': length}
        return ok

    def ensures_at_most_one_transfer_and_one_header(result):
        events = result[0]
        return len([e for e in events if e[0] == 'blob']) <= 1 and len([e for e in events if e[0] == 'write']) <= 1

    def ensures_unverified_blob_is_not_announced_nor_sent(is_verified, result):
        events = result[0]
        return is_verified or (all(e[0] != 'blob' for e in events) and all('incoming_blob' not in h for h in headers(events)))

    def ensures_announced_blob_is_sent(result):
        events = result[0]
        ok = True
        for i in range(len(events)):
            if events[i][0] == 'write' and 'incoming_blob' in json.loads(events[i][1]):
                ok = ok and i + 1 < len(events) and events[i + 1][0] == 'blob'
        return ok

    def ensures_failed_transfer_closes(is_verified, req_blob, outcome, sent, result):
        events = result[0]
        failed = req_blob is not None and is_verified and (outcome != 'sent' or sent <= 0)
        return implies(failed, len(events) > 0 and events[-1][0] == 'close')

    def ensures_availability_is_truthful(req_avail, completed, result):
        ok = True
        for h in headers(result[0]):
            if 'available_blobs' in h:
                ok = ok and req_avail is not None and all(x in req_avail and x in completed for x in h['available_blobs']) \
                    and all(x in h['available_blobs'] for x in req_avail if x in completed)
        return ok

    def ensures_standard_request_for_held_blob_is_served(req_avail, has_price, req_blob, blob_hash, length, is_verified, completed,
                                                         result):
        standard = req_avail is not None and len(req_avail) == 1 and has_price and req_blob is not None \
            and req_avail[0] == req_blob and req_blob in completed and is_verified
        hs = headers(result[0])
        return implies(standard, len(hs) == 1 and hs[0].get('available_blobs') == [req_blob]
                       and hs[0].get('blob_data_payment_rate') == 'RATE_ACCEPTED'
                       and hs[0].get('incoming_blob') == {'blob_hash': blob_hash, 'length': length}
                       and len(result[0]) >= 2 and result[0][1][0] == 'blob')

    def ensures_only_the_requested_blob_is_looked_up(req_blob, result):
        return result[1] == ([] if req_blob is None else [req_blob])

    def samples():
        h, o = 'ab' * 48, 'cd' * 48
        for req_avail in (None, [h], [o]):
            for req_blob in (None, h, o):
                for is_verified in (False, True):
                    for outcome, sent in (('sent', 5), ('sent', 0), ('sent', -1), ('oserror', 0), ('valueerror', 0), ('timeout', 0)):
                        for completed in ([h, o], [o, o]):
                            yield dict(req_avail=req_avail, has_price=req_blob is not None, has_addr=req_avail is None,
                                       req_blob=req_blob, blob_hash=h if req_blob != o else o, length=5, is_verified=is_verified,
                                       outcome=outcome, sent=sent, completed=completed)


@proof("C10", "server.handle_request[availability of two]")
class ServerAvailabilityOfTwo:
    """an availability question about two blobs is answered with exactly those of the two the server holds completed"""
    inputs = dict(req_avail=TList(TStr(), n=2), has_price=TBool(), completed=TList(TStr(), n=2))

    async def run(req_avail, has_price, completed):
        requests = [BlobAvailabilityRequest(req_avail)]
        if has_price:
            requests.append(BlobPriceRequest(0.0))
        manager = FakeBlobManager(None, completed)
        server = BlobServerProtocol(None, manager, 'bServerAddress')
        transport = EventTransport()
        server.transport = transport
        server.peer_address_and_port = '10.0.0.2:4444'
        await server.handle_request(BlobRequest(requests))
        return transport.events, manager.asked

    def ensures_one_truthful_answer_and_nothing_else(req_avail, completed, result):
        hs = headers(result[0])
        return len(result[0]) == 1 and len(hs) == 1 and result[1] == [] and 'incoming_blob' not in hs[0] \
            and all(x in req_avail and x in completed for x in hs[0]['available_blobs']) \
            and all(x in hs[0]['available_blobs'] for x in req_avail if x in completed)

    def samples():
        h, o, z = 'ab' * 48, 'cd' * 48, 'ef' * 48
        for req in ([h, o], [h, h], [o, z]):
            for completed in ([h, o], [z, z], [o, o]):
                yield dict(req_avail=req, has_price=True, completed=completed)


# ====================================================================== server: data_received

class RecordingLoop:
    def __init__(self):
        self.tasks = []

    def create_task(self, coro):
        self.tasks.append(coro)


class FramingServer(BlobServerProtocol):
    """the real protocol with handle_request (verified on its own above) replaced by a recorder, so that the contract of
    data_received -- which requests it hands over -- can be stated"""

    def handle_request(self, request):
        self.handled.append(request)
        return None


def new_server(buf):
    manager = FakeBlobManager(None, [])
    server = FramingServer(RecordingLoop(), manager, 'bServerAddress')
    server.handled = []
    server.transport = EventTransport()
    server.peer_address_and_port = '10.0.0.2:4444'
    server.buf = buf
    return server


@proof("C10", "server.data_received[oversized]")
class ServerOversized:
    """a request that reaches the size limit closes the connection: nothing is parsed, handled or answered.  The buffer is n filler
    bytes for EVERY n (only its length is read before the connection is closed), the fragment is arbitrary."""
    inputs = dict(n_buf=TInt(0), data=TBytes())
    note = "buffer/fragment sizes around the limit"

    def requires(n_buf, data):
        return n_buf + len(data) >= REQUEST_LIMIT

    def run(n_buf, data):
        server = new_server(b'"' * n_buf)
        server.data_received(data)
        return server.transport.events, len(server.loop.tasks), len(server.handled)

    def ensures_closed_and_nothing_else(result):
        return result[0] == [('close',)] and result[1] == 0 and result[2] == 0

    def samples():
        req = BlobRequest.make_request_for_blob_hash('ab' * 48).serialize()
        for nb, nd in ((0, 1200), (1199, 1), (600, 600), (0, 5000), (1200, 0), (905, len(req))):
            yield dict(n_buf=nb, data=(b' ' * nd + req)[-nd:] if nd else b'')


# ---- requests: the uninterpreted parser with the catalogue of request shapes

REQUEST_KEYS = ('blob_data_payment_rate', 'requested_blobs', 'requested_blob', 'lbrycrd_address')


def _request_catalogue():
    """(kind, requested_blobs: None | 'one' | 'two' | 'empty' | 'int', price, requested_blob: None | 'str' | 'int', address, foreign)"""
    shapes = [('int',), ('list',), ('null',), ('dict', None, False, None, False, False), ('dict', None, False, None, False, True)]
    for avail, price, blob, addr in ((None, False, None, True), ('one', False, None, False), ('two', False, None, True),
                                     ('empty', False, None, False), ('int', False, None, False), (None, True, None, False),
                                     (None, False, 'str', False), ('one', True, 'str', True), ('one', True, 'str', False),
                                     ('one', True, 'int', True), ('empty', True, 'str', True), ('one', False, 'str', True)):
        shapes.append(('dict', avail, price, blob, addr, False))
        shapes.append(('dict', avail, price, blob, addr, True))
    return shapes


_REQUEST_SHAPES = _request_catalogue()


def _build_request_shape(st, shape, t):
    if shape[0] == 'int':
        return VInt(t.i(0))
    if shape[0] == 'list':
        return st.alloc(HList(items=[]))
    if shape[0] == 'null':
        return VNone
    _, avail, price, blob, addr, foreign = shape
    d = {}
    if foreign:
        d['zzz'] = VStr(t.s(5))
    if avail == 'one':
        d['requested_blobs'] = st.alloc(HList(items=[VStr(t.s(3))]))
    elif avail == 'two':
        d['requested_blobs'] = st.alloc(HList(items=[VStr(t.s(3)), VStr(t.s(4))]))
    elif avail == 'empty':
        d['requested_blobs'] = st.alloc(HList(items=[]))
    elif avail == 'int':
        d['requested_blobs'] = VInt(t.i(3))
    if addr:
        d['lbrycrd_address'] = VBool(True)
    if price:
        d['blob_data_payment_rate'] = VInt(t.i(2))
    if blob == 'str':
        d['requested_blob'] = VStr(t.s(1))
    elif blob == 'int':
        d['requested_blob'] = VInt(t.i(1))
    return st.alloc(HDict(d))


def _rkinds(pred):
    return [i for i, shape in enumerate(_REQUEST_SHAPES) if shape[0] == 'dict' and pred(shape)]


def _m_loads_requests(interp, st, args, kwargs):
    """json.loads on the server: JSONDecodeError (-1), UnicodeDecodeError (-2) or a value from the catalogue of request shapes"""
    v = _flat(args[0])
    if v.concrete:
        yield from _bm._run_native(interp, st, json.loads, [v.v], {})
        return
    interp.assumptions.add("json.loads of an arbitrary request text: JSONDecodeError, UnicodeDecodeError or a value from the catalogue of "
                           "request shapes (int, list, null, dicts with the request keys well- and ill-typed, with and without a foreign "
                           "key), all leaves unconstrained functions of the text")
    t = _Parsed(st, v.term())
    k = t.kind
    st.assume(z3.And(k >= -2, k < len(_REQUEST_SHAPES)))
    for code, cls in ((-1, json.JSONDecodeError), (-2, UnicodeDecodeError)):
        bad = st.copy()
        if bad.assume(k == code):
            yield bad, Raise(VExc(cls, [VStr('invalid')]))
    for i, shape in enumerate(_REQUEST_SHAPES):
        s = st.copy()
        if s.assume(k == i) and interp.feasible(s):
            yield s, _build_request_shape(s, shape, t)


def request_shape(text):
    """what a request text parses to, by the protocol definition:
    (status, has requested_blobs, has rate, has requested_blob, has address, requested_blob, first requested blob) with
    status 'invalid' (not JSON / not UTF-8), 'not-a-request' (no request key), 'ill-typed' (requested_blobs not a non-empty list) or
    'request'"""
    try:
        v = json.loads(text)
    except ValueError:
        return ('invalid', False, False, False, False, None, None)
    if not isinstance(v, dict) or not any(k in v for k in REQUEST_KEYS):
        return ('not-a-request', False, False, False, False, None, None)
    avail = v.get('requested_blobs')
    if 'requested_blobs' in v and (not isinstance(avail, list) or len(avail) == 0):
        return ('ill-typed', True, False, False, False, None, None)
    return ('request', 'requested_blobs' in v, 'blob_data_payment_rate' in v, 'requested_blob' in v, 'lbrycrd_address' in v,
            v.get('requested_blob'), avail[0] if avail else None)


def _m_request_shape(interp, st, args, kwargs):
    v = _flat(args[0])
    if v.concrete:
        yield st, _bm.lift(request_shape(v.v))
        return
    t = _Parsed(st, v.term())
    known = _rkinds(lambda s: s[1] or s[2] or s[3] or s[4])
    ill = _rkinds(lambda s: s[1] in ('empty', 'int'))
    ok = [i for i in known if i not in ill]

    def among(pred):
        return _kind_in(t, [i for i in ok if pred(_REQUEST_SHAPES[i])])
    status = z3.If(t.kind < 0, z3.StringVal('invalid'), z3.If(_kind_in(t, ok), z3.StringVal('request'),
                   z3.If(_kind_in(t, ill), z3.StringVal('ill-typed'), z3.StringVal('not-a-request'))))
    # requested_blob is a str in every well-typed catalogue shape but one (an int): the observer reports it only when it is a str
    yield st, VTuple([VStr(status), _bm.mk_bool(z3.Or(among(lambda s: s[1]), _kind_in(t, ill))), _bm.mk_bool(among(lambda s: s[2])),
                      _bm.mk_bool(among(lambda s: s[3])), _bm.mk_bool(among(lambda s: s[4])), VStr(t.s(1)), VStr(t.s(3))])


def handled_summary(server):
    out = []
    for r in server.handled:
        a, b = r.get_availability_request(), r.get_blob_request()
        out.append((a is not None, r.get_price_request() is not None, b is not None, r.get_address_request() is not None,
                    b.requested_blob if b is not None else None, a.requested_blobs[0] if a is not None else None, len(r.requests)))
    return out


@proof("C10", "server.data_received[framing]")
class ServerFraming:
    """one fragment below the size limit, for an ARBITRARY buffer and fragment, json.loads uninterpreted: without a '}' the fragment
    is buffered; with one, everything received so far is parsed as ONE request: invalid JSON / no request key closes the connection,
    a well-formed request is handed over exactly once with exactly the parts its keys name, ill-typed values raise (asyncio closes);
    data_received itself never answers"""
    inputs = dict(buf=TBytes(), data=TBytes(minlen=1))
    note = "see samples(): the standard request in every 2-fragment split and byte by byte, garbage, wrong types, trailing bytes"
    models = {json.loads: _m_loads_requests, request_shape: _m_request_shape}

    def requires(buf, data):
        return len(buf) + len(data) < REQUEST_LIMIT

    def run(buf, data):
        server = new_server(buf)
        raised = False
        try:
            server.data_received(data)
        except Exception:       # noqa  (asyncio closes the connection when data_received raises)
            raised = True
        return raised, server.buf, server.transport.events, handled_summary(server), len(server.loop.tasks)

    def ensures_fragment_without_closing_brace_is_buffered(buf, data, result):
        raised, buf2, events, handled, tasks = result
        return implies(b'}' not in data, not raised and buf2 == buf + data and events == [] and handled == [] and tasks == 0)

    def ensures_never_answers_and_one_task_per_request(result):
        raised, buf2, events, handled, tasks = result
        return (events == [] or events == [('close',)]) and tasks == len(handled) and len(handled) <= 1

    def ensures_everything_received_is_parsed_as_one_request(buf, data, result):
        raised, buf2, events, handled, tasks = result
        if b'}' not in data:
            return True
        status, has_avail, has_price, has_blob, has_addr, blob, first = request_shape(buf + data)
        if status == 'invalid' or status == 'not-a-request':
            return handled == [] and (raised or events == [('close',)])
        if status == 'ill-typed':
            return handled == [] and raised
        if raised or events != [] or len(handled) != 1:
            return False
        h = handled[0]
        return h[0] == has_avail and h[1] == has_price and h[2] == has_blob and h[3] == has_addr \
            and (not has_blob or not isinstance(h[4], str) or h[4] == blob) and (not has_avail or h[5] == first) \
            and h[6] == has_avail + has_price + has_blob + has_addr

    def ensures_buffer_restarts_after_a_request(data, result):
        raised, buf2, events, handled, tasks = result
        # what follows the last '}' of the fragment: a suffix of it, free of '}', preceded by '}'
        k = len(data) - len(buf2)
        return implies(len(handled) == 1, data[k:] == buf2 and b'}' not in buf2 and brace_before(data, k))

    def samples():
        req = BlobRequest.make_request_for_blob_hash('ab' * 48).serialize()
        for cut in range(len(req)):
            yield dict(buf=req[:cut], data=req[cut:])
            yield dict(buf=req[:cut], data=req[cut:cut + 1])
        for text in SERVER_GARBAGE:
            yield dict(buf=b'', data=text)
            if len(text) > 2:
                yield dict(buf=text[:2], data=text[2:])


SERVER_GARBAGE = [b'}', b'{}', b'{"zzz": 1}', b'[]', b'5}', b'null}', b'\xff\xfe}', b'{"requested_blobs": []}', b'{"requested_blobs": 7}',
                  b'{"requested_blob": 7}', b'{"requested_blob": "%s"}' % (b'ab' * 48), b'{"requested_blob": "%s"} \n' % (b'ab' * 48),
                  b'{"requested_blob": "%s"}{"requested_blob": "%s"}' % (b'ab' * 48, b'ab' * 48), b'{"requested_blob": "%s"}xx' % (b'ab' * 48),
                  b'{"lbrycrd_address": true}', b'{"blob_data_payment_rate": 0.0}', b'["requested_blob"]}', b'"requested_blob}"',
                  b'{"requested_blobs": ["%s", "%s"], "lbrycrd_address": true}' % (b'ab' * 48, b'cd' * 48), b'{"a": {"requested_blob": "x"}}']


# ====================================================================== server: idle watchdog (close_on_idle)

class Blocked(Exception):
    """symbolic side only: the awaiting coroutine waits for something nobody will ever complete"""


async def block_forever():
    """wait for something that never happens (natively: until the surrounding wait_for cancels it)"""
    await asyncio.get_running_loop().create_future()


@model_for(block_forever)
def _m_block_forever(interp, st, args, kwargs):
    yield st, Raise(VExc(Blocked, []))


def _m_wait_for_timer(interp, st, args, kwargs):
    """asyncio.wait_for for the watchdog proof: the awaited thing completes, or -- when it would wait for ever -- the timer fires"""
    for s1, r in interp.bm.do_await(interp, st, args[0]):
        if isinstance(r, Raise) and r.exc.cls is Blocked:
            yield s1, Raise(VExc(asyncio.TimeoutError, []))
        else:
            yield s1, r


class WatchedEvent(FakeEvent):
    """asyncio.Event whose wait(), when it has to block, hands control to the environment (the request handler's side)"""

    def __init__(self, world, name):
        self.flag = False
        self.world = world
        self.name = name

    async def wait(self):
        if self.flag:
            return True
        await self.world.watchdog_blocks_on(self.name)
        return True


class HandlerSide:
    """rely: what handle_request does to the two events while the watchdog is blocked.  A connection serves `transfers` transfers:
    each sets started_transfer when it begins and transfer_finished when it ends (handle_request's try/finally); `fast` transfers
    end before the watchdog runs again, `slow` ones last longer than the idle time-out.  After the last one nothing happens any more."""

    def __init__(self, transfers, fast, slow):
        self.transfers, self.fast, self.slow = transfers, fast, slow
        self.begun = 0
        self.in_progress = False
        self.log = []
        self.started_event = WatchedEvent(self, 'started_transfer')
        self.finished_event = WatchedEvent(self, 'transfer_finished')

    def begin_transfer(self):
        self.begun += 1
        self.in_progress = True
        self.started_event.set()
        if self.fast:
            self.end_transfer()

    def end_transfer(self):
        self.in_progress = False
        self.finished_event.set()

    async def watchdog_blocks_on(self, name):
        self.log.append((name, self.in_progress, self.started_event.flag, self.finished_event.flag))
        if name == 'started_transfer':          # the only wait the real code puts under the idle timer
            if self.in_progress:
                if self.slow:
                    await block_forever()       # the timer fires before the transfer ends
                self.end_transfer()
            if self.begun < self.transfers:
                self.begin_transfer()
                return
            await block_forever()               # idle for good
        else:
            if not self.in_progress:
                await block_forever()           # nobody will set it
            self.end_transfer()


@proof("C10", "server.close_on_idle")
class ServerIdleWatchdog:
    """the idle watchdog against the handler's side of the two events, for 0..2 transfers on a connection, fast or slow: while a
    transfer is in progress the watchdog waits for transfer_finished and never sits on the idle timer; whenever it arms the idle
    timer both events are clear (so EVERY transfer suspends it, not only the first); every transfer is served to its end; when the
    connection has been idle for idle_timeout it closes exactly once and the loop ends"""
    inputs = dict(transfers=TInt(0, 2), fast=TBool(), slow=TBool())
    models = {asyncio.wait_for: _m_wait_for_timer}

    async def run(transfers, fast, slow):
        world = HandlerSide(transfers, fast, slow)
        server = BlobServerProtocol(None, FakeBlobManager(None, []), 'bServerAddress', 0.02, 5.0)
        server.transport = EventTransport()
        server.peer_address_and_port = '10.0.0.2:4444'
        server.started_transfer, server.transfer_finished = world.started_event, world.finished_event
        hung = False
        try:
            await asyncio.wait_for(server.close_on_idle(), 1.0)
        except asyncio.TimeoutError:
            hung = True
        return hung, server.transport.events, world.log, world.begun, world.in_progress

    def ensures_idle_timer_never_runs_during_a_transfer(result):
        return all(not in_progress for name, in_progress, started, finished in result[2] if name == 'started_transfer')

    def ensures_both_events_clear_whenever_the_idle_timer_is_armed(result):
        return all(not started and not finished for name, in_progress, started, finished in result[2] if name == 'started_transfer')

    def ensures_every_transfer_served_to_its_end_then_closed_once(transfers, result):
        hung, events, log, begun, in_progress = result
        return not hung and events == [('close',)] and begun == transfers and not in_progress

    def samples():
        for transfers in (0, 1, 2):
            for fast in (False, True):
                for slow in (False, True):
                    yield dict(transfers=transfers, fast=fast, slow=slow)


# ====================================================================== blob: sendfile closes only its own reader

import contextlib       # noqa: E402


class FakeHandle:
    def __init__(self, name):
        self.name = name
        self.is_closed = False

    def close(self):
        self.is_closed = True


class SendingLoop:
    """loop.sendfile that succeeds or fails the way a socket transport does when the peer went away"""

    def __init__(self, outcome):
        self.outcome = outcome
        self.calls = []

    def is_closed(self):
        return False

    async def sendfile(self, transport, handle, offset=0, count=None):
        self.calls.append((handle.name, count))
        if self.outcome == 'reset':
            raise ConnectionResetError('peer went away')
        if self.outcome == 'broken pipe':
            raise BrokenPipeError('peer went away')
        if self.outcome == 'closing':
            raise RuntimeError('Transport is closing')
        return count


class ReadableBlob(AbstractBlob):
    """a verified blob with other transfers in flight; sendfile / reader_context / is_readable are the REAL AbstractBlob methods"""

    def __init__(self, loop, length, others):
        self.loop = loop
        self.blob_hash = 'ab' * 48
        self.length = length
        self.verified = FakeEvent()
        self.verified.set()
        self.writers = {}
        self.readers = others
        self.own = FakeHandle('own')

    @contextlib.contextmanager
    def _reader_context(self):
        try:
            yield self.own
        finally:
            self.own.close()


class SendingProtocol:
    def __init__(self):
        self.transport = EventTransport()


@proof("C10", "blob.sendfile[frame]")
class BlobSendfileFrame:
    """BOUNDED stand-in (run-time contract check; the deductive attempt is outside reach: reader_context is a
    contextlib.contextmanager generator, which needs suspension at `yield`, /tmp/engine_gaps/C10_3.py).  The REAL
    AbstractBlob.sendfile / reader_context with two other transfers of the same blob in flight: it reports the bytes sent, or -1
    when the peer went away, and in both cases closes and unregisters ONLY its own reader: the others stay registered and open"""
    bounded_only = True
    note = "4 outcomes of loop.sendfile (sent, connection reset, broken pipe, transport closing) x lengths 1, 5, 2 MiB; 2 other readers"
    inputs = dict(length=TInt(1, MAX_BLOB_SIZE), outcome=TOneOf(TConst('sent'), TConst('reset'), TConst('broken pipe'), TConst('closing')))

    async def run(length, outcome):
        first, second = FakeHandle('first'), FakeHandle('second')
        blob = ReadableBlob(SendingLoop(outcome), length, [first, second])
        sent = await blob.sendfile(SendingProtocol())
        return sent, [h.name for h in blob.readers], first.is_closed, second.is_closed, blob.own.is_closed, blob.loop.calls

    def ensures_reports_bytes_or_minus_one(length, outcome, result):
        return result[0] == (length if outcome == 'sent' else -1) and result[5] == [('own', length)]

    def ensures_other_readers_untouched(result):
        return result[1] == ['first', 'second'] and not result[2] and not result[3]

    def ensures_own_reader_closed(result):
        return result[4]

    def samples():
        for outcome in ('sent', 'reset', 'broken pipe', 'closing'):
            for length in (1, 5, MAX_BLOB_SIZE):
                yield dict(length=length, outcome=outcome)


# ====================================================================== bounded stand-ins: whole connections (native only)
# Everything below runs the REAL BlobExchangeClientProtocol, BlobServerProtocol, BlobFile / BlobBuffer and HashBlobWriter on a real
# asyncio loop; only the socket pair is replaced by an in-memory wire that re-chunks the byte stream.  Never counted as proved.

import hashlib      # noqa: E402
import os           # noqa: E402
import shutil       # noqa: E402
import tempfile     # noqa: E402
from lbry.blob.blob_file import BlobFile, BlobBuffer      # noqa: E402
from lbry.utils import get_lbry_hash_obj                  # noqa: E402

FAST = 0.05         # every configured time-out (peer, idle, transfer) in the stand-ins, seconds


def blob_hash_of(data):
    h = get_lbry_hash_obj()
    h.update(data)
    return h.hexdigest()


def pseudo_random(n, seed):
    out = bytearray()
    k = 0
    while len(out) < n:
        out += hashlib.sha512(b'%d/%d' % (seed, k)).digest()
        k += 1
    return bytes(out[:n])


def chunks_of(stream, header_len, pattern):
    """re-chunking catalogue; header_len = length of the first write of the burst (the JSON message)"""
    h = min(header_len, len(stream))
    if pattern == 'glued':
        cuts = []
    elif pattern == 'ones':
        cuts = list(range(1, len(stream)))
    elif pattern == 'hdr|body':
        cuts = [h]
    elif pattern == 'hdr-1|':
        cuts = [h - 1]
    elif pattern == 'hdr+1|':
        cuts = [h + 1]
    elif pattern == 'hdr ones|body':
        cuts = list(range(1, h + 1))
    elif pattern == 'hdr|body ones':
        cuts = list(range(h, min(len(stream), h + 4096)))
    elif pattern == 'mid hdr':
        cuts = [h // 2]
    elif pattern.startswith('k='):
        k = int(pattern[2:])
        cuts = list(range(k, len(stream), k))
    else:
        raise ValueError(pattern)
    out, last = [], 0
    for c in cuts:
        if last < c < len(stream):
            out.append(stream[last:c])
            last = c
    out.append(stream[last:])
    return [c for c in out if c]


class LoopFacade:
    """the loop as blobs see it: the running loop, plus an in-memory sendfile (the real one needs a socket transport)"""

    def __init__(self, loop, pauses=()):
        self.loop = loop
        self.pauses = list(pauses)      # seconds each successive sendfile pauses in the middle of the body

    def create_task(self, coro):
        return self.loop.create_task(coro)

    def run_in_executor(self, executor, fn, *args):
        return self.loop.run_in_executor(executor, fn, *args)

    def is_closed(self):
        return False

    async def sendfile(self, transport, handle, offset=0, count=None):
        if transport.is_closing():
            raise ConnectionResetError('closed')
        pause = self.pauses.pop(0) if self.pauses else 0
        if not pause:
            data = handle.read(count)
            transport.write(data)
            return len(data)
        # a slow transfer: half of the body is read and sent, a pause, then the rest is read from the SAME handle and sent
        first = handle.read(count // 2)
        transport.write(first)
        await asyncio.sleep(pause)
        if transport.is_closing():
            raise ConnectionResetError('closed')
        rest = handle.read(count - len(first))      # ValueError if somebody closed the handle meanwhile
        transport.write(rest)
        return len(first) + len(rest)


class Wire:
    """one direction of a TCP connection: the sender's transport; bytes are queued per write and delivered re-chunked"""

    def __init__(self, pattern):
        self.pattern = pattern
        self.queue = []
        self.closed = False
        self.delivered = 0
        self.log = []

    def get_extra_info(self, name):
        return ('10.0.0.9', 4321)

    def is_closing(self):
        return self.closed

    def write(self, data):
        if not self.closed and data:
            self.queue.append(bytes(data))

    def close(self):
        self.closed = True

    def take(self):
        burst, self.queue = self.queue, []
        if not burst:
            return []
        self.log.append(burst)
        return chunks_of(b''.join(burst), len(burst[0]), self.pattern)


class ServerSide:
    """blob manager as the server protocol uses it, holding REAL BlobFile objects in a temporary directory"""

    def __init__(self, loop, blob_dir):
        self.loop = loop
        self.blob_dir = blob_dir
        self.blobs = {}
        self.completed_blob_hashes = set()
        self.connection_manager = FakeConnectionManager()

    def get_blob(self, blob_hash, length=None):
        if blob_hash not in self.blobs:
            self.blobs[blob_hash] = BlobFile(self.loop, blob_hash, length, None, self.blob_dir)
        return self.blobs[blob_hash]

    async def hold(self, data):
        h = blob_hash_of(data)
        with open(os.path.join(self.blob_dir, h), 'wb') as f:
            f.write(data)
        blob = self.get_blob(h, len(data))
        self.completed_blob_hashes.add(h)
        return blob


class Connection:
    """a client protocol and a server protocol (either may be replaced by a scripted liar) joined by two wires"""

    def __init__(self, client, server, c2s, s2c):
        self.client, self.server = client, server
        self.to_server, self.to_client = Wire(c2s), Wire(s2c)
        self.errors = []
        self.lost = set()
        client.connection_made(self.to_server)
        server.connection_made(self.to_client)

    def _deliver(self, wire, receiver, sender):
        moved = False
        for chunk in wire.take():
            if receiver in self.lost:
                break
            moved = True
            try:
                receiver.data_received(chunk)
            except Exception as err:       # noqa: asyncio closes the transport of a protocol whose data_received raises
                self.errors.append(type(err).__name__)
                self._lose(receiver, err)
        return moved

    def _lose(self, protocol, err):
        if protocol not in self.lost:
            self.lost.add(protocol)
            (self.to_server if protocol is self.client else self.to_client).close()
            protocol.connection_lost(err)

    async def pump(self, until, rounds=40):
        """move bytes both ways until `until()` holds or nothing has moved for a while"""
        idle = 0
        while not until() and idle < rounds:
            moved = self._deliver(self.to_server, self.server, self.client)
            await asyncio.sleep(0)
            moved = self._deliver(self.to_client, self.client, self.server) or moved
            # a side that closed its transport: the peer sees the connection go away
            if self.to_client.closed and not self.to_client.queue:
                self._lose(self.server, None)
                self._lose(self.client, None)
            if self.to_server.closed and not self.to_server.queue:
                self._lose(self.client, None)
                self._lose(self.server, None)
            await asyncio.sleep(0)
            idle = 0 if moved else idle + 1

    @property
    def closed(self):
        return self.to_server.closed or self.to_client.closed


PATIENT = 3.0       # time-outs of the honest runs (never expected to fire)
SLACK = 2.0         # scheduling allowance when a run is expected to end by its time-outs


def new_real_client(loop, timeout=PATIENT):
    return BlobExchangeClientProtocol(loop, timeout)


def new_real_server(loop, manager, timeout=PATIENT):
    return BlobServerProtocol(loop, manager, 'bServerAddress', idle_timeout=timeout, transfer_timeout=timeout)


async def download(conn, client, blob, budget=8.0):
    """run client.download_blob(blob) over the connection; -> (succeeded, seconds)"""
    loop = asyncio.get_running_loop()
    task = loop.create_task(client.download_blob(blob))
    t0 = loop.time()
    while not task.done() and loop.time() - t0 < budget:
        await conn.pump(task.done, rounds=3)
        if not task.done():
            await asyncio.sleep(FAST / 5)
    if not task.done():
        task.cancel()
    try:
        n, who = await task
    except (asyncio.CancelledError, Exception):     # noqa
        seconds = loop.time() - t0
        await settle()
        return False, seconds
    seconds = loop.time() - t0
    await settle()
    return who is client, seconds


async def settle():
    """let callbacks, done-callbacks of writers and the executor job that stores a verified blob run"""
    for _ in range(5):
        await asyncio.sleep(0.002)


def stored_bytes(blob):
    if not blob.get_is_verified():
        return None
    if isinstance(blob, BlobFile):
        with open(blob.file_path, 'rb') as f:
            return f.read()
    return blob._verified_bytes.getvalue()


def new_client_blob(facade, blob_hash, directory):
    return BlobFile(facade, blob_hash, None, None, directory) if directory else BlobBuffer(facade, blob_hash)


BLOBS = {
    '1 byte': b'x',
    'text': b'hello world ' * 9,
    'braces': b'}}}{{{}' * 5,
    'json': b'{"a": 1}zz',
    'sd blob': b'{"stream_name": "61", "blobs": [{"length": 2, "blob_num": 0, "iv": "00"}, {"length": 0, "blob_num": 1}], "key": "00"}',
    'looks like a response': b'{"lbrycrd_address": "x"}' + b'y' * 40,
    'looks like an incoming blob': b'{"incoming_blob": {"blob_hash": "00", "length": 1}}' + b'z' * 9,
    '64 KiB': pseudo_random(65536, 1),
    '2 MiB': pseudo_random(MAX_BLOB_SIZE, 2),
}
S2C_PATTERNS = ['glued', 'hdr|body', 'ones', 'hdr-1|', 'hdr+1|', 'hdr ones|body', 'hdr|body ones', 'mid hdr', 'k=2', 'k=7', 'k=64', 'k=1460',
                'k=65536']
C2S_PATTERNS = ['glued', 'ones', 'k=7', 'mid hdr', 'hdr-1|']


def first_body_fragment(blob, pattern):
    """the fragment that arrives when the header is complete and no body byte has been delivered yet (None: no such moment)"""
    header = honest_header(blob_hash_of(blob), len(blob))
    pos = 0
    for chunk in chunks_of(header + blob, len(header), pattern):
        if pos == len(header):
            return chunk
        pos += len(chunk)
    return None


def body_fragment_misread_as_header(names, s2c):
    """predicate of known finding C10-F1 on the inputs of the whole-transfer stand-in"""
    for name in names:
        fragment = first_body_fragment(BLOBS[name], s2c)
        if fragment is not None and response_prefix(fragment):
            return True
    return False


@proof("C10", "transfer.honest")
class HonestTransfer:
    """BOUNDED stand-in (run-time contract check, no deductive part).  An honest client downloads a sequence of blobs over ONE
    connection from an honest server that holds them, with both directions of the byte stream re-chunked: every download succeeds
    and ends with the verified, byte-identical blob (in memory or on disk), and what the server put on the wire for each request is
    exactly one header naming the blob's hash and length followed by exactly the blob's bytes."""
    bounded_only = True
    inputs = dict(names=TList(TStr()), c2s=TStr(), s2c=TStr(), on_disk=TBool())
    note = ("blobs: 1 byte, text, braces, JSON, stream-descriptor JSON, two response look-alikes, 64 KiB, 2 MiB; server->client "
            "re-chunkings: glued, header|body, 1-byte fragments, header-1 / header+1, header bytewise then body, header then body "
            "bytewise, cut inside the header, fixed sizes 2/7/64/1460/65536; client->server: glued, 1-byte, 7-byte, two halves, all but "
            "the last byte; sequences of 1-3 blobs (with a repeat) on one connection; client blob in memory and on disk; "
            "2 MiB only with the coarse re-chunkings")

    async def run(names, c2s, s2c, on_disk):
        loop = asyncio.get_running_loop()
        facade = LoopFacade(loop)
        tmp = tempfile.mkdtemp(prefix='c10-')
        try:
            os.mkdir(os.path.join(tmp, 'server'))
            os.mkdir(os.path.join(tmp, 'client'))
            manager = ServerSide(facade, os.path.join(tmp, 'server'))
            for name in names:
                await manager.hold(BLOBS[name])
            client, server = new_real_client(loop), new_real_server(loop, manager)
            conn = Connection(client, server, c2s, s2c)
            out = []
            for name in names:
                data = BLOBS[name]
                blob = new_client_blob(facade, blob_hash_of(data), os.path.join(tmp, 'client') if on_disk else None)
                if blob.get_is_verified():      # a repeat: already downloaded
                    out.append((name, True, True, True, True))
                    continue
                sent_before = len(conn.to_client.log)
                ok, seconds = await download(conn, client, blob)
                bursts = conn.to_client.log[sent_before:]
                wire_ok = len(bursts) == 1 and len(bursts[0]) == 2 and bursts[0][1] == data \
                    and json.loads(bursts[0][0]).get('incoming_blob') == {'blob_hash': blob_hash_of(data), 'length': len(data)}
                out.append((name, ok, blob.get_is_verified(), stored_bytes(blob) == data, wire_ok))
                blob.close()
            server.connection_lost(None)
            return out, conn.errors
        finally:
            shutil.rmtree(tmp, ignore_errors=True)

    def ensures_every_blob_arrives_verified_and_identical(result):
        return all(ok and verified and identical for name, ok, verified, identical, wire_ok in result[0])

    def ensures_wire_carries_one_exact_header_then_the_blob(result):
        return all(wire_ok for name, ok, verified, identical, wire_ok in result[0])

    def ensures_no_protocol_exception(result):
        return result[1] == []

    def samples():
        small = [n for n in BLOBS if n not in ('64 KiB', '2 MiB')]
        for s2c in S2C_PATTERNS:
            for name in small:
                if name != 'looks like an incoming blob' or s2c in ('glued', 'hdr|body', 'ones'):     # (its failures are stalls)
                    yield dict(names=[name], c2s='glued', s2c=s2c, on_disk=False)
        for c2s in C2S_PATTERNS[1:]:
            for s2c in ('glued', 'hdr|body', 'ones'):
                yield dict(names=['text'], c2s=c2s, s2c=s2c, on_disk=True)
        for s2c in S2C_PATTERNS:
            yield dict(names=['1 byte', 'braces', 'text'], c2s='ones', s2c=s2c, on_disk=True)
            yield dict(names=['json', '1 byte', 'json'], c2s='glued', s2c=s2c, on_disk=False)
        for s2c in ('glued', 'hdr|body', 'hdr+1|', 'k=1460', 'k=65536'):
            yield dict(names=['2 MiB'], c2s='glued', s2c=s2c, on_disk=s2c in ('glued', 'k=1460'))
        for s2c in ('ones', 'hdr-1|', 'hdr ones|body', 'mid hdr', 'k=7', 'k=64'):
            yield dict(names=['64 KiB'], c2s='k=7', s2c=s2c, on_disk=False)


@proof("C10", "transfer.slow later transfer")
class SlowLaterTransfer:
    """BOUNDED stand-in (run-time contract check, no deductive part).  Several blobs on ONE connection from the real server with
    idle_timeout 0.2 s and transfer_timeout 3 s; chosen transfers pause 0.6 s in the middle of the body (longer than the idle
    time-out, shorter than the transfer time-out): a transfer in progress is never cut by the idle watchdog -- every blob, the later
    ones included, arrives verified and byte-identical."""
    bounded_only = True
    inputs = dict(pauses=TList(TInt(0, 1)), s2c=TStr())
    note = "2-3 blobs on one connection, the first / second / third transfer pausing 0.6 s mid-body; re-chunkings glued, 7-byte"

    async def run(pauses, s2c):
        loop = asyncio.get_running_loop()
        tmp = tempfile.mkdtemp(prefix='c10-')
        try:
            os.mkdir(os.path.join(tmp, 'server'))
            names = ['text', 'braces', 'sd blob'][:len(pauses)]
            manager = ServerSide(LoopFacade(loop, [0.6 * p for p in pauses]), os.path.join(tmp, 'server'))
            for name in names:
                await manager.hold(BLOBS[name])
            client = new_real_client(loop)
            server = BlobServerProtocol(loop, manager, 'bServerAddress', idle_timeout=0.2, transfer_timeout=3.0)
            conn = Connection(client, server, 'glued', s2c)
            out = []
            for name in names:
                blob = new_client_blob(LoopFacade(loop), blob_hash_of(BLOBS[name]), None)
                ok, seconds = await download(conn, client, blob)
                out.append((name, ok, blob.get_is_verified(), stored_bytes(blob) == BLOBS[name]))
                blob.close()
            server.connection_lost(None)
            return out
        finally:
            shutil.rmtree(tmp, ignore_errors=True)

    def ensures_every_blob_arrives_verified_and_identical(result):
        return all(ok and verified and identical for name, ok, verified, identical in result)

    def samples():
        yield dict(pauses=[0, 1], s2c='glued')
        yield dict(pauses=[1, 1], s2c='k=7')
        yield dict(pauses=[0, 0, 1], s2c='glued')


@proof("C10", "transfer.peer aborts beside another")
class PeerAbortsBesideAnother:
    """BOUNDED stand-in (run-time contract check, no deductive part).  Client A (real) downloads a blob from the real server over a
    slow transfer (pause in the middle of the body); while A's transfer is in flight a second peer B asks the same blob manager for a
    blob over its own connection and goes away (connection reset) before the transfer starts / while the header is on its way / after
    some body bytes -- or behaves.  Whatever B does, A ends with the verified, byte-identical blob (keeps serving others)."""
    bounded_only = True
    inputs = dict(b_does=TStr(), same_blob=TBool())
    note = ("B: resets before its transfer starts, during the header, after half of the body, or downloads normally; B asks for the "
            "same blob as A or for another one; A's transfer pauses 0.3 s mid-body so that it is in flight throughout")

    async def run(b_does, same_blob):
        loop = asyncio.get_running_loop()
        tmp = tempfile.mkdtemp(prefix='c10-')
        try:
            os.mkdir(os.path.join(tmp, 'server'))
            data_a = BLOBS['text']
            data_b = data_a if same_blob else BLOBS['braces']
            facade = LoopFacade(loop, [0.3, 0.1])           # A's transfer, then B's
            manager = ServerSide(facade, os.path.join(tmp, 'server'))
            await manager.hold(data_a)
            await manager.hold(data_b)
            client_a, server_a = new_real_client(loop), new_real_server(loop, manager)
            conn_a = Connection(client_a, server_a, 'glued', 'glued')
            blob_a = new_client_blob(LoopFacade(loop), blob_hash_of(data_a), None)
            task_a = loop.create_task(download(conn_a, client_a, blob_a))
            await asyncio.sleep(0.03)                        # A's request is served: first half sent, transfer pausing
            in_flight = len(manager.get_blob(blob_hash_of(data_a)).readers) == 1
            server_b = new_real_server(loop, manager)
            b_ok = None
            if b_does == 'downloads':
                client_b = new_real_client(loop)
                conn_b = Connection(client_b, server_b, 'glued', 'glued')
                blob_b = new_client_blob(LoopFacade(loop), blob_hash_of(data_b), None)
                b_ok, _ = await download(conn_b, client_b, blob_b)
                b_ok = b_ok and stored_bytes(blob_b) == data_b
                blob_b.close()
            else:
                peer_b = ScriptedClient()
                conn_b = Connection(peer_b, server_b, 'glued', 'glued')
                peer_b.transport.write(request_for(blob_hash_of(data_b)))
                conn_b._deliver(conn_b.to_server, server_b, peer_b)      # the request reaches the server: handler task created
                if b_does == 'resets before the transfer':
                    conn_b.to_client.close()                               # the reset is already known when the handler runs
                    await asyncio.sleep(0.01)
                else:
                    await asyncio.sleep(0.01)                              # handler: header and first half of the body written
                    if b_does == 'resets after half of the body':
                        conn_b._deliver(conn_b.to_client, peer_b, server_b)
                    conn_b.to_client.close()                               # reset while B's transfer pauses
                await asyncio.sleep(0.15)                                  # B's sendfile notices the closed transport
                conn_b._lose(server_b, ConnectionResetError('reset by peer'))
            ok, seconds = await task_a
            result = dict(in_flight=in_flight, ok=ok, verified=blob_a.get_is_verified(), identical=stored_bytes(blob_a) == data_a,
                          b_ok=b_ok)
            blob_a.close()
            server_a.connection_lost(None)
            return result
        finally:
            shutil.rmtree(tmp, ignore_errors=True)

    def ensures_a_was_in_flight_when_b_arrived(result):
        return result['in_flight']

    def ensures_a_ends_verified_and_identical(result):
        return result['ok'] and result['verified'] and result['identical']

    def ensures_well_behaved_b_is_served_too(b_does, result):
        return b_does != 'downloads' or result['b_ok']

    def samples():
        for b_does in ('resets before the transfer', 'resets during the header', 'resets after half of the body', 'downloads'):
            yield dict(b_does=b_does, same_blob=True)
        for b_does in ('resets during the header', 'downloads'):
            yield dict(b_does=b_does, same_blob=False)


# ---- lying server

def stale_length_left_behind(lie):
    """predicate of known finding C10-F2 on the inputs of the lying-server stand-in: the liar announced, for the requested hash, a
    wrong length that set_length accepts (0..2 MiB) while the blob's length was still unknown"""
    return lie in ('length one more', 'length one less', 'length zero')


def lie_of_server(lie, blob, other):
    """(list of writes answering the request, do the right bytes travel under a header naming the right hash and length) for one
    entry of the misbehaviour catalogue; only in the second case may the blob end up verified"""
    h, o = blob_hash_of(blob), blob_hash_of(other)

    def header(blob_hash=h, length=len(blob), available=None, rate='RATE_ACCEPTED', **extra):
        d = {'incoming_blob': {'blob_hash': blob_hash, 'length': length}, 'blob_data_payment_rate': rate,
             'available_blobs': [h] if available is None else available}
        d.update(extra)
        return json.dumps({k: v for k, v in d.items() if v is not None}).encode()
    flipped_first = bytes([blob[0] ^ 1]) + blob[1:]
    flipped_last = blob[:-1] + bytes([blob[-1] ^ 0x80])
    table = {
        'wrong hash announced': ([header(blob_hash=o), blob], False),
        'other blob announced and sent': ([header(blob_hash=o, length=len(other)), other], False),
        'length one more': ([header(length=len(blob) + 1), blob], False),
        'length one less': ([header(length=len(blob) - 1), blob], False),
        'length zero': ([header(length=0), blob], False),
        'length negative': ([header(length=-5), blob], False),
        'length above the maximum': ([header(length=MAX_BLOB_SIZE + 1), blob], False),
        'length is a string': ([header(length=str(len(blob))), blob], False),
        'error response': ([json.dumps({'incoming_blob': {'error': 'no'}, 'blob_data_payment_rate': 'RATE_ACCEPTED',
                                        'available_blobs': [h]}).encode(), blob], False),
        'error response then the blob anyway': ([json.dumps({'incoming_blob': {'error': 'no'}}).encode() + blob], False),
        'no availability answer': ([header(available=None).replace(b', "available_blobs": ["%s"]' % h.encode(), b''), blob], True),
        'availability names another blob': ([header(available=[o]), blob], True),
        'availability names two blobs': ([header(available=[h, o]), blob], True),
        'rate too low': ([header(rate='RATE_TOO_LOW'), blob], True),
        'no rate answer': ([header(rate=None), blob], True),
        'unknown rate word': ([header(rate='CHEAP'), blob], False),
        'malformed json': ([b'{"incoming_blob": {"blob_hash": }}', blob], False),
        'json is a list': ([b'[{"incoming_blob": 1}]', blob], False),
        'incoming_blob is a number': ([b'{"incoming_blob": 5}', blob], False),
        'incoming_blob without hash': ([b'{"incoming_blob": {"length": %d}}' % len(blob), blob], False),
        'foreign key in header': ([header(surprise=1), blob], False),
        'oversized json': ([b'{"incoming_blob": "' + b'A' * (3 * MAX_BLOB_SIZE) + b'"}', blob], False),
        'endless garbage with braces': ([b'}{' * 30000], False),
        'first byte corrupted': ([header(), flipped_first], False),
        'last byte corrupted': ([header(), flipped_last], False),
        'short body then silence': ([header(), blob[:-1]], False),
        'header only then silence': ([header()], False),
        'no answer at all': ([], False),
        'excess bytes after the blob': ([header(), blob + b'EXCESS' * 3], True),
        'header twice': ([header(), header() + blob], False),
        'body of another blob': ([header(), other[:len(blob)].ljust(len(blob), b'!')], False),
        'honest': ([header(), blob], True),
    }
    return table[lie]


SERVER_LIES = ['wrong hash announced', 'other blob announced and sent', 'length one more', 'length one less', 'length zero', 'length negative',
               'length above the maximum', 'length is a string', 'error response', 'error response then the blob anyway',
               'no availability answer', 'availability names another blob', 'availability names two blobs', 'rate too low',
               'no rate answer', 'unknown rate word', 'malformed json', 'json is a list', 'incoming_blob is a number',
               'incoming_blob without hash', 'foreign key in header', 'oversized json', 'endless garbage with braces',
               'first byte corrupted', 'last byte corrupted', 'short body then silence', 'header only then silence', 'no answer at all',
               'excess bytes after the blob', 'header twice', 'body of another blob', 'honest']


class LyingServer:
    """scripted peer in the server role: answers request number `position` with the lie, the others honestly"""

    def __init__(self, blobs, lie, position, unsolicited=b''):
        self.blobs, self.lie, self.position, self.unsolicited = blobs, lie, position, unsolicited
        self.transport = None
        self.buf = b''
        self.seen = 0

    def connection_made(self, transport):
        self.transport = transport
        if self.unsolicited:
            transport.write(self.unsolicited)

    def connection_lost(self, exc):
        self.transport = None

    def data_received(self, data):
        self.buf += data
        if not self.buf.endswith(b'}'):
            return
        wanted = json.loads(self.buf)['requested_blob']
        self.buf = b''
        blob = [b for b in self.blobs if blob_hash_of(b) == wanted][0]
        other = [b for b in self.blobs if b is not blob][0]
        writes, _ = lie_of_server(self.lie if self.seen == self.position else 'honest', blob, other)
        self.seen += 1
        for w in writes:
            self.transport.write(w)


@proof("C10", "transfer.lying server")
class LyingServerTransfer:
    """BOUNDED stand-in (run-time contract check, no deductive part).  The REAL client (blob on disk) against a scripted server that
    misbehaves on the first request or on the second one (after an honest exchange on the same connection): the blob is verified
    only with exactly the right bytes, otherwise it is not verified and nothing is left in the blob directory; the attempt ends
    within the configured time-outs and closes the connection; afterwards the same blob downloads fine from an honest server."""
    bounded_only = True
    inputs = dict(lie=TStr(), position=TInt(0, 1), s2c=TStr(), unsolicited=TBool())
    note = ("32 misbehaviours of the server (hash, length, availability, rate, JSON shape and size, body corrupted / short / excess / "
            "foreign, silence) x at the first or the second request of a connection x re-chunkings glued, header|body (ten of them also "
            "1-byte and 7-byte); unsolicited bytes before the first request; time-outs 0.05 s")

    async def run(lie, position, s2c, unsolicited):
        loop = asyncio.get_running_loop()
        facade = LoopFacade(loop)
        tmp = tempfile.mkdtemp(prefix='c10-')
        try:
            for d in ('server', 'client'):
                os.mkdir(os.path.join(tmp, d))
            first, target = BLOBS['text'], BLOBS['braces']
            liar = LyingServer([first, target], lie, position, b'{"lbrycrd_address": "x"}' if unsolicited else b'')
            client = new_real_client(loop)
            conn = Connection(client, liar, 'glued', s2c)
            if unsolicited:
                await conn.pump(lambda: False, rounds=3)
            reached = True
            if position == 1:
                warm = new_client_blob(facade, blob_hash_of(first), os.path.join(tmp, 'client'))
                reached, _ = await download(conn, client, warm)
                reached = reached and stored_bytes(warm) == first
                warm.close()
            blob = new_client_blob(facade, blob_hash_of(target), os.path.join(tmp, 'client'))
            if not lie_of_server(lie, b'xx', b'yy')[1]:
                client.peer_timeout = FAST      # the attempt is expected to end by closing or by this time-out
            ok, seconds = await download(conn, client, blob)
            verified, content = blob.get_is_verified(), stored_bytes(blob)
            files = sorted(os.listdir(os.path.join(tmp, 'client')))
            closed = conn.closed and client.transport is None
            # afterwards: the same blob object, an honest server, a new connection
            manager = ServerSide(facade, os.path.join(tmp, 'server'))
            await manager.hold(target)
            client2, server2 = new_real_client(loop), new_real_server(loop, manager)
            conn2 = Connection(client2, server2, 'glued', 'hdr|body')
            again, _ = await download(conn2, client2, blob) if not blob.get_is_verified() else (True, 0)
            recovered = again and stored_bytes(blob) == target
            blob.close()
            server2.connection_lost(None)
            expected_files = ([blob_hash_of(first)] if position == 1 and reached else []) + ([blob_hash_of(target)] if verified else [])
            return dict(reached=reached, ok=ok, verified=verified, identical=content == target, seconds=seconds, closed=closed,
                        clean=files == sorted(expected_files), recovered=recovered)
        finally:
            shutil.rmtree(tmp, ignore_errors=True)

    def ensures_second_request_was_reached(unsolicited, result):
        return unsolicited or result['reached']

    def ensures_verified_only_with_the_right_bytes(lie, result):
        right_bytes_travel = lie_of_server(lie, b'xx', b'yy')[1]
        return (not result['verified'] or (result['identical'] and right_bytes_travel)) and (not result['ok'] or result['verified'])

    def ensures_honest_answer_succeeds(lie, unsolicited, result):
        return unsolicited or lie not in ('honest', 'excess bytes after the blob') or (result['ok'] and result['verified'])

    def ensures_nothing_unverified_left_on_disk(result):
        return result['clean']

    def ensures_failure_closes_within_the_time_outs(result):
        return result['ok'] or (result['closed'] and result['seconds'] <= 2 * FAST + SLACK)       # two awaits, one time-out each

    def ensures_blob_still_downloadable_from_an_honest_server(result):
        return result['recovered']

    def samples():
        big = ('oversized json', 'endless garbage with braces')
        for lie in SERVER_LIES:
            for position, patterns in ((0, ('glued', 'hdr|body')), (1, ('hdr|body',))):
                for s2c in patterns if lie not in big else ('k=65536',):
                    yield dict(lie=lie, position=position, s2c=s2c, unsolicited=False)
        for lie in ('wrong hash announced', 'length one less', 'error response', 'availability names another blob', 'unknown rate word',
                    'malformed json', 'first byte corrupted', 'short body then silence', 'excess bytes after the blob', 'header twice'):
            yield dict(lie=lie, position=0, s2c='ones', unsolicited=False)
            yield dict(lie=lie, position=1, s2c='k=7', unsolicited=False)
        for lie in ('honest', 'wrong hash announced'):
            yield dict(lie=lie, position=0, s2c='glued', unsolicited=True)


# ---- lying client

def request_for(blob_hash):
    return BlobRequest.make_request_for_blob_hash(blob_hash).serialize()


def lie_of_client(lie, held, unverified):
    """fragments a scripted client sends"""
    good = request_for(held)
    table = {
        'oversized request': [b' ' * 1000 + good],
        'oversized in fragments': [b'{"requested_blob": "' + b'a' * 100] * 12,
        'oversized garbage': [b'\x00' * 5000],
        'just below the limit, invalid': [b'x' * 1198 + b'}'],
        'malformed json': [b'{"requested_blob": }'],
        'binary garbage with a brace': [b'\xff\xfe\x00}'],
        'garbage without a brace then silence': [b'GET / HTTP/1.1\r\n\r\n'],
        'json number': [b'5}'],
        'json list': [b'[{}]'],
        'empty object': [b'{}'],
        'foreign keys only': [b'{"hello": "world"}'],
        'requested_blobs empty': [b'{"requested_blobs": []}'],
        'requested_blobs not a list': [b'{"requested_blobs": 7}'],
        'requested_blob is a number': [b'{"requested_blob": 7}'],
        'requested_blob is not a hash': [b'{"requested_blob": "../../etc/passwd"}'],
        'unverified blob requested': [request_for(unverified)],
        'unknown blob requested': [request_for('ab' * 48)],
        'two requests glued': [good + good],
        'request then garbage': [good + b'xx'],
        'request in two halves then close brace twice': [good[:50], good[50:] + b'}'],
        'nothing at all': [],
        'honest': [good],
    }
    return table[lie]


CLIENT_LIES = ['oversized request', 'oversized in fragments', 'oversized garbage', 'just below the limit, invalid', 'malformed json',
               'binary garbage with a brace', 'garbage without a brace then silence', 'json number', 'json list', 'empty object',
               'foreign keys only', 'requested_blobs empty', 'requested_blobs not a list', 'requested_blob is a number',
               'requested_blob is not a hash', 'unverified blob requested', 'unknown blob requested', 'two requests glued',
               'request then garbage', 'request in two halves then close brace twice', 'nothing at all', 'honest']


class ScriptedClient:
    def __init__(self):
        self.transport = None
        self.received = b''

    def connection_made(self, transport):
        self.transport = transport

    def connection_lost(self, exc):
        self.transport = None

    def data_received(self, data):
        self.received += data


@proof("C10", "transfer.lying client")
class LyingClientTransfer:
    """BOUNDED stand-in (run-time contract check, no deductive part).  The REAL server (holding one verified blob and knowing one
    unverified one) against a scripted client, optionally after one honest exchange on the same connection: blob bytes are sent only
    for the verified blob and only after a header naming it; anything but a served request ends with the connection closed within
    the idle time-out; another connection to the same blob manager is served normally afterwards."""
    bounded_only = True
    inputs = dict(lie=TStr(), position=TInt(0, 1), c2s=TStr())
    note = ("22 behaviours of the client (oversized in one piece / in fragments, malformed and non-object JSON, wrong types, unverified "
            "/ unknown / invalid blob, glued requests, trailing garbage, silence) x as first message or after an honest exchange x "
            "re-chunkings glued, 1-byte, 7-byte")

    async def run(lie, position, c2s):
        loop = asyncio.get_running_loop()
        facade = LoopFacade(loop)
        tmp = tempfile.mkdtemp(prefix='c10-')
        try:
            for d in ('server', 'client'):
                os.mkdir(os.path.join(tmp, d))
            data = BLOBS['text']
            manager = ServerSide(facade, os.path.join(tmp, 'server'))
            held = await manager.hold(data)
            unverified = manager.get_blob(blob_hash_of(b'never downloaded'), 16)
            server = new_real_server(loop, manager, FAST)
            peer = ScriptedClient()
            conn = Connection(peer, server, c2s, 'glued')
            t0 = loop.time()
            if position == 1:
                peer.transport.write(request_for(held.blob_hash))
                await conn.pump(lambda: peer.received.endswith(data))
                peer.received = b''
                conn.to_client.log.clear()
                t0 = loop.time()
            for fragment in lie_of_client(lie, held.blob_hash, unverified.blob_hash):
                if peer.transport is not None and not conn.closed:
                    peer.transport.write(fragment)
                    await conn.pump(lambda: False, rounds=2)
            while not conn.closed and loop.time() - t0 < FAST + SLACK:
                await conn.pump(lambda: conn.closed, rounds=2)
                await asyncio.sleep(FAST / 5)
            seconds = loop.time() - t0
            served = peer.received.endswith(data) and len(peer.received) > len(data)
            wire = [w for burst in conn.to_client.log for w in burst]
            # blob bytes on the wire: any write that is not a JSON object
            bodies = [w for w in wire if not w.startswith(b'{')]
            announced = [json.loads(w).get('incoming_blob') for w in wire if w.startswith(b'{')]
            # another peer, same manager
            client2, server2 = new_real_client(loop), new_real_server(loop, manager)
            conn2 = Connection(client2, server2, 'glued', 'glued')
            blob = new_client_blob(facade, held.blob_hash, os.path.join(tmp, 'client'))
            again, _ = await download(conn2, client2, blob)
            others = again and stored_bytes(blob) == data
            blob.close()
            server2.connection_lost(None)
            if not conn.closed:
                server.connection_lost(None)
            return dict(closed=conn.closed, seconds=seconds, served=served, bodies=bodies, announced=[a for a in announced if a],
                        others=others, held=(held.blob_hash, len(data)), data=data)
        finally:
            shutil.rmtree(tmp, ignore_errors=True)

    def ensures_blob_bytes_only_for_the_verified_blob_after_its_header(result):
        h, n = result['held']
        return all(b == result['data'] for b in result['bodies']) and len(result['bodies']) == len(result['announced']) \
            and all(a == {'blob_hash': h, 'length': n} for a in result['announced'])

    def ensures_served_only_if_a_complete_request_for_the_held_blob_was_sent(lie, result):
        # whether glued / garbage-suffixed requests are served depends on the re-chunking; the honest one always is
        return (not result['served'] or lie in ('honest', 'two requests glued', 'request then garbage',
                                                'request in two halves then close brace twice')) and (lie != 'honest' or result['served'])

    def ensures_connection_closed_within_the_idle_time_out(result):
        return result['closed'] and result['seconds'] <= FAST + SLACK

    def ensures_keeps_serving_others(result):
        return result['others']

    def samples():
        for lie in CLIENT_LIES:
            for position in (0, 1):
                for c2s in ('glued', 'ones', 'k=7'):
                    yield dict(lie=lie, position=position, c2s=c2s)


TRUSTED = [
    "json: dumps output is ASCII and loads(dumps(x)) == x for structures of str/int/float/bool/list/dict; on arbitrary text loads is a "
    "function of the text that raises ValueError (JSONDecodeError, UnicodeDecodeError) or returns a value -- uninterpreted, the shapes "
    "the code can tell apart being enumerated in two catalogues (responses: int, list, {}, foreign key, every combination of "
    "incoming_blob absent/error/ok/without hash/not a dict with and without a rate answer; requests: int, list, null, {}, foreign key, "
    "12 combinations of the request keys well- and ill-typed, each with and without a foreign key)",
    "SMT-LIB str.indexof: -1 <= r < max(len(s), 1), and r >= 0 implies s[r] == needle for a one-byte needle (added to the path "
    "condition as lemmas wherever a parsed text contains an indexof term)",
    "asyncio: Event / Future / wait_for / create_task as modelled by the engine (pyvc.aio, cooperative FIFO scheduling, time-outs only "
    "as outcomes chosen by the harness through ScriptedFuture); a protocol whose data_received raises has its transport closed by the "
    "event loop (selector transport _fatal_error)",
    "time.perf_counter() increases between the start and the end of a download (the throughput log line does not divide by zero); "
    "float()/round() are used for that log line only and are abstracted",
    "set() of the requested hashes behaves as a duplicate-free collection of unspecified order",
    "HashBlobWriter / blob verification (C01) for what happens to the bytes after they reach the writer (the stand-ins run the real ones)",
    "stand-ins: the in-memory Wire / LoopFacade.sendfile deliver exactly the bytes written, in order, re-chunked as the pattern says, "
    "report a closed transport to the peer as connection_lost, and close the transport of a protocol whose data_received raised",
]
NOT_DECIDED = [
    "every time-out clause (peer_timeout, idle_timeout, transfer_timeout): deductively time-outs appear only as possible outcomes of "
    "awaits; the stand-ins measure them with 0.05 s time-outs and 2 s scheduling slack",
    "'keeps serving others' and whole-connection behaviour (connection_made/lost, download_blob wrapper, request_blob, "
    "BlobDownloader): only the bounded stand-ins exercise several requests and connections",
    "liveness of header recognition for headers other than the three concrete honest ones (for arbitrary text only safety is proved: "
    "what is recognised is the parse of the prefix in front of the rest); first-ness of the recognised prefix rests on the JSON grammar",
    "close_on_idle is proved against a model of the handler's side (each transfer sets started_transfer at its start and "
    "transfer_finished at its end, at most 2 transfers, no two transfers overlapping); real durations only in the stand-ins",
    "AbstractBlob.sendfile / reader_context (own reader only is closed when a peer goes away): contextlib.contextmanager generators "
    "are outside the engine's reach (/tmp/engine_gaps/C10_3.py): bounded stand-ins blob.sendfile[frame] and transfer.peer aborts "
    "beside another only",
    "the misbehaviour catalogue at every message position and all re-chunkings of whole transfers: bounded stand-ins only",
    "JSON values outside the two catalogues of shapes (e.g. nested containers as leaf values)",
    "resource use of a peer that never completes a header (the client buffer is unbounded until the time-out; each fragment re-scans it)",
]
ASSUMPTIONS = [
    "data_received is never called with an empty fragment (asyncio delivers EOF through eof_received)",
    "connection_manager is None on the client (it only counts bytes)",
    "server.data_received[oversized]: the buffer is n filler bytes for arbitrary n (only its length is read before closing)",
    "header-phase proofs: the writer accepts the bytes (writer failures are covered by client._write)",
]
