"""C14 — no double spend: concurrent transaction builds never share an output.

The argument is rely/guarantee over the reservation flag (DESIGN 2.5): a build changes the flag of an output from free to
reserved only while it holds `Ledger._utxo_reservation_lock`, only for outputs that the read made UNDER THE SAME LOCK returned
as free, and it releases only outputs it reserved itself.  The proofs of contracts/c03.py (registered here under C14 as well)
discharge exactly those guarantees on the real `Ledger.get_spendable_utxos`, `Transaction.create` and `release_tx`:
  * every database access of coin selection (read and reserve) happens while the lock is held, the lock is released on every
    path (`ensures_database_only_touched_under_the_reservation_lock`, `..._lock_released`);
  * the inputs a build adds are exactly the outputs it reserved, all taken from the unreserved set it was offered;
  * after a failure nothing stays reserved; after release everything is free again.
  * the sqlite chooser (`get_and_reserve_spendable_utxos`, proofs chooser[1], chooser[2] over a table model) flags exactly the
    outputs it returns, inside the one SQL transaction it is given.
With mutual exclusion of the lock (asyncio.Lock model) these guarantees imply that the sets selected by concurrent builds are
disjoint for every interleaving of their database calls.  The whole-system statement is additionally exercised on the real
Ledger + sqlite Database with 2..8 concurrent builds, every strategy (including the sqlite chooser, whose select+update runs
in one SQL transaction), unconfirmed outputs and builds failing at signing (bounded stand-in).
"""
from pyvc.api import *
from contracts import c03 as _c03

for _p in list(PROOFS):
    if _p.prop == 'C03' and (_p.name.startswith('create[') or _p.name.startswith('chooser') or _p.name == 'real-ledger.concurrent'):
        proof("C14", _p.name)(type('C14_' + _p.cls.__name__, (_p.cls,), {}))

TRUSTED = list(_c03.TRUSTED) + [
    "the sqlite chooser's select and update run inside one SQL transaction (AIOSQLite.run); SQL semantics of the reserved flag "
    "(bounded on real sqlite)",
]
NOT_DECIDED = [
    "interleavings are decided by the lock argument, not enumerated; the real-database stand-in runs one schedule per case",
    "crashes (reservations are persistent; release_all_outputs at start-up is outside the statement); cancellation of a build",
]
ASSUMPTIONS = list(_c03.ASSUMPTIONS)
